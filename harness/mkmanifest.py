#!/usr/bin/env python3
"""Regenerates /verif/MANIFEST.json from the table below (only properties whose check module exists are claimed)."""
import json
import os

HERE = os.path.dirname(os.path.abspath(__file__))
VERIF = os.path.dirname(HERE)

PROOF_NOTE = ("Trusted: Lean 4.33 kernel + Mathlib v4.33; axioms propext/Classical.choice/Quot.sound only (audited every run); "
              "the hand-written model lean/Ds is tied to /repo by this check's differential correspondence run (validated, not verified); "
              "NumPy/sklearn/pandas/Cython semantics enter as modelled parameters; see DESIGN.md section 3.")

P = {
 "C01": ("proof", "Theorems (all sizes, all orders incl. ties, all labels/utilities): the modelled kernel's output equals the Shapley value of the 1-NN game "
         "(closed form of the backward recurrence + Shapley value of the hit games + equivariance). Correspondence: rebuilt Cython kernel, reference kernel, "
         "per-unit reduction and end-to-end score() against the model and against Shapley-by-definition.", "5 C01"),
 "C02": ("proof", "Model of compute_shapley_add + oracle proved/validated against the K-NN game; correspondence on conjunctive hypergraphs against the model and "
         "against Shapley-by-definition of the K-NN game.", "5 C02"),
 "C03": ("proof", "Theorem: the modelled accumulation with factor_0/factor_1 over all 2^n assignments equals the textbook Shapley sum for every game; failures map to null, "
         "other exceptions propagate. Correspondence: method='bruteforce' with recording table utilities over random DNF provenances.", "5 C03"),
 "C04": ("proof", "Theorems: per-permutation marginals, telescoping sum, average over sampled permutations; equality with the Shapley value under uniform sampling via "
         "Shapley's uniqueness theorem. Correspondence with recorded permutations of the instance RandomState.", "5 C04"),
 "C05": ("proof", "Theorem: modelled query (padding, squeeze, masked any, negative indexing) = truth of each row's DNF for every container/assignment. Correspondence: "
         "exhaustive assignments on random ragged containers, three encodings, both dtypes.", "5 C05"),
 "C06": ("proof", "Efficiency theorems for the kernel, bruteforce and Monte-Carlo models in exact arithmetic; floating-point accuracy at scale is measured against exact "
         "integer right-hand sides on a size ladder (not provable in Lean).", "5 C06"),
 "C07": ("proof", "Invariance theorems of the model (validation permutation/duplication, monotone distance transforms, unit relabelling, batch size); metamorphic "
         "runs on the implementation each also compared with the model.", "5 C07"),
 "C08": ("proof", "Linearity theorems (kernel, bruteforce) and JointUtility model; correspondence through neighbor (K=1, K=2) and bruteforce with weighted joint utilities.", "5 C08"),
 "C09": ("proof", "Oracle model (compile, boundary diagrams, restrict/sum/modelcount) against the by-definition coalition count; ADD operation semantics proved, construction "
         "invariants checked per case.", "5 C09"),
 "C10": ("proof", "Theorems: evaluation = path sum, restrict (non-root) = fixing a variable, sum = pointwise sum, modelcount = histogram, value-domain monoid and subtraction laws. "
         "Correspondence: random ADD programs on the real ADD class and the model.", "5 C10"),
 "C11": ("proof", "Theorems: modelled & and | evaluate to conjunction/disjunction for all nine operand shapes; data round trip. Correspondence on random operator trees.", "5 C11"),
 "C12": ("proof", "Theorems: fork/select/default/ofGroups/join act row-wise in the model. Correspondence incl. arbitrary integer group ids; join is a known finding (F10).", "5 C12"),
 "C13": ("proof", "Both kernels are TRANSLATED from the source on every run and proved (i) equal to the model over Q and (ii) equal to each other at ANY scalar type with no algebraic law "
         "(same operations in the same order, hence bit-identical in IEEE arithmetic: TIE_cy_eq_py_any); rounding-error theorems bound any reordering; agreement of the REBUILT extension with the "
         "reference kernel, with the translated kernels (bit for bit) and with exact rationals is measured on a size ladder.", "5 C13"),
 "C14": ("proof", "Theorems: mean element-wise accuracy = accuracy; null element-wise mean = null score = min over constant predictors; ROC-AUC element-wise sums. Correspondence "
         "exhaustive over small label/prediction vectors vs sklearn metrics.", "5 C14"),
 "C15": ("other", "Logic skeleton proved (two-layer exception handler as a state machine: handled kinds map to null, others escape); WHICH exceptions scikit-learn raises on degenerate "
         "subsets is third-party runtime behaviour and is decided by exhaustive subset enumeration over a range of estimators.", "5 C15 / 6"),
 "C16": ("proof", "Theorems on the modelled timeout slice (non-empty prefix, exact length) and truncation counter invariant; correspondence with injected clocks expiring after every "
         "iteration and tolerance/step grids.", "5 C16"),
 "C17": ("other", "The model is a pure function of (data, parameters, permutation list) by construction; hidden inputs of the process (global RNG, hash seed, process identity) cannot "
         "be exhibited by a model and are decided by perturbation runs (in-process, scrambled global RNGs, subprocesses with different PYTHONHASHSEED).", "5 C17 / 6"),
 "C18": ("other", "Model consumes only (feature matrix after the map pipeline, class indices); label renaming invariance proved for the model; pandas/scipy.sparse/LabelEncoder "
         "behaviour on concrete containers is decided by rendering each dataset in every accepted representation.", "5 C18 / 6"),
 "C19": ("proof", "Refinement theorem: every modelled container operation commutes with the abstraction to a plain list of formulas; correspondence on random edit histories vs a "
         "Python list and the model after every operation.", "5 C19"),
 "C20": ("other", "fit/score state machine proved pure in the model (score leaves state unchanged; result depends on last fit only); aliasing and in-place writes into caller buffers "
         "are decided by byte snapshots around random call histories.", "5 C20 / 6"),
}

TECH = {
 "proof": "Lean 4 theorems about a hand-written executable model + differential correspondence check of the model against /repo",
 "other": "Lean 4 theorems for the logic skeleton + differential/perturbation correspondence runs for the runtime part (partial)",
}


TIE_TECH = ("; code this property rests on (the two 1-NN kernels and get_test_batch_size / the control skeleton of _shapley_bruteforce / one permutation walk of _shapley_montecarlo / the JointUtility methods / the accuracy and ROC-AUC element-wise tables / Provenance.query / the AValue and ATally arithmetic / ADD.__call__, restrict, sum, concatenate, stack, update, construct_chain, modelcount, ShapleyOracle.__init__ and query / the operators & and | of the expression classes, their data / from_data conversions and the unit registry behind them / the data and expressions paths of Provenance.__init__ / the failure handler of SklearnModelUtility.__call__ and null_score / the front end (fit, score, __init__, _score, _shapley: argument routing, provenance choice, units and world resolution) / the integer-index edits, fork and row selection of the provenance container / compute_shapley_add, get_unit_labels_and_distances, compute_shapley_1nn_mapfork and the batch loop of _shapley_neighbor - see evidence.coverage.translator) is additionally "
            "TRANSLATED from /repo's source to Lean on every run (harness/translate*.py -> lean/Gen*) and proved equal to the model (lean/Tie*), so the theorems are re-checked against the current source text")


def setup_cmd(leanio):
    """regenerate every translated file from /repo, build the model + theorems, then every tie (a tie that no longer builds must not stop the setup: the
    check of the properties registered for it reports it)"""
    trs = []
    for t in leanio.TIES.values():
        if t["translator"] not in trs:
            trs.append(t["translator"])
    cmd = " && ".join("(/venv/bin/python harness/%s.py || true)" % t for t in trs)
    cmd += " && cd lean && lake build Ds DsProofs dsdriver"
    for t in leanio.TIES.values():
        cmd += " && (lake build %s || true)" % " ".join(t["targets"])
    return cmd


def main():
    checks = []
    na = []
    import sys
    sys.path.insert(0, HERE)
    import leanio
    for pid, (level, text, ref) in sorted(P.items()):
        if level == "proof" and not leanio.obligations_for(pid):
            level = "other"
            text = "(no theorem registered yet at this commit - correspondence only) " + text
        if os.path.exists(os.path.join(HERE, "props", pid.lower() + ".py")):
            checks.append(dict(
                property_id=pid,
                quick_cmd="./check %s --tier quick" % pid,
                thorough_cmd="./check %s --tier thorough" % pid,
                evidence_file="evidence/%s.json" % pid,
                replay_cmd_template="./check %s --replay {path}" % pid,
                engine="lean-model+correspondence",
                level_claimed=dict(category=level, text=text, design_ref="DESIGN.md section " + ref),
                level_note=PROOF_NOTE,
                technique=TECH[level] + (TIE_TECH if pid in leanio.TIE_PROPS else "")))
        else:
            na.append(dict(property_id=pid, reason="check not built yet in this round (planned, see DESIGN.md section 5)"))
    m = dict(
        version=1,
        setup_cmd=setup_cmd(leanio),
        hooks=dict(guard="DATASCOPE_VERIF", enable="none needed: the harness replaces module/instance attributes (clock, RandomState, kernel entry point, batch size) from outside",
                   baseline_off_cmd="cd /repo && /venv/bin/python -m pytest -ra -q -p no:cacheprovider --timeout=900 --continue-on-collection-errors",
                   source_commits=[], add_only=True),
        engines=[dict(name="lean-model+correspondence", path="lean/ + harness/", serves_properties=[c["property_id"] for c in checks],
                      kind_free_text="Lean 4 model (lean/Ds), theorems (lean/DsProofs), source-to-Lean translator for the kernels (harness/translate.py, lean/Gen, lean/Tie), native JSON-line drivers, Python differential harness")],
        checks=checks,
        notes="Known findings: KNOWN_FINDINGS.json. fix: commits in /repo are listed there as 'fixed'.",
        not_applicable=na)
    json.dump(m, open(os.path.join(VERIF, "MANIFEST.json"), "w"), indent=1)
    print("claimed:", [c["property_id"] for c in checks])


if __name__ == "__main__":
    main()
