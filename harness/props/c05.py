"""C05 - Provenance query selects exactly the rows whose formula is true."""
import numpy as np
import gen
import spec
from props.common import (check_translated_query, load_impl, make_prov, make_prov_late, first_mention_normal, flat_lits, exc_name, rand_keys, rand_ckeys, rand_raw_data, raw_true, raw_to_exprs, raw_padding_kinds,
                          raw_model_prov, make_raw_prov)

RULE = ("random ragged DNF lists (rows 1-6, disjuncts 1-3, conjuncts 1-3, 2-3 candidates, value-0 literals, repeated units) "
        "x ALL assignments x encodings (int64 / int32 / uint8 / bool ndarray, int and bool list, dict with omitted units) x dtypes (bool, int); compared with the Lean model "
        "Ds.Prov.query/ofExprs and with a structural truth evaluation of the source expressions. About 1 expression case in 8 is built over an OPEN unit set "
        "(Units(candidates=...) with no unit declared): the container is constructed from a proper prefix of the formulas and the rest is appended / inserted "
        "afterwards, so units are registered on first mention and some only AFTER the container was constructed. Non-trivial = the container holds "
        "padding (rows of different shapes) and some row's truth value varies over the assignments; distinct = distinct expression lists. "
        "Second stream (1 case in 4): containers given as RAW (rows, disjuncts, conjuncts, 2) data through Provenance(units=..., data=...) "
        "(int64 / int32 ndarray, nested list, 3-D array for one disjunct) whose padding slots (-1,-1) stand anywhere - in front of, between and behind the "
        "literals of a disjunct, whole disjuncts (in any position) and whole rows of padding - x ALL assignments x the same encodings; compared with "
        "the truth value read off the slots by definition (a disjunct = conjunction of its non-padding literals, an all-padding disjunct "
        "contributes nothing, a row without a real disjunct is false) and with Ds.Prov.query on the same raw container. "
        "Third stream (2 per quick run, 6 per thorough worker): LARGE raw containers (20 000 - 300 000 rows of up to 3x3 slots, odd row counts, and 65 537+ rows of "
        "one slot) x 4 random assignments, mask and index output, against the definition evaluated with vectorised numpy.")


def raw_case(ctx, I, n_units, n_cands, data):
    """a container handed over as raw 4-D data (padding slots in arbitrary positions)"""
    rng = ctx.rng
    keys, scheme = rand_keys(rng, n_units)
    ckeys, cscheme = rand_ckeys(rng, n_cands)
    forms = ["int64", "int64", "int32", "list"] + (["3d", "3d"] if len(data[0]) == 1 else [])
    form = rng.choice(forms)
    case = dict(nUnits=n_units, nCands=n_cands, rawData=data, form=form, unitKeys=[str(k) for k in keys], candidateKeys=[str(k) for k in ckeys])
    kinds = raw_padding_kinds(data)
    ctx.dist["built=raw 4-D data"] += 1
    ctx.dist["raw_form=" + form] += 1
    for k in kinds:
        ctx.dist["raw_padding=" + k] += 1
    asg = spec.assignments(n_units, n_cands)
    spec_tab = [[raw_true(row, a) for row in data] for a in asg]
    # the same truth values through the expression evaluator on the stripped formulas (two independent readings of the definition)
    stripped = raw_to_exprs(data)
    assert spec_tab == [[spec.expr_true(e, a) for e in stripped] for a in asg]
    varies = any(len({row[i] for row in spec_tab}) > 1 for i in range(len(data)))
    ctx.case(["raw", data], nontrivial=bool(kinds) and varies, sample=dict(nUnits=n_units, nCands=n_cands, rawData=data),
             rows=len(data), cands=n_cands, ragged=bool(kinds))
    ctx.maxi(units=n_units, rows=len(data), assignments=len(asg))
    model = ctx.model({"op": "history", "prov": raw_model_prov(data, n_units, n_cands), "ops": [{"op": "table"}]})
    model_tab = model["ok"][0] if model else None
    try:
        prov, _units = make_raw_prov(I, data, n_units, n_cands, keys=keys, ckeys=ckeys, form=form)
        if prov.data.tolist() != data:
            ctx.mismatch("the constructor did not store the raw data it was given", case, impl=prov.data.tolist(), spec=data)
            return
    except Exception as e:  # noqa
        ctx.mismatch("Provenance(units=..., data=<raw array>) raised", case, impl=(exc_name(e), repr(e)), spec="accepted")
        return
    impl_tab = []
    for k, a in enumerate(asg):
        try:
            m_arr = [bool(x) for x in np.asarray(prov.query(np.array(a, dtype=int))).tolist()]
            m_list = [bool(x) for x in np.asarray(prov.query(list(a))).tolist()]
            idx = np.asarray(prov.query(np.array(a, dtype=int), dtype=int)).reshape(-1).tolist()
            d = {keys[u]: ckeys[a[u]] for u in range(n_units) if not (a[u] == 0 and (u + sum(a)) % 2 == 0)}
            m_dict = [bool(x) for x in np.asarray(prov.query(d)).tolist()]
            alt = {"int32 array": [bool(x) for x in np.asarray(prov.query(np.array(a, dtype=np.int32))).tolist()]}
            if n_cands == 2:
                alt["bool array"] = [bool(x) for x in np.asarray(prov.query(np.array(a, dtype=bool))).tolist()]
        except Exception as e:  # noqa
            ctx.mismatch("query raised", dict(case, assignment=a), impl=(exc_name(e), repr(e)), model=(model_tab[k] if model_tab else None), spec=spec_tab[k])
            return
        if any(v != m_arr for v in alt.values()) or not (m_arr == m_list == m_dict) or idx != [i for i, x in enumerate(m_arr) if x]:
            ctx.mismatch("encodings/dtypes disagree", dict(case, assignment=a),
                         impl=dict(array=m_arr, list=m_list, dict=m_dict, idx=idx, **alt), spec=spec_tab[k])
            return
        impl_tab.append(m_arr)
    if impl_tab != spec_tab:
        k = next(i for i in range(len(asg)) if impl_tab[i] != spec_tab[i])
        ctx.mismatch("query != truth of the row formulas (raw container, padding slots in arbitrary positions)", dict(case, assignment=asg[k], formulas=stripped),
                     impl=impl_tab[k], model=(model_tab[k] if model_tab else None), spec=spec_tab[k])
    elif model_tab is not None and model_tab != impl_tab:
        k = next(i for i in range(len(asg)) if impl_tab[i] != model_tab[i])
        ctx.mismatch("model Ds.Prov.query disagrees with implementation on a raw container (implementation agrees with the definition)",
                     dict(case, assignment=asg[k]), impl=impl_tab[k], model=model_tab[k], spec=spec_tab[k],
                     failing_input=False, broken="corr:Ds.Prov.query / theorem C05_main")


def one_case(ctx, I, n_units, n_cands, exprs, late=False):
    """late: exprs is in first-mention-normal form over exactly n_units units; the container is built over an OPEN unit set from a proper prefix of
    the formulas and the rest is appended afterwards, so some units may be registered only after the container was constructed."""
    keys, scheme = rand_keys(ctx.rng, n_units)
    ckeys, cscheme = rand_ckeys(ctx.rng, n_cands)
    via_default = ctx.rng.random() < 0.25
    lazy = ctx.rng.random() < 0.3
    if late and len(exprs) >= 2:
        via_default = False
        split = ctx.rng.randint(1, len(exprs) - 1)
        prov, units, es = make_prov_late(I, exprs, n_units, split, n_cands, keys=keys, ckeys=ckeys)
        seen = {l[0] for e in exprs[:split] for l in flat_lits(e)}
        ctx.dist["built=over an open unit set from a prefix of the formulas, rest appended (%s)"
                 % ("some unit first mentioned after construction" if len(seen) < n_units else "all units known at construction")] += 1
        extra = dict(built="Units(candidates=%r) with no unit declared; Provenance(first %d formulas), then the others appended / inserted at the end "
                           "one by one, each built just before; unit keys by position %r" % (list(ckeys), split, [str(k) for k in keys]))
    else:
        late = False
        extra = {}
        prov, units, es = make_prov(I, exprs, n_units, n_cands, keys=keys, lazy=lazy, ckeys=ckeys, via_default=via_default)
        ctx.dist["built=" + ("default container edited in place" if via_default else "from expressions")] += 1
    ctx.dist["unit_keys=" + scheme] += 1
    ctx.dist["candidate_keys=" + cscheme] += 1
    asg = spec.assignments(n_units, n_cands)
    # implementation
    impl_tab = []
    bad = None
    for a in asg:
        try:
            m_arr = [bool(x) for x in np.asarray(prov.query(np.array(a, dtype=int))).tolist()]
            m_list = [bool(x) for x in np.asarray(prov.query(list(a))).tolist()]
            idx = np.asarray(prov.query(np.array(a, dtype=int), dtype=int)).reshape(-1).tolist()
            # dict encoding: drop the units that hold the first candidate with probability 1/2
            d = {keys[u]: ckeys[a[u]] for u in range(n_units) if not (a[u] == 0 and (u + sum(a)) % 2 == 0)}
            m_dict = [bool(x) for x in np.asarray(prov.query(d)).tolist()]
            alt = {}
            if n_cands == 2:      # an assignment over two candidates is legitimately a boolean / unsigned indicator vector (candidate INDEX per unit)
                alt["bool array"] = [bool(x) for x in np.asarray(prov.query(np.array(a, dtype=bool))).tolist()]
                alt["bool list"] = [bool(x) for x in np.asarray(prov.query([bool(x) for x in a])).tolist()]
            alt["uint8 array"] = [bool(x) for x in np.asarray(prov.query(np.array(a, dtype=np.uint8))).tolist()]
            alt["int32 array"] = [bool(x) for x in np.asarray(prov.query(np.array(a, dtype=np.int32))).tolist()]
        except Exception as e:  # noqa
            bad = (a, exc_name(e), repr(e))
            break
        if any(v != m_arr for v in alt.values()):
            ctx.mismatch("the answer depends on the dtype of the assignment vector", dict(nUnits=n_units, nCands=n_cands, exprs=exprs, **extra, assignment=a),
                         impl=dict(int64=m_arr, **alt), spec=[spec.expr_true(e, a) for e in exprs])
            return
        if not (m_arr == m_list == m_dict) or idx != [i for i, x in enumerate(m_arr) if x]:
            ctx.mismatch("encodings/dtypes disagree", dict(nUnits=n_units, nCands=n_cands, exprs=exprs, **extra, assignment=a),
                         impl=dict(array=m_arr, list=m_list, dict=m_dict, idx=idx), spec=[spec.expr_true(e, a) for e in exprs])
            return
        impl_tab.append(m_arr)
        check_translated_query(ctx, prov, a, m_arr, idx, dict(nUnits=n_units, nCands=n_cands, exprs=exprs, **extra))
    spec_tab = [[spec.expr_true(e, a) for e in exprs] for a in asg]
    model = ctx.model({"op": "history", "prov": {"nUnits": n_units, "nCands": n_cands, "exprs": exprs},
                       "ops": [{"op": "table"}, {"op": "dump"}]})
    model_tab = model["ok"][0] if model else None
    ragged = len({(len(e.get("disj", [0])) if "disj" in e else 1, max((len(c) for c in e["disj"]), default=1) if "disj" in e else (len(e["conj"]) if "conj" in e else 1)) for e in exprs}) > 1
    varies = any(len({row[i] for row in spec_tab}) > 1 for i in range(len(exprs)))
    ctx.case(exprs, nontrivial=ragged and varies, sample=dict(nUnits=n_units, nCands=n_cands, exprs=exprs, **extra),
             rows=len(exprs), cands=n_cands, ragged=ragged)
    ctx.maxi(units=n_units, rows=len(exprs), assignments=len(asg))
    case = dict(nUnits=n_units, nCands=n_cands, exprs=exprs, **extra)
    if bad is not None:
        ctx.mismatch("query raised", dict(case, assignment=bad[0]), impl=bad[1:], model=model_tab, spec="total")
        return
    if impl_tab != spec_tab:
        k = next(i for i in range(len(asg)) if impl_tab[i] != spec_tab[i])
        ctx.mismatch("query != truth of the row formulas", dict(case, assignment=asg[k]), impl=impl_tab[k],
                     model=(model_tab[k] if model_tab else None), spec=spec_tab[k])
    elif model_tab is not None and model_tab != impl_tab:
        k = next(i for i in range(len(asg)) if impl_tab[i] != model_tab[i])
        ctx.mismatch("model Ds.Prov.query disagrees with implementation (implementation agrees with the definition)",
                     dict(case, assignment=asg[k]), impl=impl_tab[k], model=model_tab[k], spec=spec_tab[k],
                     failing_input=False, broken="corr:Ds.Prov.query / theorem C05_main")
    if model is not None:
        dump = model["ok"][1]
        raw = prov.data.tolist()
        mraw = [[[list(l) for l in c] for c in r] for r in dump["data"]]
        if raw != mraw:
            ctx.notes.append("raw padded array differs from model for %s" % (exprs,)) if len(ctx.notes) < 3 else None
            ctx.dist["raw_array_differs"] += 1


def large_case(ctx, I, rows, d, c, n_units, n_cands):
    """a LARGE raw container (tens of thousands of rows): the truth values are computed by definition with vectorised numpy, a handful of assignments"""
    rng = ctx.rng
    nr = np.random.RandomState(rng.randrange(2 ** 31))
    units = nr.randint(0, n_units, size=(rows, d, c))
    cands = nr.randint(0, n_cands, size=(rows, d, c))
    pad = nr.rand(rows, d, c) < 0.3
    pad[:, 0, 0] &= nr.rand(rows) < 0.1                     # most rows keep a real literal in the first slot
    data = np.stack([np.where(pad, -1, units), np.where(pad, -1, cands)], axis=-1).astype(np.int64)
    case = dict(large=True, rows=rows, disjuncts=d, conjuncts=c, nUnits=n_units, nCands=n_cands, numpy_seed="derived from VERIF_SEED")
    ctx.dist["built=large raw 4-D data"] += 1
    ctx.case(["large", rows, d, c, n_units, n_cands], nontrivial=True, sample=case, rows=rows, cands=n_cands, ragged=True)
    ctx.maxi(rows=rows)
    try:
        prov = I["provenance"].Provenance(units=n_units, candidates=n_cands, data=data.copy())
    except Exception as e:  # noqa
        ctx.mismatch("Provenance(units=..., data=<large raw array>) raised", case, impl=(exc_name(e), repr(e)), spec="accepted")
        return
    for _ in range(4):
        a = np.array([rng.randrange(n_cands) for _ in range(n_units)], dtype=int)
        lit = (a[np.where(pad, 0, units)] == cands) | pad                    # a padding slot does not constrain its disjunct
        real = ~np.all(pad, axis=2)                                          # a disjunct without a literal contributes nothing
        want = np.any(np.all(lit, axis=2) & real, axis=1)
        try:
            got = np.asarray(prov.query(a)).astype(bool)
            idx = np.asarray(prov.query(a, dtype=int)).reshape(-1)
        except Exception as e:  # noqa
            ctx.mismatch("query raised on a large container", dict(case, assignment=a.tolist()), impl=(exc_name(e), repr(e)), spec="mask of %d rows" % rows)
            return
        if got.shape != want.shape or not np.array_equal(got, want) or not np.array_equal(idx, np.flatnonzero(want)):
            bad = np.flatnonzero(got != want) if got.shape == want.shape else np.array([], dtype=int)
            r0 = int(bad[0]) if len(bad) else -1
            ctx.mismatch("query != truth of the row formulas on a large container (%d rows differ, the first at position %d)" % (len(bad), r0),
                         dict(case, assignment=a.tolist(), first_bad_row=r0, row_data=(data[r0].tolist() if r0 >= 0 else None)),
                         impl=dict(selected=int(got.sum()), mask_at_row=(bool(got[r0]) if r0 >= 0 else None), n_idx=int(len(idx))),
                         spec=dict(selected=int(want.sum()), mask_at_row=(bool(want[r0]) if r0 >= 0 else None)))
            return


def run(ctx):
    I = load_impl(ctx)
    rng = ctx.rng
    n_cases = 120 if ctx.tier == "quick" else 1500
    # large containers: more literal slots than any block / chunk size a vectorised implementation might use, row counts that are no multiple of anything
    for rows, d, c in ([(rng.randrange(20011, 40000) | 1, rng.randint(2, 3), rng.randint(1, 3)), (65536 + rng.randrange(1, 999), 1, 1)]
                       + ([(rng.randrange(100003, 300000) | 1, rng.randint(1, 3), rng.randint(1, 3)) for _ in range(4)] if ctx.tier != "quick" else [])):
        large_case(ctx, I, rows, d, c, rng.randint(2, 5), rng.choice([2, 2, 3]))
    # corpus first: the F5 witness and friends
    corpus = [
        (3, 2, [{"eq": [0, 1]}, {"disj": [[[1, 1]], [[2, 1]]]}]),
        (3, 2, [{"conj": [[0, 1], [1, 1]]}, {"eq": [2, 0]}]),
        (2, 3, [{"disj": [[[0, 2]], [[1, 1], [0, 0]]]}, {"eq": [1, 2]}]),
        (1, 2, [{"eq": [0, 1]}]),
    ]
    for n, c, ex in corpus:
        one_case(ctx, I, n, c, ex)
    P_ = [-1, -1]
    raw_corpus = [
        # padding in front of a literal, behind it, a disjunct / a row of padding only, padding between two literals
        (3, 2, [[[P_, [0, 1]], [P_, P_]], [[[1, 1], [2, 1]], [P_, [0, 0]]], [[[2, 1], P_], [P_, P_]], [[P_, P_], [P_, P_]]]),
        (3, 2, [[[[0, 1], P_, [1, 1]]], [[P_, P_, [2, 0]]], [[P_, P_, P_]]]),
        (2, 3, [[[P_], [[1, 2]]], [[[0, 1]], [P_]]]),
    ]
    for n, c, data in raw_corpus:
        raw_case(ctx, I, n, c, data)
    for it in range(n_cases):
        if it % 4 == 3:
            n_cands = 2 if rng.random() < 0.7 else 3
            n_units = rng.randint(1, 4)
            raw_case(ctx, I, n_units, n_cands, rand_raw_data(rng, n_units, n_cands))
            continue
        n_units = rng.randint(1, 5 if ctx.tier == "quick" else 6)
        n_cands = 2 if rng.random() < 0.7 else 3
        if n_cands == 3:
            n_units = min(n_units, 4)
        rows = rng.randint(1, 6)
        exprs = [gen.rand_expr_flat(rng, n_units, 3, 3, n_cands) for _ in range(rows)]
        if rows >= 2 and rng.random() < 0.15:
            # open unit set: built from a prefix of the formulas, the rest appended later (units renamed to their first-mention rank, which is the
            # position the library gives them; units nobody mentions do not exist in an open set)
            exprs, n_units = first_mention_normal(exprs)
            one_case(ctx, I, n_units, n_cands, exprs, late=True)
            continue
        one_case(ctx, I, n_units, n_cands, exprs)
        if ctx.elapsed() > (400 if ctx.tier == "quick" else 1800):
            break
    return ctx.finish("proof", "Theorems C05_* state that the modelled query (padding, squeeze, masked any, negative indexing) "
                      "returns the truth value of each row's formula for every container and assignment; this run compared the "
                      "model and the by-definition evaluation with the real Provenance.query on every generated case.", RULE)
