"""C16 — Monte-Carlo timeout and truncation budgets keep the estimate well defined."""
from fractions import Fraction
import numpy as np
import gen
from props.common import load_impl, exc_name, make_prov
from props import tables
from props.mcutil import RecordingRandomState, injected_clock

RULE = ("method='montecarlo' under an injected clock (datascope.importance.shapley.time replaced by an object replaying a list of readings) expiring after EVERY "
        "possible iteration including the first, and never; truncation grids: steps 0-3, dyadic tolerances {0, 1/8, 1/4, 1/2, 1}, mean scores and table values "
        "placed inside, on the edge of and outside the band, plus size-driven score trajectories whose in-band runs are broken by out-of-band steps; recorded permutations; compared with the Lean model Ds.MC.run (keep/step/average) and with an "
        "independent Python rendering of the property (average over the completed permutations; cut at the first step whose in-band run exceeds the step budget; "
        "zero afterwards; never cut at 0 steps). Non-trivial = timeout actually expires before the last iteration, or at least one permutation is cut; distinct = "
        "distinct (game, settings, clock).")


def simulate(n, exprs, table, null, perms, mean, tol, T, timeout, clock):
    """the property, by definition"""
    cols = []
    cuts = 0
    start = clock[0]
    kept = None
    for i, p in enumerate(perms):
        a = [0] * n
        prev = tables.value_of(table, tables.rows_present(exprs, a), null)
        col = [Fraction(0)] * n
        run_len = 0
        for u in p:
            a[u] = 1
            cur = tables.value_of(table, tables.rows_present(exprs, a), null)
            col[u] = cur - prev
            prev = cur
            if abs(cur - mean) <= abs(tol * mean):
                run_len += 1
                if T > 0 and run_len > T:
                    cuts += 1
                    break
            else:
                run_len = 0
        cols.append(col)
        reading = clock[min(i + 1, len(clock) - 1)]
        if timeout > 0 and reading - start > timeout:
            kept = i + 1
            break
    m = len(cols)
    return [sum(c[i] for c in cols) / m for i in range(n)], m, cuts


def run(ctx):
    I = load_impl(ctx)
    rng = ctx.rng
    q = ctx.tier == "quick"
    n_cases = 160 if q else 1000
    for it in range(n_cases):
        n_units = rng.randint(1, 6)
        exprs = [gen.rand_expr_flat(rng, n_units, 2, 2, 2, p_zero=0.15) for _ in range(rng.randint(1, 5))]
        mean = Fraction(rng.randrange(-8, 9), 2)
        tol = rng.choice([Fraction(0), Fraction(1, 8), Fraction(1, 4), Fraction(1, 2), Fraction(1)])
        band = abs(tol * mean)
        # table values clustered around the band
        pool = [mean, mean, mean + band, mean - band, mean + band + Fraction(1, 8), mean - band - Fraction(1, 8), mean + band / 2, mean - band / 2, Fraction(rng.randrange(-40, 41), 4)]
        table = {}
        import spec
        for a in spec.assignments(n_units):
            rows = tables.rows_present(exprs, a)
            if rows not in table:
                table[rows] = rng.choice(pool) if rng.random() > 0.1 else rng.choice(["ValueError", "RuntimeWarning", "UserWarning"])
        null = rng.choice(pool)
        if it % 2 == 1:
            # trajectory mode: one unit per row and a value that depends only on the number of present rows, so that every permutation walks the
            # same in-band / out-of-band pattern (runs of in-band steps broken by out-of-band ones: what the consecutive-steps counter is about)
            n_units = rng.randint(3, 7)
            exprs = [{"eq": [u, 1]} for u in range(n_units)]
            inb = [mean, mean + band, mean - band, mean + band / 2]
            outb = [mean + band + Fraction(1, 8), mean - band - Fraction(1, 4), mean + band + 3]
            traj = [rng.choice(inb) if rng.random() < 0.6 else rng.choice(outb) for _ in range(n_units + 1)]
            table = {}
            for a in spec.assignments(n_units):
                rows = tables.rows_present(exprs, a)
                table[rows] = traj[len(rows)]
            null = traj[0]
        scale = Fraction(1)
        if it % 5 == 4:
            # the same game at a tiny magnitude (exact power of two): the band is RELATIVE to the mean score, so nothing may change - an absolute floor in the
            # band test (1e-8, say) would count every step as in-band here
            scale = Fraction(1, 2 ** rng.choice([30, 32, 36]))
            mean = mean * scale
            table = {k: (v * scale if isinstance(v, Fraction) else v) for k, v in table.items()}
            null = null * scale
        T = rng.choice([0, 1, 1, 2, 3])
        iterations = rng.randint(1, 8)
        timeout = rng.choice([0, 5, 5, 5])
        # clock: reading 0 = start; reading i+1 after iteration i
        expire_after = rng.randint(0, iterations)          # == iterations: never within the run
        clock = [100] + [100 + (6 if i >= expire_after else rng.choice([0, 1, 5])) for i in range(iterations + 2)]
        seed = rng.randrange(10 ** 6)
        prov, _, _ = make_prov(I, exprs, n_units)
        n_rows = len(exprs)
        util = tables.make_table_utility(I, table, null, mean=mean)
        case = dict(nUnits=n_units, exprs=exprs, table=tables.table_json(table), null=str(null), mean=str(mean), tolerance=str(tol), truncSteps=T,
                    iterations=iterations, timeout=timeout, clock=clock, seed=seed)
        try:
            imp = I["imp"].ShapleyImportance(method="montecarlo", utility=util, mc_iterations=iterations, mc_timeout=timeout, mc_tolerance=float(tol),
                                             mc_truncation_steps=T, seed=seed)
            rec = RecordingRandomState(imp.randomstate)
            imp.randomstate = rec
            X = np.arange(n_rows, dtype=float).reshape(-1, 1)
            with injected_clock(I["shapley"], clock):
                res = list(np.asarray(imp.fit(X, np.zeros(n_rows, dtype=int), provenance=prov).score(np.zeros((1, 1)), np.zeros(1, dtype=int)), dtype=float))
        except Exception as e:  # noqa
            ctx.mismatch("score() raised", case, impl=exc_name(e) + ": " + repr(e))
            continue
        perms = rec.perms
        case["perms"] = perms
        if not perms:
            ctx.mismatch("no permutation was drawn: the estimate must average at least one completed permutation whatever the clock says", case, impl=res)
            continue
        # the permutations that WOULD be drawn: the model/spec only need those actually drawn
        want, m, cuts = simulate(n_units, exprs, table, null, perms, mean, tol, T, timeout, clock)
        nontriv = (timeout > 0 and m < iterations) or cuts > 0
        ctx.case(case, nontrivial=nontriv, sample=(case if n_units <= 3 and iterations <= 3 else None), T=T, timeout=timeout, expired=(timeout > 0 and m < iterations), cut=(cuts > 0), tiny_scale=(scale != 1))
        ctx.maxi(units=n_units, iterations=iterations)
        ans = ctx.model({"op": "mc", "prov": {"nUnits": n_units, "exprs": exprs}, "table": tables.table_json(table), "null": str(null), "mean": str(mean),
                         "timeout": str(timeout), "tolerance": str(tol), "truncSteps": T, "perms": perms, "clock": [str(c) for c in clock]})
        if any(x != x for x in res):
            ctx.mismatch("scores are NaN", case, impl=res, model=ans, spec=[str(x) for x in want])
            continue
        if len(perms) < m:
            ctx.mismatch("fewer permutations were completed than the budget rule allows (stop after the first iteration whose clock reading exceeds the timeout)",
                         case, impl=len(perms), spec=m)
            continue
        if not ctx.vec_close([x / float(scale) for x in res], [w / scale for w in want], 50):
            ctx.mismatch("scores are not the average over the completed permutations (with the truncation rule)", case, impl=res, model=ans, spec=[str(x) for x in want])
            continue
        # the permutation walk translated from this tree's source (truncation rule included), averaged over the permutations that were completed
        tables.check_translated_walk(ctx, case, exprs, n_units, table, null, mean, tol, T, perms, res, 50)
        if ans is not None and (ans.get("ok") in (None, "nan") or [Fraction(x) for x in ans["ok"]] != want):
            ctx.mismatch("model Ds.MC.run differs from the definition", case, impl=res, model=ans, spec=[str(x) for x in want], failing_input=False,
                         broken="theorems C16_* / corr:Ds.MC.run")
        if ctx.elapsed() > (400 if q else 1800):
            break
    return ctx.finish("proof", "C16_keep_nonempty/_exact, C16_defined, C16_no_trunc, C16_trunc_sound, C16_trunc_zero: for every clock history, iteration count and game "
                      "the modelled estimate is the average over a non-empty prefix of completed permutations and the truncation counter invariant holds. This run tied "
                      "the model to method='montecarlo' under an injected clock and tolerance/step grids.", RULE)
