"""C02 — K-NN (K>1) and join-provenance neighbor scores are exact Shapley values."""
from fractions import Fraction
import numpy as np
import gen
import spec
from props.common import load_impl, exc_name, conj_prov, rand_keys
from props.c01 import additive_utility

RULE = ("end-to-end ShapleyImportance('neighbor', nn_k=K).fit().score() and compute_shapley_add on random conjunctive provenance hypergraphs (1-5 units quick / "
        "1-6 thorough, 1-5 rows, rows needing 1-3 units, shared units, units owning several rows or none, isolated units, more units than rows), K 1-3, 2-3 classes, "
        "1-2 validation points, pairwise distinct distances, accuracy and random additive utilities; every third case is a HUB hypergraph (gen.rand_hub_hypergraph: one "
        "unit co-occurring with 2-3 other units AND owning rows that need it alone - rows x0, x0&x1, x0&x2, ... - mostly placed so that the hub is the first variable "
        "of the compiled diagram: a factor of a stacked component whose root edges carry tallies); compared with the Lean model Ds.Neighbor.score -> Ds.Oracle.scores "
        "and with the Shapley value by definition (Fractions) of the K-NN game (majority label among the K nearest present rows, lowest class on ties, null below K "
        "rows); K=1 one-unit-per-row cases are additionally forced through the ADD path and must equal the kernel path. Non-trivial = >= 2 units, some row needs >= 2 "
        "units or K >= 2, and the Shapley vector is not constant; distinct = distinct (hypergraph, labels, order, K, utility).")


def run(ctx):
    I = load_impl(ctx)
    rng = ctx.rng
    q = ctx.tier == "quick"
    n_cases = 10 if q else 40        # per worker process (quick: 4 workers, thorough: 8)
    from sklearn.neighbors import KNeighborsClassifier
    for it in range(n_cases):
        # the real ADD path costs rows*(rows+1)*units oracle queries per validation point: quick tier keeps most cases at <= 4 units / <= 4 rows
        top = (5 if it % 5 == 4 else 4) if q else 6
        n_units = rng.randint(1, top) if it % 11 == 10 else rng.randint(2, top)
        n_rows = rng.randint(2, 4 if (q and it % 5 != 4) else 5) if it % 7 else 1
        maxw = rng.choice([1, 2, 2, 3])
        K = rng.randint(1, min(3, max(1, n_rows - 1)))
        if maxw == 1 and K == 1:
            K = 2
        hub = it % 3 == 2        # quick: iterations 2, 5, 8 of each of the 4 workers, all in the <= 4 units / <= 4 rows budget
        if hub:
            # hub hypergraph: a unit that co-occurs with several others and also owns single-unit rows (x0, x0&x1, x0&x2, ...) - the first variable of the
            # compiled diagram is then a factor of a stacked component whose root edges carry tallies, and every "with / without this unit" query restricts it
            n_units = rng.randint(3, top)
            n_rows = rng.randint(3, 4 if (q and it % 5 != 4) else 5)
            maxw = 2
            K = rng.randint(1, min(3, n_rows - 1))
            rows = gen.rand_hub_hypergraph(rng, n_units, n_rows)
        else:
            rows = gen.rand_hypergraph(rng, n_units, n_rows, maxw)
        c = rng.randint(2, 3)
        m = 1 if (q and rng.random() < 0.6) else rng.randint(1, 2)
        pool = sorted(rng.sample(range(-5, 30), c))
        y_train = [rng.choice(pool) for _ in range(n_rows)]
        classes = sorted(set(y_train))
        y_test = [rng.choice(classes) for _ in range(m)]
        dist = np.array(gen.distinct_distances(rng, n_rows, m), dtype=float)
        ukind = rng.choice(["accuracy", "custom"])
        if ukind == "accuracy":
            util = I["utility"].SklearnModelAccuracy(KNeighborsClassifier(n_neighbors=K))
            ureq = {"utility": "accuracy"}
            Um = [[Fraction(1 if cl == yt else 0) for yt in y_test] for cl in classes]
            accs = [Fraction(sum(1 for yt in y_test if yt == cl), m) for cl in classes]
            kmin = accs.index(min(accs))
            nlv = [Fraction(1 if yt == classes[kmin] else 0) for yt in y_test]
        else:
            U = [[rng.randrange(-8, 9) for _ in range(m)] for _ in classes]
            nl = [rng.randrange(-8, 9) for _ in range(m)]
            util = additive_utility(I, U, nl)
            ureq = {"utility": "custom", "util": U, "nulls": nl}
            Um = [[Fraction(x) for x in row] for row in U]
            nlv = [Fraction(x) for x in nl]
        # unit identifiers: positions, or (2 cases in 5) shuffled / gapped integers, strings, tuples - declared up front or registered in that order on an
        # open unit set; slot i of the result belongs to the unit at POSITION i whatever it is called
        ukeys, kscheme = (rand_keys(rng, n_units) if it % 5 in (1, 3) else (list(range(n_units)), "positional"))
        prov, _, _ = conj_prov(I, rows, n_units, keys=(None if kscheme == "positional" else ukeys), lazy=(kscheme != "positional" and it % 2 == 1))
        exprs = [{"conj": [[u, 1] for u in r]} if len(r) > 1 else {"eq": [r[0], 1]} for r in rows]
        case = dict(nUnits=n_units, rows=rows, y_train=y_train, y_test=y_test, dist=dist.tolist(), K=K, unitKeys=[str(k) for k in ukeys], **ureq)
        X = np.arange(n_rows, dtype=float).reshape(-1, 1)
        Xv = np.arange(m, dtype=float).reshape(-1, 1)
        try:
            imp = I["imp"].ShapleyImportance(method="neighbor", utility=util, nn_k=K, nn_distance=lambda A, B, D=dist: D.copy())
            res = list(np.asarray(imp.fit(X, np.array(y_train), provenance=prov).score(Xv, np.array(y_test)), dtype=float))
        except Exception as e:  # noqa
            res = exc_name(e) + ": " + repr(e)
        enc = {cl: k for k, cl in enumerate(classes)}
        lab = [enc[y] for y in y_train]
        games = []
        for j in range(m):
            order = sorted(range(n_rows), key=lambda r: dist[r, j])
            games.append(lambda S, j=j, order=order: spec.knn_value({r for r in range(n_rows) if all(u in S for u in rows[r])}, order, lab,
                                                                     [Um[k][j] for k in range(len(classes))], nlv[j], K, len(classes)))
        want = spec.shapley(n_units, lambda S: sum(g(frozenset(S)) for g in games) / m)
        ans = ctx.model({"op": "neighbor", "prov": {"nUnits": n_units, "exprs": exprs}, "simple": False, "yTrain": y_train, "yTest": y_test,
                         "dist": [[str(Fraction(x)) for x in row] for row in dist.tolist()], "K": K, **ureq})
        nontriv = n_units >= 2 and (maxw >= 2 or K >= 2) and len(set(want)) > 1
        ctx.case(case, nontrivial=nontriv, sample=case, units=n_units, K=K, maxw=maxw, util=ukind, hub=hub, unit_keys=kscheme)
        ctx.maxi(units=n_units, rows=n_rows, K=K)
        if isinstance(res, str):
            tag = "F3b-single-unit-addpath" if (n_units == 1 and res.startswith("IndexError")) else None
            ctx.mismatch("score() raised on the ADD path", case, impl=res, model=ans, spec=[str(x) for x in want], tag=tag)
            continue
        if not ctx.vec_close(res, want, 9):
            ctx.mismatch("neighbor scores (ADD path) are not the Shapley value of the K-NN game", case, impl=res, model=ans, spec=[str(x) for x in want])
        elif ans is not None:
            if "err" in ans or [Fraction(x) for x in ans["ok"]] != want:
                ctx.mismatch("model Ds.Oracle.scores differs from the Shapley value of the K-NN game", case, impl=res, model=ans, spec=[str(x) for x in want],
                             failing_input=False, broken="theorem C02_main / corr:Ds.Oracle.scores")
        if ctx.elapsed() > (600 if q else 2400):
            break
    return ctx.finish("proof", "C02: the modelled boundary-pair sum over oracle counts equals the Shapley value of the K-NN game (oracle = by-definition count, distinct "
                      "distances, conjunctive presence); this run compared score() through the ADD path with the model and with Shapley-by-definition.", RULE)
