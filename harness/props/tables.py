"""table utilities: arbitrary games on row subsets, used by bruteforce / montecarlo checks"""
import warnings
from fractions import Fraction
import numpy as np


class WarnVal(Fraction):
    """a coalition value whose evaluation SUCCEEDS but emits a warning of a category the scoring loops do not escalate (DeprecationWarning, FutureWarning,
    PendingDeprecationWarning, ResourceWarning ...): the value counts, the warning is nobody's business"""
    def __new__(cls, value, category="DeprecationWarning"):
        self = super().__new__(cls, value)
        self.category = category
        return self


def make_table_utility(I, table, null, mean, default=None):
    """table: dict frozenset(row ids) -> Fraction | 'ValueError' | 'RuntimeWarning' | 'UserWarning' | 'Other'.
    X_train must be np.arange(n_rows).reshape(-1,1) so that the utility can read the selected rows."""
    Utility = I["utility"].Utility
    UtilityResult = I["utility"].UtilityResult
    calls = []
    bad = []

    class TableUtility(Utility):
        def __call__(self, X_train, y_train, X_test, y_test, metadata_train=None, metadata_test=None, null_score=None, seed=0):
            rows = frozenset(int(x) for x in np.asarray(X_train).reshape(-1).tolist())
            calls.append(rows)
            # labels / metadata handed over must be those of exactly the same rows (fit_ids: y = row id, metadata = 1000 + row id)
            if metadata_train is not None:
                mrows = frozenset(int(x) - 1000 for x in np.asarray(metadata_train).reshape(-1).tolist())
                if mrows != rows or len(np.asarray(metadata_train)) != len(np.asarray(X_train)):
                    bad.append(("metadata_train", sorted(rows), sorted(mrows)))
            if u.expect_ids:
                yrows = frozenset(int(x) for x in np.asarray(y_train).reshape(-1).tolist())
                if yrows != rows:
                    bad.append(("y_train", sorted(rows), sorted(yrows)))
            out = table.get(rows, default)
            if out is None:
                raise KeyError("table utility has no entry for %s" % sorted(rows))
            if out == "ValueError":
                raise ValueError("degenerate subset")
            if out == "RuntimeWarning":
                warnings.warn("numeric trouble", RuntimeWarning)
                return UtilityResult(score=float("nan"))
            if out == "UserWarning":
                warnings.warn("user trouble", UserWarning)
                return UtilityResult(score=float("nan"))
            if out == "Other":
                raise KeyError("other exception")
            if isinstance(out, WarnVal):
                warnings.warn("a deprecated code path was taken", getattr(__import__("builtins"), out.category))
            return UtilityResult(score=float(out))

        def null_score(self, X_train, y_train, X_test, y_test, *a, **k):
            # like the library's own utilities, the null and mean scores are functions of the VALIDATION data of the call: validation label v shifts them by v * shift
            return float(null) + float(u.shift) * float(np.asarray(y_test).reshape(-1)[0])

        def mean_score(self, X_train, y_train, X_test, y_test, *a, **k):
            return float(mean) + float(u.shift) * float(np.asarray(y_test).reshape(-1)[0])
    u = TableUtility()
    u.shift = 0
    u.calls = calls
    u.bad = bad
    u.expect_ids = False
    return u


def fit_ids(u, imp, X, prov):
    """fit with labels = row ids and metadata = 1000 + row ids, so that the table utility can tell whose labels / metadata it is handed"""
    u.expect_ids = True
    n = len(X)
    return imp.fit(X, np.arange(n, dtype=int), metadata=(1000 + np.arange(n, dtype=int)).reshape(-1, 1), provenance=prov)


def rows_present(exprs, a):
    import spec
    return frozenset(i for i, e in enumerate(exprs) if spec.expr_true(e, a))


def rand_table(rng, exprs, n_units, p_fail=0.15, dyadic=True, allow_other=False):
    """independent value for every row subset reachable by some assignment"""
    import spec
    table = {}
    for a in spec.assignments(n_units):
        rows = rows_present(exprs, a)
        if rows in table:
            continue
        r = rng.random()
        if r < p_fail:
            table[rows] = rng.choice(["ValueError", "RuntimeWarning", "UserWarning"])
        elif allow_other and r < p_fail + 0.03:
            table[rows] = "Other"
        elif r > 0.84 and r <= 0.9:
            # evaluates fine but warns in a harmless category
            table[rows] = WarnVal(Fraction(rng.randrange(-64, 65), 8 if dyadic else 7), rng.choice(["DeprecationWarning", "FutureWarning", "PendingDeprecationWarning", "ResourceWarning"]))
        elif r > 0.9:
            # a coalition worth exactly 0 (a model that gets every validation point wrong): 0.0 is a score, not "no score"
            table[rows] = Fraction(0)
        else:
            table[rows] = Fraction(rng.randrange(-64, 65), 8 if dyadic else 7)
    return table


def table_json(table):
    return [[sorted(k), (v if isinstance(v, str) else str(Fraction(v)))] for k, v in sorted(table.items(), key=lambda kv: sorted(kv[0]))]


def value_of(table, rows, null):
    v = table[rows]
    return Fraction(null) if isinstance(v, str) else Fraction(v)


def genb_table(exprs, n_units, table):
    """the table of a case per ASSIGNMENT VECTOR, in the vocabulary of the translated skeleton (lean/GenB via genbdriver): what evaluating
    the coalition does — returns a value, raises a class, or emits a warning category (RuntimeWarning / UserWarning are emitted by the
    table utility with warnings.warn; it would then return NaN, rendered as 0)"""
    import spec
    out = []
    for a in spec.assignments(n_units):
        v = table[rows_present(exprs, a)]
        if isinstance(v, str):
            if v in ("RuntimeWarning", "UserWarning"):
                out.append([list(a), "warn", v, "0"])
            else:
                out.append([list(a), "exc", ("KeyError" if v == "Other" else v), "0"])
        elif isinstance(v, WarnVal):
            out.append([list(a), "warn", v.category, str(Fraction(v))])
        else:
            out.append([list(a), "val", "", str(Fraction(v))])
    return out


def check_translated_brute(ctx, case, exprs, n_units, table, null, res, scale):
    """the skeleton of _shapley_bruteforce TRANSLATED from this tree's source, run on the case's utility table, against what the implementation
    returned (`res`: list of floats, or "Other" when an uncaught class propagated).  A disagreement means the translator / Ds.Np misrepresent
    the code (no failing input of the property: the implementation is compared with the definition elsewhere)."""
    if ctx.genbdriver is None:
        return
    ans = ctx.genb({"n": n_units, "null": str(Fraction(null)), "table": genb_table(exprs, n_units, table)})
    ctx.dist["translated_skeleton_runs"] += 1
    bad = None
    if ans is None or ("ok" not in ans and "raised" not in ans):
        bad = "could not be run"
    elif "raised" in ans:
        if res != "Other":
            bad = "raised %s where the implementation returned scores" % ans["raised"]
    elif res == "Other" or isinstance(res, str):
        bad = "returned scores where the implementation raised"
    elif not ctx.vec_close(res, [Fraction(x) for x in ans["ok"]], scale):
        bad = "returned other scores than the implementation"
    if bad:
        ctx.mismatch("the skeleton translated from the source (harness/translate_skel.py -> lean/GenB) %s" % bad, case, impl=res, model=ans,
                     failing_input=False, broken="corr:GenB.shapley_bruteforce (translator / Ds.Np)")


def check_translated_walk(ctx, case, exprs, n_units, table, null, mean, tolerance, trunc_steps, perms, res, scale):
    """the permutation walk of _shapley_montecarlo TRANSLATED from this tree's source (lean/GenM via genmdriver), run on every recorded
    permutation; the average of its marginal vectors must be what the implementation returned (timeouts disabled).  A disagreement means the
    translator / Ds.Np misrepresent the code (the implementation is compared with the definition elsewhere)."""
    if ctx.genmdriver is None or not perms or isinstance(res, str):
        return
    tab = genb_table(exprs, n_units, table)
    cols = []
    for p in perms:
        ans = ctx.genm({"n": n_units, "null": str(Fraction(null)), "mean": str(Fraction(mean)), "tolerance": str(Fraction(tolerance)),
                        "truncation_steps": int(trunc_steps), "perm": [int(u) for u in p], "table": tab})
        if ans is None or "ok" not in ans:
            ctx.mismatch("the walk translated from the source (harness/translate_mc.py -> lean/GenM) raised where the implementation returned scores", case, impl=res, model=ans,
                         failing_input=False, broken="corr:GenM.mc_walk (translator / Ds.Np)")
            return
        cols.append([Fraction(x) for x in ans["ok"]])
    ctx.dist["translated_walk_runs"] += len(perms)
    avg = [sum(c[i] for c in cols) / len(cols) for i in range(n_units)]
    if not ctx.vec_close(res, avg, scale):
        ctx.mismatch("the average of the walks translated from the source (harness/translate_mc.py -> lean/GenM) differs from the implementation's scores", case,
                     impl=res, model=[str(x) for x in avg], failing_input=False, broken="corr:GenM.mc_walk (translator / Ds.Np)")
