"""C07 — scores depend on the data, not on its presentation (symmetry, invariance)."""
from fractions import Fraction
import numpy as np
from props.common import load_impl, exc_name
from props import datasets as dsm

RULE = ("metamorphic runs of ShapleyImportance('neighbor') on random datasets (2-7 units, default and map/fork groupings, 2-4 classes, 1-5 validation points, "
        "pairwise distinct distances): (a) permute training rows with labels, provenance and distance rows; (b) permute and (c) duplicate the validation set; "
        "(d) strictly increasing transforms of all distances (affine, exp, cube, sqrt, rescaling by 1e-11 and 1e11, and three whose range is negative: log, shift below zero, -1/(d+1)); (e) consistent injective renaming of the class labels incl. order-changing "
        "ones and int->str->float (K=1, accuracy); (f) BATCH_DISTANCE_MATRIX_SIZE set to 1, 2, 7, 64; (g) interchangeable units (two units with identical rows); "
        "every base run is also compared with the Lean model Ds.Neighbor.score so that 'both runs wrong the same way' is caught; "
        "(h) the exact K>1 / join path (compute_shapley_add): nn_k=2 on default and map/fork groupings and nn_k=1 on join provenances (rows needing two units), 3-4 units, "
        "3-4 rows, 2-3 validation points whose distances are small integers WITH ties - the points mostly share one stable ranking of the rows but differ in their tie "
        "pattern (a tie-free point next to tied ones) - accuracy and integer table utilities that are functions of the validation point; the validation set is permuted / "
        "duplicated-and-shuffled and the scores must not move (no model: with tied distances the K-NN game itself is not pinned down by the property, but whatever a point "
        "contributes cannot depend on which point was visited before it); "
        "(i) label renaming on grouped provenances WITH IN-UNIT TIES (K=1, accuracy): 2-8 units (some possibly owning no row) given as a unit-id array, as "
        "Provenance(units=n, data=groups) or as a provenance filtered with provenance[mask]; 1-3 rows per unit; small-integer distances with exact ties, among them surely "
        "a unit owning two rows with DIFFERENT labels that are equidistant from a validation point and are that unit's nearest rows to it (recorded distance matrix, or "
        "1-2-dimensional small-integer features with the default distance, the second row being the mirror image of the first about the validation point); the class "
        "labels are renamed by order-REVERSING maps (negation, reversed ranks, reversed strings, descending floats), random order-changing maps and int->str, and the "
        "renamed run is compared with the original run only (which of the tied rows represents its unit is not prescribed, so there is no fixed expected vector and no "
        "model request here; what is required is that the choice cannot depend on the NAMES of the classes). Non-trivial = the base score vector "
        "is not constant; distinct = distinct (dataset, transformation).")


def point_utility(I, U, nulls):
    """additive utility given as a function of the validation POINT (validation rows carry their identity in column 0), so that re-ordering or repeating
    validation points moves their utilities with them"""
    Utility = I["utility"].Utility

    def ids(X_test):
        return [int(v) for v in np.asarray(X_test)[:, 0]]

    class PointTable(Utility):
        def __call__(self, *a, **k):
            raise NotImplementedError

        def null_score(self, *a, **k):
            raise NotImplementedError

        def mean_score(self, *a, **k):
            raise NotImplementedError

        def elementwise_score(self, X_train, y_train, X_test, y_test, metadata_train=None, metadata_test=None):
            return np.array(U, dtype=float)[:, ids(X_test)]

        def elementwise_null_score(self, X_train, y_train, X_test, y_test, metadata_train=None, metadata_test=None):
            return np.array(nulls, dtype=float)[ids(X_test)]
    return PointTable()


def add_path_invariance(ctx, I, n_cases, budget):
    """(h) validation-order invariance on the exact K>1 / join path, tie-rich distances"""
    import gen
    from sklearn.neighbors import KNeighborsClassifier
    from props.common import conj_prov
    rng = ctx.rng
    t_start = ctx.elapsed()
    for it in range(n_cases):
        variant = ["join", "knn"][it % 2]
        if variant == "knn":
            n_units, K, c = 3, 2, 2
            n_rows = rng.randint(3, 4)
            if n_rows == n_units and rng.random() < 0.5:
                rows, prov, pmode = [[u] for u in range(n_units)], None, "default"
            else:
                groups = gen.rand_groups(rng, n_rows, n_units)
                rows, prov, pmode = [[g] for g in groups], np.array(groups), "groups"
        else:
            n_units, K, c = rng.randint(3, 4), 1, rng.randint(2, 3)
            n_rows = rng.randint(3, 4)
            rows = gen.rand_hypergraph(rng, n_units, n_rows, maxw=2, allow_isolated=False)
            if all(len(r) == 1 for r in rows):
                rows[rng.randrange(n_rows)] = sorted(rng.sample(range(n_units), 2))      # at least one joined row: otherwise K=1 takes the kernel path
            prov, pmode = conj_prov(I, rows, n_units)[0], "join"
        m = rng.choice([2, 2, 3])
        y_train = [rng.randrange(c) for _ in range(n_rows)]
        for k in range(min(c, n_rows)):
            y_train[k] = k
        rng.shuffle(y_train)
        y_val = [rng.randrange(c) for _ in range(m)]
        D, n_pat = dsm.tie_rich_columns(rng, n_rows, m)
        ukind = rng.choice(["accuracy", "table"])
        if ukind == "accuracy":
            util, ureq = I["utility"].SklearnModelAccuracy(KNeighborsClassifier(1)), {}
        else:
            U = [[rng.randrange(-8, 9) for _ in range(m)] for _ in range(c)]
            nl = [rng.randrange(-8, 9) for _ in range(m)]
            util, ureq = point_utility(I, U, nl), {"util": U, "nulls": nl}
        kind = "valdup+shuffle" if it % 4 == 3 else "valperm"
        ids = list(range(m))
        if kind == "valperm":
            while ids == list(range(m)) or (rng.random() < 0.7 and ids[0] == 0):
                rng.shuffle(ids)
        else:
            ids = ids * 2
            rng.shuffle(ids)
        case = dict(part="add-path", variant=variant, provenance=pmode, K=K, nUnits=n_units, rows=rows, y_train=y_train, y_val=y_val, dist=D.tolist(),
                    utility=ukind, kind=kind, order=ids, **ureq)

        def scores(order):
            X = np.arange(n_rows, dtype=float).reshape(-1, 1)
            Xv = np.array(order, dtype=float).reshape(-1, 1)        # a validation row carries the identity of its point
            imp = I["imp"].ShapleyImportance(method="neighbor", utility=util, nn_k=K,
                                             nn_distance=lambda A, B, D=D: D[:, [int(v) for v in np.asarray(B)[:, 0]]].copy())
            return list(np.asarray(imp.fit(X, np.array(y_train), provenance=prov).score(Xv, np.array([y_val[j] for j in order])), dtype=float))
        try:
            base = scores(list(range(m)))
            got = scores(ids)
        except Exception as e:  # noqa
            ctx.mismatch("score() raised on the K>1 / join path", case, impl=exc_name(e) + repr(e))
            continue
        ctx.case(case, nontrivial=len(set(round(x, 9) for x in base)) > 1, sample=case, kind="add:" + kind, mode=pmode, add_variant=variant,
                 tie_patterns=min(n_pat, 3), util=ukind)
        ctx.maxi(units=n_units, rows=n_rows)
        scale = 1.0 if ukind == "accuracy" else 9.0
        if len(got) != len(base) or any(not abs(a - b) <= 1e-9 * (1 + scale) for a, b in zip(got, base)):
            ctx.mismatch("scores on the K>1 / join path changed when the validation set was re-ordered (%s)" % kind, case, impl=got, spec=base)
        if ctx.elapsed() - t_start > budget:
            break


def rename_in_unit_ties(ctx, I, n_cases):
    """(i) consistent renaming of the class labels when some unit owns equally near rows with different labels: original run vs renamed run"""
    from sklearn.neighbors import KNeighborsClassifier
    rng = ctx.rng
    for it in range(n_cases):
        ds = dsm.rand_in_unit_tie_dataset(rng)
        classes = ds["classes"]
        k = len(classes)
        mode = ["reverse", "negate", "shuffle", "str-reversed", "float-descending", "swap-two", "str"][it % 7]
        if mode == "reverse":
            tgt = classes[::-1]                                                   # the same names, handed out in the opposite order
        elif mode == "negate":
            tgt = [-cl - 1 for cl in classes]
        elif mode == "shuffle":
            tgt = rng.sample(range(100, 200), k)
        elif mode == "str-reversed":
            tgt = ["c%03d" % (900 - 7 * i) for i in range(k)]
        elif mode == "float-descending":
            tgt = [2.5 - 0.75 * i for i in range(k)]
        elif mode == "swap-two":
            a, b = rng.sample(range(k), 2)
            tgt = list(classes)
            tgt[a], tgt[b] = tgt[b], tgt[a]
        else:
            tgt = ["c%03d" % (997 * (i + 3) % 1000) for i in range(k)]
        ren = dict(zip(classes, tgt))
        order_changed = any((ren[a] < ren[b]) != (a < b) for a in classes for b in classes if a != b)
        if ds["empties"]:
            pform = rng.choice(["explicit", "filtered"])
        else:
            pform = rng.choice(["array", "explicit"])
        case = dict(part="rename-in-unit-ties", nUnits=ds["n_units"], groups=ds["groups"], empty_units=ds["empties"], provenance=pform, y_train=ds["y_train"],
                    y_test=ds["y_test"], dist=ds["dist"].tolist(), distances=ds["kind"], X=ds["X"], Xv=ds["Xv"],
                    in_unit_ties=[dict(unit=u, rows=[r1, r2], point=j) for (u, r1, r2, j) in ds["ties"]], rename={str(a): b for a, b in ren.items()}, mode=mode)

        def scores(ytr, yte):
            util = I["utility"].SklearnModelAccuracy(KNeighborsClassifier(1))
            if pform == "array":
                prov = np.array(ds["groups"])
            else:
                prov = dsm.empty_units_prov(I, rng, ds["groups"], ds["n_units"], pform)
            if ds["kind"] == "features":
                imp = I["imp"].ShapleyImportance(method="neighbor", utility=util, nn_k=1)          # the library's default distance on small-integer features
                X, Xv = np.array(ds["X"], dtype=float), np.array(ds["Xv"], dtype=float)
                return list(np.asarray(imp.fit(X, np.array(ytr), provenance=prov).score(Xv, np.array(yte)), dtype=float))
            return dsm.neighbor_scores(I, ds, util, y_train=ytr, y_test=yte, provenance=prov)
        try:
            base = scores(ds["y_train"], ds["y_test"])
            got = scores([ren[y] for y in ds["y_train"]], [ren[y] for y in ds["y_test"]])
        except Exception as e:  # noqa
            ctx.mismatch("score() raised on a grouped provenance with in-unit ties", case, impl=exc_name(e) + repr(e))
            continue
        ctx.case(case, nontrivial=len(set(round(x, 9) for x in base)) > 1, sample=case, kind="rename-ties:" + mode, mode="groups-" + pform,
                 rename_changes_order=order_changed, tie_distances=ds["kind"], empty_units=bool(ds["empties"]))
        ctx.maxi(units=ds["n_units"], rows=ds["n_rows"])
        if len(base) != ds["n_units"] or len(got) != len(base) or any(not abs(a - b) <= 1e-9 for a, b in zip(got, base)):
            ctx.mismatch("scores changed when the class labels were consistently renamed (a unit owns equally near rows with different labels)", case, impl=got, spec=base)


def run(ctx):
    I = load_impl(ctx)
    from sklearn.neighbors import KNeighborsClassifier
    rng = ctx.rng
    q = ctx.tier == "quick"
    n_cases = 60 if q else 500
    sh = I["shapley"]
    for it in range(n_cases):
        ds = dsm.rand_dataset(rng)
        util = I["utility"].SklearnModelAccuracy(KNeighborsClassifier(1))
        prov, preq, simple = dsm.prov_arg(I, ds)
        kind = ["rows", "valperm", "valdup", "monotone", "rename", "batch", "symmetric"][it % 7]
        if ds["m"] >= 2 and rng.random() < 0.35:
            # two validation points with IDENTICAL features (hence identical distance columns) but, where possible, DIFFERENT labels: each counts on its own
            j1, j2 = rng.sample(range(ds["m"]), 2)
            ds["dist"][:, j2] = ds["dist"][:, j1]
            others = [cl for cl in ds["classes"] if cl != ds["y_test"][j1]]
            if others:
                ds["y_test"][j2] = rng.choice(others)
            ds["val_twins"] = [(j1, j2)]
        case = dict(kind=kind, groups=ds["groups"], mode=ds["mode"], y_train=ds["y_train"], y_test=ds["y_test"], dist=ds["dist"].tolist(),
                    validation_points_with_identical_features=ds.get("val_twins"))
        try:
            base = dsm.neighbor_scores(I, ds, util)
        except Exception as e:  # noqa
            ctx.mismatch("score() raised", case, impl=exc_name(e) + repr(e))
            continue
        ans = ctx.model(dsm.model_req(ds, preq, simple, {"utility": "accuracy"}))
        ctx.case(case, nontrivial=len(set(round(x, 9) for x in base)) > 1, sample=case, kind=kind, mode=ds["mode"])
        ctx.maxi(units=ds["n_units"], rows=ds["n_rows"])
        if ans is not None and ("err" in ans or not ctx.vec_close(base, [Fraction(x) for x in ans["ok"]], 1)):
            ctx.mismatch("base run differs from the model Ds.Neighbor.score", case, impl=base, model=ans)
            continue
        n_rows, m = ds["dist"].shape
        want = base
        try:
            if kind == "rows":
                perm = list(range(n_rows))
                rng.shuffle(perm)
                D2 = ds["dist"][perm, :]
                y2 = [ds["y_train"][i] for i in perm]
                if ds["mode"] == "default":
                    got = dsm.neighbor_scores(I, ds, util, dist=D2, y_train=y2)
                    want = [base[i] for i in perm]          # unit i of the new run is old unit perm[i]
                else:
                    g2 = [ds["groups"][i] for i in perm]
                    got = dsm.neighbor_scores(I, ds, util, dist=D2, y_train=y2, provenance=np.array(g2))
                case["perm"] = perm
            elif kind == "valperm":
                perm = list(range(m))
                rng.shuffle(perm)
                got = dsm.neighbor_scores(I, ds, util, dist=ds["dist"][:, perm], y_test=[ds["y_test"][j] for j in perm])
                case["perm"] = perm
            elif kind == "valdup":
                rep = rng.randint(2, 3)
                got = dsm.neighbor_scores(I, ds, util, dist=np.tile(ds["dist"], (1, rep)), y_test=ds["y_test"] * rep)
                case["rep"] = rep
            elif kind == "monotone":
                f = rng.choice(["affine", "exp", "cube", "sqrt", "tiny", "huge", "log", "shift-below-zero", "neg-reciprocal"])
                D = ds["dist"]
                # (the last three are strictly increasing too, but their range reaches below zero: a 'distance' may be any real score)
                D2 = {"affine": 3.5 * D + 11, "exp": np.exp(D / 8.0), "cube": D ** 3, "sqrt": np.sqrt(D),
                      "tiny": D * 1e-11, "huge": D * 1e11, "log": np.log(D / float(np.max(D)) + 1e-9), "shift-below-zero": D - float(np.max(D)) - 1.0,
                      "neg-reciprocal": -1.0 / (D + 1.0)}[f]      # every feature rescaled by a very small / very large constant
                got = dsm.neighbor_scores(I, ds, util, dist=D2)
                case["transform"] = f
            elif kind == "rename":
                classes = ds["classes"]
                mode = rng.choice(["shuffle", "str", "float", "negate", "gapped0"])
                if mode == "shuffle":
                    tgt = rng.sample(range(100, 200), len(classes))
                elif mode == "str":
                    tgt = ["c%03d" % (997 * (k + 3) % 1000) for k in range(len(classes))]
                elif mode == "float":
                    tgt = [float(k) * 0.5 - 1.25 for k in rng.sample(range(20), len(classes))]
                elif mode == "gapped0":
                    tgt = [0, 3, 4, 9, 17][:len(classes)]
                else:
                    tgt = [-cl - 1 for cl in classes]
                ren = dict(zip(classes, tgt))
                got = dsm.neighbor_scores(I, ds, util, y_train=[ren[y] for y in ds["y_train"]], y_test=[ren[y] for y in ds["y_test"]])
                case["rename"] = {str(k): v for k, v in ren.items()}
            elif kind == "batch":
                B = rng.choice([1, 2, 7, 64])
                old = sh.BATCH_DISTANCE_MATRIX_SIZE
                sh.BATCH_DISTANCE_MATRIX_SIZE = B
                try:
                    # the distance callable must honour the batch it is given
                    D = ds["dist"]
                    Xv = np.arange(m, dtype=float).reshape(-1, 1)
                    imp = I["imp"].ShapleyImportance(method="neighbor", utility=util, nn_k=1,
                                                     nn_distance=lambda A, Bm, D=D: D[:, [int(v) for v in Bm[:, 0]]].copy())
                    X = np.arange(n_rows, dtype=float).reshape(-1, 1)
                    got = list(np.asarray(imp.fit(X, np.array(ds["y_train"]), provenance=prov).score(Xv, np.array(ds["y_test"])), dtype=float))
                finally:
                    sh.BATCH_DISTANCE_MATRIX_SIZE = old
                case["B"] = B
                mb = ctx.model({"op": "batchsize", "B": B, "nTrain": n_rows, "nTest": m})
                if mb is not None and mb["ok"] != m:
                    ctx.mismatch("model batch size is not nTest", case, model=mb, failing_input=False, broken="theorem C07_batch_size")
            else:  # symmetric: append a unit that is an exact twin of unit 0 (same labels, distances epsilon-close but ordered right after)
                if ds["mode"] != "default":
                    got = base
                else:
                    D = ds["dist"]
                    twin = D[0:1, :] + 0.25
                    # no other distance lies between d0 and d0+0.25 because distances are integers
                    D2 = np.vstack([D, twin])
                    y2 = ds["y_train"] + [ds["y_train"][0]]
                    got2 = dsm.neighbor_scores(I, dict(ds, mode="default"), util, dist=D2, y_train=y2, provenance=None)
                    if abs(got2[0] - got2[-1]) > 1e-9:
                        ctx.mismatch("interchangeable units received different scores", dict(case, dist2=D2.tolist(), y2=y2), impl=[got2[0], got2[-1]])
                    got = base
        except Exception as e:  # noqa
            ctx.mismatch("transformed run raised", case, impl=exc_name(e) + repr(e))
            continue
        if len(got) != len(want) or any(abs(a - b) > 1e-9 for a, b in zip(got, want)):
            ctx.mismatch("scores changed under a presentation-only transformation (%s)" % kind, case, impl=got, spec=want, model=(ans["ok"] if ans else None))
        if ctx.elapsed() > (400 if q else 1800):
            break
    add_path_invariance(ctx, I, 6 if q else 60, 24 if q else 600)
    rename_in_unit_ties(ctx, I, 28 if q else 400)
    return ctx.finish("proof", "C07_val_perm, C07_val_dup, C07_monotone, C07_units_perm, C07_symmetric*, C07_batch_size: invariances of the modelled kernel/neighbor "
                      "pipeline for all sizes; this run performed the corresponding metamorphic runs on the implementation, each base run also compared with the model.", RULE)
