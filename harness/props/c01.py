"""C01 — 1-NN neighbor scores are the exact Shapley values of the 1-NN utility game."""
from fractions import Fraction
import numpy as np
import gen
import spec
from props.common import load_impl, exc_name
from props import kern
from props import datasets as dsm

RULE = ("(a) kernel level: rebuilt Cython kernel and Python reference kernel on random (labels, distances incl. tie groups, per-class utilities "
        "0/1 / integer / 1e6-scale, null scores), 1-40 units quick / 1-400 thorough, 1-6 validation points, 1-4 classes, with the sort orders the "
        "implementation's np.argsort returned recorded and re-validated by the model as weakly sorting permutations; (b) get_unit_labels_and_distances "
        "on random map/fork groupings vs Ds.Kernel.unitReduce; (c) end-to-end ShapleyImportance('neighbor').fit().score() for default, group-id "
        "(arbitrary integers), forked, in-place edited and EXPLICIT multi-candidate provenances (Provenance(units=n, candidates=3..4, data=[[unit, candidate], ...]) where a "
        "unit owns rows under several candidate values or none; default world and explicit worlds passed to score() as key list / index array: a coalition's rows are those "
        "whose literal holds under 'unit present => its world candidate, absent => candidate 0'), accuracy and random additive utilities, vs Ds.Neighbor.score (the model's "
        "neighbor path takes no world argument: explicit worlds are compared with the by-definition Fraction Shapley value only); (d) n<=8: Shapley value by "
        "definition (Fractions) of the mean 1-NN game; (e) exhaustive small scope: all set partitions of <= 3 (quick) / 4 (thorough) rows into units x all distance orders x all binary label vectors x both validation labels, end to end. Non-trivial = >=2 units, >=2 distinct labels among units and the utility not constant; "
        "distinct = distinct canonical inputs.")


def additive_utility(I, U, nulls, keep=False):
    """element-wise table utility.  keep: the utility hands out THE SAME float arrays on every call (a utility that precomputes / caches its tables), so a caller
    that writes into what it was given corrupts the utility for the next evaluation"""
    Utility = I["utility"].Utility
    kept_U, kept_n = np.array(U, dtype=float), np.array(nulls, dtype=float)

    class TableElementwise(Utility):
        def __call__(self, *a, **k):
            raise NotImplementedError

        def null_score(self, *a, **k):
            raise NotImplementedError

        def mean_score(self, *a, **k):
            raise NotImplementedError

        def elementwise_score(self, X_train, y_train, X_test, y_test, metadata_train=None, metadata_test=None):
            return kept_U if keep else np.array(U, dtype=float)

        def elementwise_null_score(self, X_train, y_train, X_test, y_test, metadata_train=None, metadata_test=None):
            return kept_n if keep else np.array(nulls, dtype=float)
    return TableElementwise()


def part_a(ctx, I, budget):
    rng = ctx.rng
    big_n = 40 if ctx.tier == "quick" else 400
    cases = 60 if ctx.tier == "quick" else 400
    bit_equal = 0
    for it in range(cases):
        n = rng.randint(1, 8) if it % 3 == 0 else rng.randint(1, big_n)
        m = rng.randint(1, 6)
        c = rng.randint(1, 4)
        ties = rng.random() < 0.35
        uk = rng.choice(["acc", "int", "int"])
        labels, dist, util, nulls = kern.kernel_case(rng, n, m, c, ties, uk, big=(rng.random() < 0.2))
        case = dict(part="a", labels=labels.tolist(), dist=dist.tolist(), util=util.tolist(), nulls=nulls.tolist())
        results = {}
        orders = {}
        for name, fn in (("cy", I["kernel_cy"]), ("py", I["kernel_py"])):
            store = []
            try:
                with kern.record_argsort(store):
                    results[name] = np.asarray(fn(labels.copy(), dist.copy(), util.copy(), nulls.copy())).tolist()
                orders[name] = kern.orders_from(store, n, m)
            except Exception as e:  # noqa
                results[name] = exc_name(e) + ": " + repr(e)
                orders[name] = None
        scale = float(np.max(np.abs(util))) if util.size else 1.0
        scale = max(scale, float(np.max(np.abs(nulls))))
        nontriv = n >= 2 and len(set(labels[:, 0].tolist())) >= 2 and len(set(util[:, 0].tolist())) >= 2
        ctx.case(case if n <= 12 else ("a", it, ctx.seed), nontrivial=nontriv, sample=(case if n <= 6 else None), part="a", ties=ties, util=uk)
        ctx.maxi(units=n, val_points=m, classes=c)
        for name in ("cy", "py"):
            if isinstance(results[name], str):
                ctx.mismatch("kernel %s raised" % name, case, impl=results[name])
                continue
            ords = orders[name]
            if ords is None:
                # the kernel did not call np.argsort: fall back to the consistent orders of the distances
                ords_list = None
                if m == 1:
                    ords_list = kern.consistent_orders(dist[:, 0].tolist())
                if not ties:
                    ords_list = [[np.argsort(dist[:, j], kind="stable").tolist() for j in range(m)]]
                elif ords_list is not None:
                    ords_list = [[o] for o in ords_list]
                if ords_list is None:
                    ctx.dist["order_unrecoverable"] += 1
                    continue
            else:
                ords_list = [ords]
            ok_any = False
            last = None
            for ords in ords_list:
                ans = ctx.model(kern.model_kernel_req(labels, ords, util, nulls, dist))
                if ans is None:
                    # no model: use the by-definition Shapley value for small n only
                    if n <= 8:
                        sp = kern.shapley_kernel_spec(labels, ords, util, nulls)
                        if ctx.vec_close(results[name], sp, scale):
                            ok_any = True
                        last = ("spec", [str(x) for x in sp])
                    else:
                        ok_any = True
                    continue
                if "err" in ans:
                    last = ("model rejected the order (not a weakly sorting permutation)", ords)
                    continue
                q = [Fraction(x) for x in ans["ok"]]
                last = ("model", ans["ok"])
                if ctx.vec_close(results[name], q, scale):
                    ok_any = True
                    if n <= 8:
                        sp = kern.shapley_kernel_spec(labels, ords, util, nulls)
                        if sp != q:
                            ctx.mismatch("model kernel != Shapley by definition", case, impl=results[name], model=ans["ok"], spec=[str(x) for x in sp],
                                         failing_input=False, broken="theorem C01_importances")
                    if name == "cy":
                        f = ctx.model(kern.model_kernel_req(labels, ords, util, nulls, op="kernelF"))
                        if f and "ok" in f and f["ok"] == [kern.bits(x) for x in results[name]]:
                            bit_equal += 1
                    break
            if not ok_any:
                sp = None
                if n <= 8 and ords_list:
                    sp = [str(x) for x in kern.shapley_kernel_spec(labels, ords_list[0], util, nulls)]
                ctx.mismatch("kernel %s is not the Shapley value of the 1-NN game under the order it sorted by" % name, case,
                             impl=results[name], model=last, spec=sp)
        if ctx.elapsed() > budget:
            break
    ctx.extra["kernel_bit_identical_to_Float_model"] = bit_equal


def part_b(ctx, I, budget):
    rng = ctx.rng
    P = I["provenance"]
    cases = 40 if ctx.tier == "quick" else 300
    for it in range(cases):
        n_units = rng.randint(1, 6)
        n_rows = rng.randint(n_units, n_units + 6)
        m = rng.randint(1, 4)
        c = rng.randint(1, 4)
        groups = gen.rand_groups(rng, n_rows, n_units)
        labels = np.array([rng.randrange(c) for _ in range(n_rows)], dtype=int)
        ties = rng.random() < 0.4
        dist = np.array(gen.tied_distances(rng, n_rows, m) if ties else gen.distinct_distances(rng, n_rows, m), dtype=float)
        prov = P.Provenance(data=np.array(groups))
        case = dict(part="b", groups=groups, labels=labels.tolist(), dist=dist.tolist())
        try:
            ul, ud = I["shapley"].get_unit_labels_and_distances(labels, dist, prov, np.arange(prov.num_units), np.ones(prov.num_units, dtype=int))
            res = [np.asarray(ul).tolist(), [[kern.frs(x) for x in row] for row in np.asarray(ud).tolist()]]
        except Exception as e:  # noqa
            res = exc_name(e)
        ans = ctx.model({"op": "unitReduce", "prov": {"nUnits": len(set(groups)), "groups": groups}, "labels": labels.tolist(),
                         "dist": [[kern.frs(x) for x in row] for row in dist.tolist()], "nTest": m})
        ctx.case(case, nontrivial=(n_rows > n_units >= 2), sample=case, part="b", ties=ties)
        # by definition: per unit and point the first row of minimal distance among the unit's rows
        us = sorted(set(groups))
        want_l, want_d = [], []
        for u in us:
            rows = [r for r in range(n_rows) if groups[r] == u]
            wl, wd = [], []
            for j in range(m):
                best = min(rows, key=lambda r: (dist[r, j], r))
                wl.append(int(labels[best]))
                wd.append(kern.frs(dist[best, j]))
            want_l.append(wl)
            want_d.append(wd)
        if res != [want_l, want_d]:
            # labels of tied rows may legitimately differ only if the tie is between rows of different labels: still a first-minimum rule in numpy
            ctx.mismatch("per-unit nearest-row reduction differs from the definition (first row of minimal distance)", case, impl=res,
                         model=(ans.get("ok") if ans else None), spec=[want_l, want_d])
        elif ans is not None and ans.get("ok") != res:
            ctx.mismatch("model unitReduce disagrees with implementation", case, impl=res, model=ans, spec=[want_l, want_d], failing_input=False,
                         broken="corr:Ds.Kernel.unitReduce")
        if ctx.elapsed() > budget:
            break


def part_c(ctx, I, budget):
    rng = ctx.rng
    P = I["provenance"]
    from sklearn.neighbors import KNeighborsClassifier
    cases = 50 if ctx.tier == "quick" else 400
    for it in range(cases):
        n_units = rng.randint(1, 7)
        mode = rng.choice(["default", "groups", "fork", "edited", "multicand", "derived"])
        if mode == "edited" and n_units < 2:
            mode = "default"
        mc = None
        c = rng.randint(1, 4)
        m = rng.randint(1, 5)
        ties = rng.random() < 0.25
        if ties:
            m = 1
        if mode == "default":
            n_rows = n_units
            groups = list(range(n_units))
        elif mode == "edited":
            # the default one-row-per-unit provenance OBJECT, then some rows re-assigned in place to another unit's variable
            n_rows = n_units
            groups = list(range(n_units))
            for _ in range(rng.randint(1, 2)):
                groups[rng.randrange(n_units)] = rng.randrange(n_units)
            if groups == list(range(n_units)):
                groups[0] = 1
        elif mode == "derived":
            # a provenance DERIVED from the default one-row-per-unit object by selecting rows: same-length permutations, reversed slices, bootstrap
            # resamples (repeats: some units own several rows, some none), shorter and longer selections
            kind_ = rng.choice(["perm", "reverse", "resample", "resample", "subset", "longer", "fork_resample", "fork_resample"])
            if kind_ == "fork_resample" and n_units < 2:
                kind_ = "resample"
            if kind_ == "fork_resample":
                # bootstrap multiplicities applied with fork(): as many rows as before, but some unit owns two or more of them and some unit owns none
                groups = sorted(rng.randrange(n_units) for _ in range(n_units))
                if groups == list(range(n_units)):
                    groups[0] = groups[1]
            elif kind_ == "perm":
                groups = rng.sample(range(n_units), n_units)
            elif kind_ == "reverse":
                groups = list(range(n_units - 1, -1, -1))
            elif kind_ == "resample":
                groups = [rng.randrange(n_units) for _ in range(n_units)]
            elif kind_ == "subset":
                groups = sorted(rng.sample(range(n_units), rng.randint(1, n_units)))
            else:
                groups = [rng.randrange(n_units) for _ in range(n_units + rng.randint(1, 3))]
            n_rows = len(groups)
        elif mode == "multicand":
            # every row carries one literal (unit == candidate) with one of >= 2 non-null candidates; only the rows whose candidate is the world's
            # candidate of their unit belong to the training set when that unit is present
            c = max(c, 2)
            mc = dsm.rand_multicand(rng, n_units=n_units)
            n_rows = mc["n_rows"]
            groups = [u for u, _ in mc["lits"]]
        else:
            n_rows = rng.randint(n_units, n_units + 5)
            groups = gen.rand_groups(rng, n_rows, n_units)
        present = mc["present"] if mc is not None else [True] * n_rows      # row r is in the training set of every coalition that contains groups[r]
        pool = rng.sample(range(-20, 60), c)
        if it % 4 == 1:
            pool = [0] + rng.sample(range(2, 15), c - 1)        # integer labels starting at 0 with gaps: not yet class indices
        y_train = [rng.choice(pool) for _ in range(n_rows)] if mc is None else dsm.multicand_labels(rng, mc, pool)
        classes = sorted(set(y_train))
        y_test = [rng.choice(classes) for _ in range(m)]
        dist = np.array(gen.tied_distances(rng, n_rows, m) if ties else gen.distinct_distances(rng, n_rows, m), dtype=float)
        # (edited and multi-candidate modes may leave units without rows: they sit at infinity themselves)
        dkind = kern.extend_distances(rng, dist, ties) if mode not in ("edited", "multicand", "derived") else "plain"
        if mode == "derived" and rng.random() < 0.5:
            # raw, unnormalised magnitudes (nanosecond timestamps, squared distances ...): every value stays exact, but `largest + 1` is lost to rounding - a unit
            # WITHOUT rows must still rank behind every real row
            dist = dist * float(2 ** rng.choice([54, 56, 60]))
            dkind = "huge (x 2^54..2^60)"
        ukind = rng.choice(["accuracy", "custom"])
        X = np.arange(n_rows, dtype=float).reshape(-1, 1)
        Xv = np.arange(m, dtype=float).reshape(-1, 1)
        twin = None
        if m >= 2 and rng.random() < 0.3:
            # two validation points with IDENTICAL features (hence identical distances) but, where possible, DIFFERENT labels: each counts on its own
            j1, j2 = rng.sample(range(m), 2)
            dist[:, j2] = dist[:, j1]
            Xv[j2, 0] = Xv[j1, 0]
            others = [cl for cl in classes if cl != y_test[j1]]
            if others:
                y_test[j2] = rng.choice(others)
            twin = [j1, j2]
        if ukind == "accuracy":
            util = I["utility"].SklearnModelAccuracy(KNeighborsClassifier(n_neighbors=1))
            ureq = {"utility": "accuracy"}
        else:
            U = [[rng.randrange(-8, 9) for _ in range(m)] for _ in classes]
            nl = [rng.randrange(-8, 9) for _ in range(m)]
            util = additive_utility(I, U, nl)
            ureq = {"utility": "custom", "util": U, "nulls": nl}
        ids = None
        edits = None
        score_kw = {}
        if mode == "multicand":
            provenance, preq = dsm.multicand_prov(I, mc)
            simple = False
            score_kw = dsm.world_arg(rng, mc)
        elif mode == "default":
            provenance = None
            preq = {"nUnits": n_units, "default": True}
            edits = []
            simple = None
        elif mode == "groups":
            idpool = sorted(rng.sample(range(-9, 50), n_units))
            idpool = [x if x != -1 else 77 for x in idpool]
            idpool = sorted(set(idpool))
            while len(idpool) < n_units:
                idpool.append(max(idpool) + 3)
            ids = [idpool[g] for g in groups]
            provenance = np.array(ids)
            preq = {"nUnits": n_units, "groups": ids}
            simple = False
        elif mode == "derived":
            base = P.Provenance(units=n_units)
            how = rng.choice(["list", "array", "slice"]) if groups == list(range(n_units - 1, -1, -1)) else rng.choice(["list", "array"])
            if groups == sorted(groups) and (kind_ == "fork_resample" or rng.random() < 0.5):
                how = "fork"
            if how == "fork":
                sizes_ = [groups.count(u) for u in range(n_units)]
                provenance = base.fork(np.array(sizes_, dtype=int) if rng.random() < 0.5 else sizes_)
            else:
                provenance = base[::-1] if how == "slice" else (base[list(groups)] if how == "list" else base[np.array(groups, dtype=int)])
            preq = {"nUnits": n_units, "exprs": [{"eq": [g_, 1]} for g_ in groups]}        # all n_units units exist, whether or not a selected row mentions them
            simple = False
        elif mode == "edited":
            from props.common import UView
            raw = P.Units(units=n_units, candidates=2)
            provenance = P.Provenance(units=raw)
            uv = UView(raw, list(range(n_units)))
            for r_, g_ in enumerate(groups):
                if g_ != r_:
                    provenance[r_] = gen.build_expr(P, uv, {"eq": [g_, 1]})
            # the model starts from its own default OBJECT and replays the same in-place edits; whether the fast path is taken is then
            # decided by the model's flag (Ds.Prov.Obj), not told to it
            preq = {"nUnits": n_units, "default": True}
            edits = [{"op": "set", "i": r_, "e": {"eq": [g_, 1]}} for r_, g_ in enumerate(groups) if g_ != r_]
            simple = None
        else:
            sizes = [groups.count(u) for u in range(n_units)]
            provenance = P.Provenance(units=n_units).fork(sizes)
            groups = [u for u in range(n_units) for _ in range(sizes[u])]
            preq = {"nUnits": n_units, "groups": groups}
            simple = False
        case = dict(part="c", mode=mode, groups=(ids or groups), y_train=y_train, y_test=y_test, dist=dist.tolist(), validation_points_with_identical_features=twin, **ureq)
        if mc is not None:
            case.update(nUnits=n_units, nCands=mc["n_cands"], lits=mc["lits"], world=mc["world"], world_as=(type(score_kw["world"]).__name__ if score_kw else "default"))
        store = []
        sh = I["shapley"]
        old_B = sh.BATCH_DISTANCE_MATRIX_SIZE
        small_B = (it % 4 == 3)
        if small_B:
            sh.BATCH_DISTANCE_MATRIX_SIZE = rng.choice([1, 2, 5])      # the internal validation batch size must not matter
        try:
            # the distance callable honours whatever validation batch it is handed (validation rows carry their index)
            imp = I["imp"].ShapleyImportance(method="neighbor", utility=util, nn_k=1,
                                             nn_distance=lambda A, B, D=dist: D[:, [int(v) for v in np.asarray(B)[:, 0]]].copy())
            with kern.record_argsort(store):
                res = list(np.asarray(imp.fit(X, np.array(y_train), provenance=provenance).score(Xv, np.array(y_test), **score_kw), dtype=float))
        except Exception as e:  # noqa
            res = exc_name(e) + ": " + repr(e)
        finally:
            sh.BATCH_DISTANCE_MATRIX_SIZE = old_B
        ords = kern.orders_from(store, n_units, m)
        req = {"op": "neighbor", "prov": preq, **({"simple": simple} if edits is None else {"edits": edits}), "yTrain": y_train, "yTest": y_test,
               "dist": [[kern.frs(x) for x in row] for row in dist.tolist()], "K": 1, **ureq}
        if ords is not None and ties:
            req["orders"] = ords
        # the model's neighbor path switches each unit on with candidate 1 (the default world) and takes no world argument
        ans = ctx.model(req) if not score_kw else None
        ctx.case(case, nontrivial=(n_units >= 2 and len(classes) >= 2), sample=case, part="c", mode=mode, ties=ties, util=ukind, small_batch_constant=small_B, distances=dkind,
                 **({"world": ("explicit-" + type(score_kw["world"]).__name__ if score_kw else "default")} if mc is not None else {}))
        ctx.maxi(units=n_units, rows=n_rows)
        # by definition (distinct distances, or the recorded order when tied)
        spec_val = None
        if n_units <= 7 and (not ties or ords is not None):
            enc = {cl: k for k, cl in enumerate(classes)}
            if ukind == "accuracy":
                Um = [[Fraction(1 if cl == yt else 0) for yt in y_test] for cl in classes]
                accs = [Fraction(sum(1 for yt in y_test if yt == cl), m) for cl in classes]
                kmin = accs.index(min(accs))
                nlv = [Fraction(1 if yt == classes[kmin] else 0) for yt in y_test]
            else:
                Um = [[Fraction(x) for x in row] for row in U]
                nlv = [Fraction(x) for x in nl]
            def by_definition(present):
                games = []
                for j in range(m):
                    def v(S, j=j):
                        rows = [r for r in range(n_rows) if groups[r] in S and present[r]]
                        if not rows:
                            return nlv[j]
                        if ties:
                            # nearest unit under the recorded unit order, then its first nearest row
                            u = min((x for x in S if any(groups[r] == x for r in rows)), key=lambda x: ords[j].index(x))
                            rows = [r for r in rows if groups[r] == u]
                        best = min(rows, key=lambda r: (dist[r, j], r))
                        return Um[enc[y_train[best]]][j]
                    games.append(v)
                return spec.shapley(n_units, lambda S: sum(g(S) for g in games) / m)
            spec_val = by_definition(present)
            if mc is not None and not ties and not isinstance(res, str):
                # the SAME fitted object and provenance object scored once more under ANOTHER world (other candidate per unit): nothing of the first call may stick
                w2 = [rng.randint(1, mc["n_cands"] - 1) for _ in range(n_units)]
                if w2 != list(mc["wvals"]):
                    try:
                        res2 = list(np.asarray(imp.score(Xv, np.array(y_test), world=(list(w2) if rng.random() < 0.5 else np.array(w2, dtype=int))), dtype=float))
                        want2 = by_definition([cc == w2[uu] for uu, cc in mc["lits"]])
                        ctx.dist["second_score_under_another_world"] += 1
                        if not ctx.vec_close(res2, want2, 9):
                            ctx.mismatch("second score() of the same fitted object under another world is not the Shapley value of the 1-NN game of THAT world (state kept from the "
                                         "first call)", dict(case, second_world=w2), impl=res2, spec=[str(x) for x in want2])
                    except Exception as e:  # noqa
                        ctx.mismatch("second score() under another world raised", dict(case, second_world=w2), impl=exc_name(e) + ": " + repr(e))
        if isinstance(res, str):
            ctx.mismatch("score() raised", case, impl=res, model=ans, spec=[str(x) for x in spec_val] if spec_val else None)
            continue
        scale = 9.0
        if spec_val is not None and not ctx.vec_close(res, spec_val, scale):
            ctx.mismatch("neighbor scores are not the Shapley value of the 1-NN game", case, impl=res, model=ans, spec=[str(x) for x in spec_val])
        elif ans is not None:
            if "err" in ans:
                if ties and ords is not None:
                    ctx.mismatch("recorded sort order is not a weakly sorting permutation of the unit distances", case, impl=res, model=ans)
                else:
                    ctx.mismatch("model raised, implementation did not", case, impl=res, model=ans, failing_input=False, broken="corr:Ds.Neighbor.score")
            elif not ctx.vec_close(res, [Fraction(x) for x in ans["ok"]], scale):
                ctx.mismatch("model Ds.Neighbor.score disagrees with implementation", case, impl=res, model=ans["ok"],
                             spec=[str(x) for x in spec_val] if spec_val else None, failing_input=(spec_val is None),
                             broken=(None if spec_val is None else "corr:Ds.Neighbor.score"))
        if ctx.elapsed() > budget:
            break


def part_d(ctx, I, budget):
    """exhaustive small scope (thorough; a slice of it in quick): ALL distance orders x ALL label vectors x ALL groupings of <= 3/4 rows into units,
    2 classes, one validation point of each label, accuracy utility, end to end against Shapley by definition"""
    from itertools import permutations, product
    from sklearn.neighbors import KNeighborsClassifier
    max_rows = 3 if ctx.tier == "quick" else 4
    util = I["utility"].SklearnModelAccuracy(KNeighborsClassifier(n_neighbors=1))
    count = 0
    for n_rows in range(1, max_rows + 1):
        # groupings = surjections rows -> units 0..k-1 in restricted-growth form (set partitions), then all labelings of units are covered by unit ids order
        def partitions(n):
            def rec(i, cur, mx):
                if i == n:
                    yield list(cur)
                    return
                for b in range(mx + 2):
                    cur.append(b)
                    yield from rec(i + 1, cur, max(mx, b))
                    cur.pop()
            yield from rec(0, [], -1)
        for groups in partitions(n_rows):
            n_units = max(groups) + 1
            for order in permutations(range(n_rows)):
                dist = np.zeros((n_rows, 1))
                for rank, r in enumerate(order):
                    dist[r, 0] = rank + 1.0
                for labels in product(range(2), repeat=n_rows):
                    if len(set(labels)) < 2 and n_rows > 1 and ctx.tier == "quick" and (count % 3):
                        count += 1
                        continue
                    for yv in (0, 1):
                        if yv not in labels:
                            continue
                        count += 1
                        X = np.arange(n_rows, dtype=float).reshape(-1, 1)
                        try:
                            imp = I["imp"].ShapleyImportance(method="neighbor", utility=util, nn_distance=lambda A, B, D=dist: D.copy())
                            res = list(np.asarray(imp.fit(X, np.array(labels), provenance=np.array(groups)).score(np.zeros((1, 1)), np.array([yv])), dtype=float))
                        except Exception as e:  # noqa
                            res = exc_name(e) + ": " + repr(e)
                        classes = sorted(set(labels))
                        accs = [Fraction(1 if yv == cl else 0) for cl in classes]
                        null = min(accs)

                        def v(S):
                            rows = [r for r in range(n_rows) if groups[r] in S]
                            if not rows:
                                return null
                            best = min(rows, key=lambda r: dist[r, 0])
                            return Fraction(1 if labels[best] == yv else 0)
                        want = spec.shapley(n_units, v)
                        case = dict(part="d", groups=groups, order=list(order), labels=list(labels), y_val=yv)
                        ctx.case(("d", tuple(groups), order, labels, yv), nontrivial=(n_units >= 2 and len(set(want)) > 1), sample=case, part="d-exhaustive")
                        if isinstance(res, str) or not ctx.vec_close(res, want, 1):
                            ctx.mismatch("neighbor scores are not the Shapley value of the 1-NN game (exhaustive small scope)", case, impl=res, spec=[str(x) for x in want])
                            return
            if ctx.elapsed() > budget:
                ctx.notes.append("exhaustive part cut by the time budget at %d rows" % n_rows)
                return
    ctx.extra["exhaustive_small_scope"] = dict(max_rows=max_rows, cases=count, complete=True)


def run(ctx):
    I = load_impl(ctx)
    q = ctx.tier == "quick"
    part_d(ctx, I, 240 if q else 900)
    part_a(ctx, I, 360 if q else 1200)
    part_b(ctx, I, 420 if q else 1500)
    part_c(ctx, I, 540 if q else 2400)
    return ctx.finish("proof", "C01_point / C01_importances / C01_consistent: for every size, order (incl. any tie-break the sort returned), labelling and utility the "
                      "modelled kernel returns the Shapley value of the (mean) 1-NN game; this run tied the model to the rebuilt Cython kernel, the reference kernel, "
                      "the per-unit reduction and the end-to-end score() call.", RULE)
