"""helpers shared by the property modules"""
import os
import numpy as np
import impl as implmod

EXC_MAP = [(IndexError, "IndexError"), (KeyError, "KeyError"), (ValueError, "ValueError"), (TypeError, "TypeError"),
           (AssertionError, "AssertionError")]


def exc_name(e):
    for cls, name in EXC_MAP:
        if isinstance(e, cls):
            return name
    return "Other"


def load_impl(ctx):
    return implmod.load(ctx.work)


def fresh_equal(v):
    """an object equal to v but (for floats, integers beyond CPython's small-integer cache, strings and tuples) not the same object"""
    if isinstance(v, bool):
        return v
    if isinstance(v, float):
        return float(repr(v))
    if isinstance(v, int):
        return int(str(v))
    if isinstance(v, str):
        return "".join(list(v)) if len(v) > 1 else v
    if isinstance(v, tuple):
        return tuple(fresh_equal(x) for x in v)
    return v


class UView:
    """position -> Unit of a real Units object whose keys need not be the positions"""
    def __init__(self, units, keys, ckeys=None):
        self.units = units
        self.keys = list(keys)
        self.ckeys = list(ckeys) if ckeys is not None else None

    def __getitem__(self, pos):
        return self.units[self.keys[pos]]

    def ck(self, c):
        """candidate key of candidate index c - a FRESH object equal to the registered key (a float, a large integer, a string, a tuple built anew on
        every call), as a caller who computes candidate values would hand over: equal, but not identical"""
        return c if self.ckeys is None else fresh_equal(self.ckeys[c])


def rand_keys(rng, n_units):
    """unit keys for positions 0..n-1: positional, shuffled, gapped integers, strings, tuples"""
    k = rng.random()
    if rng is None or k < 0.35:
        return list(range(n_units)), "positional"
    if k < 0.55:
        ks = list(range(n_units))
        rng.shuffle(ks)
        return ks, "shuffled"
    if k < 0.75:
        return rng.sample(range(-5, 60), n_units), "gapped"
    if k < 0.9:
        return ["u%02d" % x for x in rng.sample(range(100), n_units)], "strings"
    return [("t", x) for x in rng.sample(range(50), n_units)], "tuples"


def rand_ckeys(rng, n_cands):
    """candidate keys per candidate index: positional, reversed (the falsy key 0 is then NOT the first candidate), booleans, strings"""
    k = rng.random()
    if k < 0.4:
        return list(range(n_cands)), "positional"
    if k < 0.65:
        return list(range(n_cands - 1, -1, -1)), "reversed"
    if k < 0.8 and n_cands == 2:
        return [True, False], "bool-true-first"
    return ["z", "a", ""][:n_cands] if n_cands <= 3 else ["c%d" % i for i in range(n_cands)], "strings"


def make_prov(I, exprs_json, n_units, n_cands=2, keys=None, lazy=False, ckeys=None, via_default=False):
    """real Provenance from JSON expression list (library operators are NOT used here: flat leaves only).
    keys: unit key per position (default = the positions); lazy: units created on first mention instead of up front."""
    import gen
    P = I["provenance"]
    cands = n_cands if ckeys is None else list(ckeys)
    if keys is None:
        keys = list(range(n_units))
        raw = P.Units(units=n_units, candidates=cands)
    elif lazy:
        raw = P.Units(candidates=cands)
        for k in keys:
            raw[k]
    else:
        raw = P.Units(units=list(keys), candidates=cands)
    units = UView(raw, keys, ckeys)
    es = [gen.build_expr(P, units, e) for e in exprs_json]
    if via_default:
        # the default one-row-per-unit container OBJECT, edited in place (item assignment, insert, delete) until it holds the same formulas
        prov = P.Provenance(units=raw)
        for i in range(min(len(es), len(prov))):
            # with two candidates default row i is (unit i == candidate 1) and may be kept; with more candidates the default object holds one row per
            # (unit, non-null candidate) in another order, so every row is assigned
            if n_cands != 2 or exprs_json[i] != {"eq": [i, 1]}:
                prov[i] = es[i]
        if len(es) < len(prov):
            del prov[len(es):]
        for i in range(len(prov), len(es)):
            prov.insert(i, es[i])
        return prov, units, es
    return P.Provenance(es), units, es


def open_units(I, keys, n_cands=2, ckeys=None):
    """an OPEN (unfrozen) unit set `Units(candidates=...)` with NO unit created yet, behind a UView: unit keys[pos] is registered by the library on its
    first mention (`view[pos]`), so the library's position of a unit is its rank in the order of first mention - NOT pos - and units may be first
    mentioned long after a container over the set was constructed. Use `values_for` to lay an assignment out in the container's own unit order."""
    P = I["provenance"]
    return UView(P.Units(candidates=(n_cands if ckeys is None else list(ckeys))), keys, ckeys)


def values_for(container_units, keys, a):
    """assignment a (candidate per JSON position) as the value list a caller passes to query / eval of a container whose public `units` sequence is
    container_units (one value per unit the container knows, in the container's order)"""
    pos = {k: i for i, k in enumerate(keys)}
    return [a[pos[k]] for k in container_units]


def flat_lits(e):
    """the literals [unit, candidate] of a flat JSON formula in the order gen.build_expr mentions them"""
    if "eq" in e:
        return [e["eq"]]
    if "conj" in e:
        return list(e["conj"])
    return [l for cj in e["disj"] for l in cj]


def first_mention_normal(exprs):
    """(exprs', n): the flat JSON formulas with their units renamed to the rank of their first mention (reading the list front to back), n = number
    of units mentioned. Over an OPEN unit set the library gives a unit exactly this rank as its position, so for exprs' JSON position = library
    position even when the formulas reach the library one by one."""
    rank = {}
    for e in exprs:
        for u, _c in flat_lits(e):
            rank.setdefault(u, len(rank))

    def ren(e):
        if "eq" in e:
            return {"eq": [rank[e["eq"][0]], e["eq"][1]]}
        if "conj" in e:
            return {"conj": [[rank[u], c] for u, c in e["conj"]]}
        return {"disj": [[[rank[u], c] for u, c in cj] for cj in e["disj"]]}
    return [ren(e) for e in exprs], len(rank)


def make_prov_late(I, exprs_json, n_units, split, n_cands=2, keys=None, ckeys=None):
    """real Provenance over an OPEN unit set (`Units(candidates=...)`, no unit declared): the container is constructed from the first `split` >= 1
    formulas and the remaining ones are appended / inserted at the end afterwards, each built only then - so a unit that the first `split` formulas
    do not mention is registered by the library AFTER the container was constructed. exprs_json must be in first-mention-normal form with all
    n_units units mentioned (see first_mention_normal); then position = library position, which is asserted."""
    import gen
    P = I["provenance"]
    keys = list(range(n_units)) if keys is None else list(keys)
    units = open_units(I, keys, n_cands, ckeys)
    es = [gen.build_expr(P, units, e) for e in exprs_json[:split]]
    prov = P.Provenance(es)
    for j, e in enumerate(exprs_json[split:]):
        x = gen.build_expr(P, units, e)
        es.append(x)
        if j % 2 == 0:
            prov.append(x)
        else:
            prov.insert(len(prov), x)
    assert list(units.units.units) == keys, "harness: formulas not in first-mention-normal form"
    return prov, units, es


def truth_table_impl(prov, n_units, n_cands=2):
    from spec import assignments
    out = []
    for a in assignments(n_units, n_cands):
        out.append([bool(x) for x in np.asarray(prov.query(np.array(a, dtype=int))).tolist()])
    return out


def conj_prov(I, rows, n_units, keys=None, lazy=False):
    """conjunctive provenance from unit sets (value-1 literals); keys = the unit identifiers per position (default: the positions)"""
    return make_prov(I, [{"conj": [[u, 1] for u in r]} if len(r) > 1 else {"eq": [r[0], 1]} for r in rows], n_units, keys=keys, lazy=lazy)


def global_state():
    """process-global state that scoring must not change as a side effect: numpy's floating-point error mode and error callback, the CONTENT of
    warnings.filters, the environment.  (The state of numpy's global random generator is NOT part of it: the library deliberately calls np.random.seed.)"""
    import warnings
    return dict(np_geterr=dict(np.geterr()), np_geterrcall=repr(np.geterrcall()),
                warnings_filters=[(f[0], getattr(f[1], "pattern", f[1]), "%s.%s" % (f[2].__module__, f[2].__qualname__), getattr(f[3], "pattern", f[3]), f[4])
                                  for f in warnings.filters],
                os_environ=dict(os.environ))


def global_state_diff(before, after):
    """{name: {before, after}} of the parts of global_state() that differ (for environ / filters only the differing entries)"""
    out = {}
    for k in before:
        if before[k] == after[k]:
            continue
        b, a = before[k], after[k]
        if k == "os_environ":
            keys = sorted(x for x in set(b) | set(a) if b.get(x) != a.get(x))
            b, a = {x: b.get(x) for x in keys}, {x: a.get(x) for x in keys}
        elif k == "warnings_filters":
            b, a = [list(f) for f in b if f not in after[k]], [list(f) for f in a if f not in before[k]]
            if not b and not a:
                b, a = "same entries, other order", "same entries, other order"
        out[k] = dict(before=b, after=a)
    return out


# ---- raw 4-D containers (padding slots anywhere) and general slices: additive helpers for C03 / C05 / C12 / C19 ----------------------

PAD = [-1, -1]


def rand_raw_data(rng, n_units, n_cands=2, rows=None, nd=None, nc=None, p_zero=0.2):
    """a raw (rows, disjuncts, conjuncts, 2) nested list as the public constructor Provenance(units=..., data=...) accepts it: every slot is either a
    literal [unit position, candidate index] or the padding slot [-1, -1], and padding may stand ANYWHERE - in front of the literals of a disjunct,
    between them, behind them (the only place the library's own encoders put it); a whole disjunct may be padding (in any disjunct position) and so
    may a whole row."""
    import gen
    rows = rng.randint(1, 6) if rows is None else rows
    nd = rng.randint(1, 3) if nd is None else nd
    nc = rng.randint(1, 3) if nc is None else nc
    data = []
    for _ in range(rows):
        row = []
        for _ in range(nd):
            k = rng.random()
            if k < 0.2:
                n_real = 0                                  # an all-padding disjunct
            elif k < 0.45:
                n_real = nc                                 # no padding
            else:
                n_real = rng.randint(1, nc)
            where = set(rng.sample(range(nc), n_real))      # the slots holding literals: any subset, so padding leads / is interior / trails
            row.append([gen.rand_lit(rng, n_units, n_cands, p_zero) if s in where else list(PAD) for s in range(nc)])
        data.append(row)
    return data


def raw_to_exprs(data):
    """by definition: a disjunct is the conjunction of its non-padding literals, a disjunct without literals contributes nothing, so a row is the
    disjunction of its non-empty disjuncts (JSON form; a row without any real disjunct is {"disj": []} = false)"""
    return [{"disj": [[[int(u), int(c)] for (u, c) in cj if not (u == -1 and c == -1)] for cj in row if any(not (u == -1 and c == -1) for (u, c) in cj)]}
            for row in data]


def raw_true(row, a):
    """truth value of one raw row under assignment a (candidate index per unit position), straight from the slots"""
    for cj in row:
        lits = [(u, c) for (u, c) in cj if not (u == -1 and c == -1)]
        if lits and all(a[u] == c for (u, c) in lits):
            return True
    return False


def raw_padding_kinds(data):
    """which padding placements a raw container holds (for the distribution record)"""
    kinds = set()
    for row in data:
        if all(u == -1 for cj in row for (u, _c) in cj):
            kinds.add("empty-row")
        for cj in row:
            real = [u != -1 for (u, _c) in cj]
            if not any(real):
                kinds.add("empty-disjunct")
                continue
            if all(real):
                continue
            first, last = real.index(True), len(real) - 1 - real[::-1].index(True)
            if first > 0:
                kinds.add("leading")
            if last < len(real) - 1:
                kinds.add("trailing")
            if not all(real[first:last + 1]):
                kinds.add("interior")
    return kinds


def raw_model_prov(data, n_units, n_cands=2):
    """the same container in the Lean driver's raw transport (lean/Driver.lean provOf: data / nDisj / nConj)"""
    return {"nUnits": n_units, "nCands": n_cands, "data": data, "nDisj": len(data[0]), "nConj": len(data[0][0])}


def make_raw_prov(I, data, n_units, n_cands=2, keys=None, ckeys=None, form="int64"):
    """real Provenance from a raw nested list through the public constructor. form: 'int64' / 'int32' ndarray, 'list' (nested plain list),
    '3d' ((rows, conjuncts, 2) array; only for one disjunct per row)."""
    P = I["provenance"]
    cands = n_cands if ckeys is None else list(ckeys)
    if keys is None:
        keys = list(range(n_units))
        raw = P.Units(units=n_units, candidates=cands)
    else:
        raw = P.Units(units=list(keys), candidates=cands)
    units = UView(raw, keys, ckeys)
    if form == "list":
        arg = [[[list(l) for l in cj] for cj in row] for row in data]
    elif form == "3d":
        assert all(len(row) == 1 for row in data)
        arg = np.array([row[0] for row in data], dtype=np.int64)
    else:
        arg = np.array(data, dtype=(np.int32 if form == "int32" else np.int64))
    return P.Provenance(units=raw, data=arg), units


def rand_slice(rng, n):
    """a slice over a sequence of length n as a caller may write it: each bound is open (None), in range, negative (counted from the end) or out of
    range on either side; the step is open, positive or NEGATIVE (so p[::-1], p[3::-1], p[::-2], p[2:-100:-1], p[-100:100:2] ... all occur)"""
    def bound():
        k = rng.random()
        if k < 0.3:
            return None
        if k < 0.6:
            return rng.randrange(0, n + 1)
        if k < 0.8:
            return -rng.randint(1, n + 1)
        return rng.choice([n + 1, n + 7, 100, -n - 2, -100])
    step = rng.choice([None, 1, 2, 3, -1, -1, -2, -3])
    return slice(bound(), bound(), step)


def slice_json(sl):
    return [sl.start, sl.stop, sl.step]


def check_translated_query(ctx, prov, a, mask, idx, case):
    """Provenance.query TRANSLATED from this tree's source (lean/GenQ via genqdriver), run on the container's raw array and the assignment `a`,
    against what the implementation returned (`mask`: list of bools, `idx`: list of row positions).  A disagreement means the translator / Ds.Np
    misrepresent the code (the implementation is compared with the definition elsewhere)."""
    if getattr(ctx, "genqdriver", None) is None:
        return
    import numpy as _np
    data = _np.asarray(prov.data)
    if data.ndim != 4 or data.shape[3] != 2:
        return
    req = {"r": int(data.shape[0]), "d": int(data.shape[1]), "c": int(data.shape[2]), "data": data.tolist(), "n": int(prov.num_units), "values": [int(x) for x in a]}
    m = ctx.genq(dict(req, idx=False))
    i = ctx.genq(dict(req, idx=True))
    ctx.dist["translated_query_runs"] += 1
    if m is None or i is None or m.get("ok") != [bool(x) for x in mask] or i.get("ok") != [int(x) for x in idx]:
        ctx.mismatch("Provenance.query translated from the source (harness/translate_query.py -> lean/GenQ) does not reproduce the implementation", dict(case, assignment=list(a)),
                     impl=dict(mask=mask, idx=idx), model=dict(mask=m, idx=i), failing_input=False, broken="corr:GenQ.query_mask / query_idx (translator / Ds.Np)")
