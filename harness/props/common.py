"""helpers shared by the property modules"""
import os
import numpy as np
import impl as implmod

EXC_MAP = [(IndexError, "IndexError"), (KeyError, "KeyError"), (ValueError, "ValueError"), (TypeError, "TypeError"),
           (AssertionError, "AssertionError")]


def exc_name(e):
    for cls, name in EXC_MAP:
        if isinstance(e, cls):
            return name
    return "Other"


def load_impl(ctx):
    return implmod.load(ctx.work)


class UView:
    """position -> Unit of a real Units object whose keys need not be the positions"""
    def __init__(self, units, keys, ckeys=None):
        self.units = units
        self.keys = list(keys)
        self.ckeys = list(ckeys) if ckeys is not None else None

    def __getitem__(self, pos):
        return self.units[self.keys[pos]]

    def ck(self, c):
        """candidate key of candidate index c"""
        return c if self.ckeys is None else self.ckeys[c]


def rand_keys(rng, n_units):
    """unit keys for positions 0..n-1: positional, shuffled, gapped integers, strings, tuples"""
    k = rng.random()
    if rng is None or k < 0.35:
        return list(range(n_units)), "positional"
    if k < 0.55:
        ks = list(range(n_units))
        rng.shuffle(ks)
        return ks, "shuffled"
    if k < 0.75:
        return rng.sample(range(-5, 60), n_units), "gapped"
    if k < 0.9:
        return ["u%02d" % x for x in rng.sample(range(100), n_units)], "strings"
    return [("t", x) for x in rng.sample(range(50), n_units)], "tuples"


def rand_ckeys(rng, n_cands):
    """candidate keys per candidate index: positional, reversed (the falsy key 0 is then NOT the first candidate), booleans, strings"""
    k = rng.random()
    if k < 0.4:
        return list(range(n_cands)), "positional"
    if k < 0.65:
        return list(range(n_cands - 1, -1, -1)), "reversed"
    if k < 0.8 and n_cands == 2:
        return [True, False], "bool-true-first"
    return ["z", "a", ""][:n_cands] if n_cands <= 3 else ["c%d" % i for i in range(n_cands)], "strings"


def make_prov(I, exprs_json, n_units, n_cands=2, keys=None, lazy=False, ckeys=None, via_default=False):
    """real Provenance from JSON expression list (library operators are NOT used here: flat leaves only).
    keys: unit key per position (default = the positions); lazy: units created on first mention instead of up front."""
    import gen
    P = I["provenance"]
    cands = n_cands if ckeys is None else list(ckeys)
    if keys is None:
        keys = list(range(n_units))
        raw = P.Units(units=n_units, candidates=cands)
    elif lazy:
        raw = P.Units(candidates=cands)
        for k in keys:
            raw[k]
    else:
        raw = P.Units(units=list(keys), candidates=cands)
    units = UView(raw, keys, ckeys)
    es = [gen.build_expr(P, units, e) for e in exprs_json]
    if via_default:
        # the default one-row-per-unit container OBJECT, edited in place (item assignment, insert, delete) until it holds the same formulas
        prov = P.Provenance(units=raw)
        for i in range(min(len(es), len(prov))):
            # with two candidates default row i is (unit i == candidate 1) and may be kept; with more candidates the default object holds one row per
            # (unit, non-null candidate) in another order, so every row is assigned
            if n_cands != 2 or exprs_json[i] != {"eq": [i, 1]}:
                prov[i] = es[i]
        if len(es) < len(prov):
            del prov[len(es):]
        for i in range(len(prov), len(es)):
            prov.insert(i, es[i])
        return prov, units, es
    return P.Provenance(es), units, es


def truth_table_impl(prov, n_units, n_cands=2):
    from spec import assignments
    out = []
    for a in assignments(n_units, n_cands):
        out.append([bool(x) for x in np.asarray(prov.query(np.array(a, dtype=int))).tolist()])
    return out


def conj_prov(I, rows, n_units):
    """conjunctive provenance from unit sets (value-1 literals)"""
    return make_prov(I, [{"conj": [[u, 1] for u in r]} if len(r) > 1 else {"eq": [r[0], 1]} for r in rows], n_units)
