"""helpers shared by the property modules"""
import os
import numpy as np
import impl as implmod

EXC_MAP = [(IndexError, "IndexError"), (KeyError, "KeyError"), (ValueError, "ValueError"), (TypeError, "TypeError"),
           (AssertionError, "AssertionError")]


def exc_name(e):
    for cls, name in EXC_MAP:
        if isinstance(e, cls):
            return name
    return "Other"


def load_impl(ctx):
    return implmod.load(ctx.work)


def make_prov(I, exprs_json, n_units, n_cands=2):
    """real Provenance from JSON expression list (library operators are NOT used here: flat leaves only)"""
    import gen
    P = I["provenance"]
    units = P.Units(units=n_units, candidates=n_cands)
    es = [gen.build_expr(P, units, e) for e in exprs_json]
    return P.Provenance(es), units, es


def truth_table_impl(prov, n_units, n_cands=2):
    from spec import assignments
    out = []
    for a in assignments(n_units, n_cands):
        out.append([bool(x) for x in np.asarray(prov.query(np.array(a, dtype=int))).tolist()])
    return out


def conj_prov(I, rows, n_units):
    """conjunctive provenance from unit sets (value-1 literals)"""
    return make_prov(I, [{"conj": [[u, 1] for u in r]} if len(r) > 1 else {"eq": [r[0], 1]} for r in rows], n_units)
