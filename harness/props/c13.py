"""C13 — the compiled kernel (rebuilt from the .pyx on every run) equals the reference kernel in double precision."""
import os
import subprocess
import sys
import json
from fractions import Fraction
import numpy as np
from props.common import load_impl, exc_name
from props import kern

RULE = ("the extension is re-cythonized and compiled from /repo's shapley_cy.pyx for this run; random kernel argument arrays on a size ladder "
        "(1 .. 2000 units and one size between 16 386 and 20 384 quick, .. 65536 thorough; 1-130 validation points; 1-6 classes; tie groups; utilities up to 1e6): (i) rebuilt-cy vs Python "
        "reference within 8*n*2^-53*scale, (ii) each vs the exact rational model Ds.Kernel.importances (n <= 400) within 1e-9*(1+scale), (iii) every kernel call is repeated on the SAME argument arrays, which must come back byte-identical and give the same vector; (iv) rebuilt-cy "
        "vs the Float instance of the same model function bit for bit (n <= 2000, recorded). Non-trivial = >= 2 units with >= 2 labels and non-constant "
        "utilities; distinct = distinct (size, seed-derived content) cases.")


def run(ctx):
    I = load_impl(ctx)
    rng = ctx.rng
    q = ctx.tier == "quick"
    ladder = [1, 2, 3, 5, 8, 13, 40, 100, 400, 1000, 2000, 16385 + rng.randrange(1, 4000)] if q else [1, 2, 3, 4, 5, 7, 10, 16, 33, 100, 400, 1000, 2000, 8192, 20000, 65536]
    reps = 3 if q else 6
    bit_same = bit_total = 0
    worst_rel = 0.0
    gen_stats = {"cy": {}, "py": {}}
    for n in ladder:
        for rep in range(reps):
            m = (rng.choice([1, 2, 5, 17, 64, 65, 100, 130]) if n <= 400 else rng.choice([1, 2, 5, 17, 64, 70])) if n <= 2000 else rng.choice([1, 4])
            c = rng.randint(1, 6)
            ties = rng.random() < 0.4
            big = rng.random() < 0.4
            labels, dist, util, nulls = kern.kernel_case(rng, n, m, c, ties, "int", big=big)
            scale = max(float(np.max(np.abs(util))), float(np.max(np.abs(nulls))), 1.0)
            case = dict(n=n, m=m, c=c, ties=ties, big=big, seed=ctx.seed, rep=rep)
            small_case = dict(labels=labels.tolist(), dist=dist.tolist(), util=util.tolist(), nulls=nulls.tolist()) if n <= 8 else case
            out = {}
            ords = {}
            reuse_bad = None
            for name, fn in (("cy", I["kernel_cy"]), ("py", I["kernel_py"])):
                store = []
                try:
                    # the caller's arrays are handed over as they are, kept, compared byte for byte afterwards and handed over AGAIN: "for any arguments
                    # the compiled kernel returns the same vector as the reference kernel" includes arguments that were already used once
                    args = (labels.copy(), dist.copy(), util.copy(), nulls.copy())
                    before = [a.tobytes() for a in args]
                    with kern.record_argsort(store):
                        out[name] = np.asarray(fn(*args), dtype=float)
                    ords[name] = kern.orders_from(store, n, m)
                    changed = [nm for nm, a, b in zip(("unit_labels", "unit_distances", "label_utilities", "null_scores"), args, before) if a.tobytes() != b]
                    again = np.asarray(fn(*args), dtype=float)
                    if changed or again.tobytes() != out[name].tobytes():
                        reuse_bad = reuse_bad or dict(kernel=name, arguments_modified=changed, first=out[name].tolist()[:8], second=again.tolist()[:8])
                except Exception as e:  # noqa
                    out[name] = exc_name(e) + ": " + repr(e)
            nontriv = n >= 2 and len(set(labels[:, 0].tolist())) >= 2 and len(set(util[:, 0].tolist())) >= 2
            ctx.case(("c13", n, rep, m, c), nontrivial=nontriv, sample=(small_case if n <= 5 else None), n=n, ties=ties)
            ctx.maxi(units=n, val_points=m, classes=c, scale=scale)
            if reuse_bad is not None:
                ctx.mismatch("a kernel modified its arguments / returned another vector when called again on the same arrays (the reference kernel run on arrays the "
                             "compiled kernel has seen would no longer agree with it)", small_case, impl=reuse_bad)
                continue
            if isinstance(out["cy"], str) or isinstance(out["py"], str):
                ctx.mismatch("a kernel raised", small_case, impl={k: (v if isinstance(v, str) else "ok") for k, v in out.items()})
                continue
            same_order = ords["cy"] is not None and ords["cy"] == ords["py"]
            diff = float(np.max(np.abs(out["cy"] - out["py"]))) if n else 0.0
            # theorem C13_round_twin + C13_round_A_le: two runs of this program under the standard model of binary64 arithmetic differ by at most
            # 2 * ((1+eps)^(n+m+3) - 1) * 2*M*H_n; a factor 2 of slack is left for harmless variations that add a rounding per term (e.g. multiplying by a reciprocal)
            import math
            H_n = sum(1.0 / k for k in range(1, n + 1)) if n <= 4096 else (math.log(n) + 0.5772156649 + 1.0 / (2 * n))
            bound = 2 * (2 * math.expm1((n + m + 3) * math.log1p(2.0 ** -53)) * 2 * scale * H_n)
            worst_rel = max(worst_rel, diff / scale)
            if ties and not same_order:
                ctx.dist["tie_orders_differ_between_kernels"] += 1
            # the property demands agreement with the reference kernel also on tied distances (both kernels rank with the same sort on this tree)
            if not diff <= bound:
                k = int(np.argmax(np.abs(out["cy"] - out["py"])))
                ctx.mismatch("compiled kernel differs from the reference kernel beyond double rounding", small_case,
                             impl=dict(cy=float(out["cy"][k]), py=float(out["py"][k]), unit=k, diff=diff, bound=bound))
                continue
            if n <= 400:
                for name in ("cy", "py"):
                    if ords[name] is None:
                        continue
                    ans = ctx.model(kern.model_kernel_req(labels, ords[name], util, nulls, dist))
                    if ans is None:
                        continue
                    if "err" in ans:
                        ctx.mismatch("sort order used by kernel %s does not weakly sort the distances" % name, small_case, impl=ords[name][:1], model=ans)
                    elif not ctx.vec_close(out[name].tolist(), [Fraction(x) for x in ans["ok"]], scale):
                        ctx.mismatch("kernel %s differs from the exact rational model" % name, small_case, impl=out[name].tolist()[:8], model=ans["ok"][:8])
            if n <= 400:
                # the kernels TRANSLATED from this tree's source (lean/Gen), run on the same arguments with the sort results the implementation obtained
                for name in ("cy", "py"):
                    kern.check_translated(ctx, name, out[name], labels, dist, util, nulls, ords[name], small_case, bound, gen_stats[name])
            if n <= 40 and ords["cy"] is not None and ctx.gendriver is not None and ctx.driver is not None:
                # theorem TIE_cy_model executed: translated kernel over Q = hand-written model over Q, exactly
                g = ctx.gen(kern.gen_req("cy", "rat", labels, dist, util, nulls, ords["cy"]))
                mm = ctx.model(kern.model_kernel_req(labels, ords["cy"], util, nulls))
                if g and mm and "ok" in g and "ok" in mm and [Fraction(x) for x in g["ok"]] != [Fraction(x) for x in mm["ok"]]:
                    ctx.mismatch("translated kernel over Q differs from the hand-written model over Q (contradicts theorem TIE_cy_model: hypotheses violated by the harness?)",
                                 small_case, impl=g["ok"][:8], model=mm["ok"][:8], failing_input=False, broken="thm:TIE_cy_model")
            if n <= 2000 and ords["cy"] is not None and ctx.driver is not None:
                f = ctx.model(kern.model_kernel_req(labels, ords["cy"], util, nulls, op="kernelF"))
                bit_total += 1
                if f and f.get("ok") == [kern.bits(x) for x in out["cy"].tolist()]:
                    bit_same += 1
        if ctx.elapsed() > (400 if q else 1800):
            ctx.notes.append("ladder cut at n=%d by the time budget" % n)
            break
    ctx.extra["bit_identical_cy_vs_Float_model"] = "%d/%d" % (bit_same, bit_total)
    ctx.extra["worst_cy_vs_py_relative_difference"] = worst_rel
    ctx.extra["bit_identical_impl_vs_TRANSLATED_source_Float"] = {k: "%d/%d" % (v.get("same", 0), v.get("total", 0)) for k, v in gen_stats.items()}
    # the binary lying in the tree (informational only)
    tree_so = I.get("tree_so")
    if tree_so:
        code = ("import sys,numpy as np;sys.path.insert(0,%r);import importlib.util as u;"
                "s=u.spec_from_file_location('shapley_cy',%r);m=u.module_from_spec(s);s.loader.exec_module(m);"
                "r=np.random.RandomState(5);n=3000;l=r.randint(0,3,(n,2)).astype(np.int64);d=r.rand(n,2);U=r.rand(3,2);z=np.zeros(2);"
                "print(repr(m.compute_all_importances_cy(l,d,U,z)[:3].tolist()))") % (os.environ.get("VERIF_REPO", "/repo"), tree_so)
        try:
            r1 = subprocess.run([sys.executable, "-c", code], capture_output=True, text=True, timeout=120).stdout.strip().splitlines()[-1]
            r = np.random.RandomState(5)
            n = 3000
            l_ = r.randint(0, 3, (n, 2)).astype(np.int64)
            d_ = r.rand(n, 2)
            U_ = r.rand(3, 2)
            mine = I["kernel_cy"](l_, d_, U_, np.zeros(2))[:3].tolist()
            ctx.extra["stale_binary"] = (json.loads(r1.replace("'", '"')) != mine)
        except Exception as e:  # noqa
            ctx.extra["stale_binary"] = "unknown (%s)" % exc_name(e)
    return ctx.finish("proof", "Exact arithmetic: both kernels are instances of the single polymorphic Ds.Kernel.importances, proved equal to the Shapley value (C01). "
                      "Rounding is outside Lean: double-precision agreement of the REBUILT extension with the reference kernel, with the exact rational model "
                      "and (bit for bit) with the Float instance of the model is measured on the size ladder.", RULE)
