"""C15 — utilities are total over coalitions: degenerate subsets score the null value."""
import itertools
import math
import warnings
from fractions import Fraction
import numpy as np
from props.common import load_impl, exc_name

RULE = ("for a range of scikit-learn estimators (1-NN, 3-NN, logistic regression, decision tree, SVC, SVC(probability), LinearSVC, GaussianNB, small random forest, "
        "scaler+PCA+logistic pipeline, a QuantileTransformer+1-NN pipeline that warns (UserWarning) on every subset smaller than the full set; a QuantileTransformer pipeline that emits UserWarnings on small coalitions for the scoring loops) x {accuracy on 3 classes, accuracy with a training class absent from the validation labels (null score exactly 0), ROC-AUC on binary labels} x EVERY subset of 6 training rows quick / 8 thorough (empty, single-row, "
        "single-class, too small included): (1) the raw outcome class of fit+predict+metric is recorded under the harness's own try/except, fed to the Lean model "
        "of the two handler layers (Outcome.layer1/caught) and the predicted value / raise-or-not is compared with the real utility call; (2) the real call must "
        "return a finite float and never raise; (3) bruteforce and montecarlo over the same data return finite vectors; (4) EVERY subset is evaluated a second "
        "time WITHOUT a supplied null score (null_score=None, or the keyword left out altogether - the first step of any marginal-contribution walk a caller "
        "writes by hand): no exception may escape, the score is finite and equals the raw score of an independently fitted model when the subset can be scored, "
        "otherwise the utility's own fallback computed here BY DEFINITION with fractions (the least metric value of a constant prediction over the classes that "
        "occur in the subset: accuracy = min_c #{validation label = c}/#validation rows, ROC-AUC of a constant ranking = 1/2; for the EMPTY subset, which has no "
        "class to predict, the default score 0). The Lean model of the handler layers covers the supplied-null-score path only; for (4) it is fed the "
        "by-definition fallback as its null value, and the accuracy fallback is additionally compared with Ds.Util.accNull on the subset's classes (none on the "
        "empty subset). Non-trivial = the subset is degenerate (raw outcome is not a plain score) or mixes classes; distinct = distinct (estimator, metric, "
        "subset, null score supplied or not).")


def estimators(q):
    from sklearn.neighbors import KNeighborsClassifier
    from sklearn.linear_model import LogisticRegression
    from sklearn.tree import DecisionTreeClassifier
    from sklearn.svm import SVC, LinearSVC
    from sklearn.naive_bayes import GaussianNB
    from sklearn.ensemble import RandomForestClassifier
    from sklearn.pipeline import Pipeline
    from sklearn.preprocessing import StandardScaler
    from sklearn.decomposition import PCA
    es = [("knn1", KNeighborsClassifier(1)), ("knn3", KNeighborsClassifier(3)), ("logreg", LogisticRegression(max_iter=200)),
          ("tree", DecisionTreeClassifier(random_state=0)), ("svc", SVC()), ("gnb", GaussianNB()),
          ("pipe", Pipeline([("sc", StandardScaler()), ("pca", PCA(n_components=2)), ("lr", LogisticRegression(max_iter=200))]))]
    from sklearn.preprocessing import QuantileTransformer
    # evaluates silently on the full set, WARNS (UserWarning: more quantiles than samples) on every smaller subset: a warning is not a failure,
    # the utility must return that subset's score
    es.append(("warnpipe", Pipeline([("qt", QuantileTransformer(n_quantiles=5)), ("knn", KNeighborsClassifier(1))])))
    if not q:
        es += [("svc_proba", SVC(probability=True, random_state=0)), ("linsvc", LinearSVC(max_iter=500)),
               ("forest", RandomForestClassifier(n_estimators=5, random_state=0))]
    return es


def raw_outcome(model, metric_kind, Xs, ys, Xv, yv, classes):
    """what fit + predict + metric do on this subset, without datascope's handlers"""
    from sklearn.base import clone
    from sklearn.metrics import accuracy_score, roc_auc_score
    with warnings.catch_warnings():
        warnings.simplefilter("error", category=RuntimeWarning)
        warnings.simplefilter("ignore", category=FutureWarning)
        warnings.simplefilter("ignore", category=UserWarning)       # as in the utility: a UserWarning is not escalated there
        try:
            np.random.seed(7)
            m = clone(model)
            m.fit(Xs, ys)
            if metric_kind == "accuracy":
                return float(accuracy_score(yv, m.predict(Xv)))
            cl = np.unique(ys)
            if hasattr(m, "predict_proba"):
                proba = m.predict_proba(Xv)
            else:
                proba = (m.predict(Xv)[:, None] == np.array(cl)).astype(int)
            if proba.shape[1] == 2:
                proba = proba[:, 1]
            return float(roc_auc_score(yv, proba, multi_class="ovr"))
        except ValueError:
            return "ValueError"
        except RuntimeWarning:
            return "RuntimeWarning"
        except UserWarning:
            return "UserWarning"
        except Exception as e:  # noqa
            return "Other:" + type(e).__name__


def fallback_null(metric_kind, ys, yv):
    """by definition: the score the utility falls back to on a subset it cannot fit/score when the caller supplied NO null score = the least metric
    value of a constant prediction over the classes occurring in the subset; None when the subset has no class at all (the empty subset)"""
    classes = sorted(set(int(v) for v in ys))
    if not classes:
        return None
    if metric_kind == "accuracy":
        yvl = [int(v) for v in yv]
        return min(Fraction(sum(1 for v in yvl if v == cl), len(yvl)) for cl in classes)
    return Fraction(1, 2)       # a constant ranking ties every (positive, negative) pair


DEFAULT_SCORE = 0.0             # UtilityResult.score when not even a fallback can be computed: finite, documented default


def run(ctx):
    I = load_impl(ctx)
    U = I["utility"]
    rng = ctx.rng
    q = ctx.tier == "quick"
    n_rows = 6 if q else 8
    nprng = np.random.RandomState(ctx.seed + 17)
    outcomes = {}
    for metric_kind, variant in (("accuracy", "all-classes-validated"), ("accuracy", "class-absent-from-validation"), ("rocauc", "all-classes-validated")):
        c = 3 if metric_kind == "accuracy" else 2
        X = nprng.randn(n_rows, 3)
        y = np.array([i % c for i in range(n_rows)])
        nprng.shuffle(y)
        Xv = nprng.randn(7, 3)
        yv = np.array([i % c for i in range(7)])
        if variant == "class-absent-from-validation":
            yv = np.array([i % 2 for i in range(7)])          # class 2 never validated: the null score is exactly 0.0
        for name, est in estimators(q):
            util = (U.SklearnModelAccuracy if metric_kind == "accuracy" else U.SklearnModelRocAuc)(est)
            try:
                null = float(util.null_score(X, y, Xv, yv))
                full = util(X, y, Xv, yv, null_score=null).score
            except Exception as e:  # noqa
                ctx.notes.append("precondition fails for %s/%s on the full set: %s" % (name, metric_kind, exc_name(e)))
                continue
            subsets = [s for k in range(n_rows + 1) for s in itertools.combinations(range(n_rows), k)]
            if not q and len(subsets) > 160 and name not in ("knn1", "logreg", "tree"):
                subsets = subsets[:40] + rng.sample(subsets[40:], 120)
            raws = {}
            for s in subsets:
                idx = list(s)
                Xs, ys = X[idx], y[idx]
                raw = raws[s] = raw_outcome(est, metric_kind, Xs, ys, Xv, yv, None)
                case = dict(estimator=name, metric=metric_kind, variant=variant, null=null, subset=idx, y_subset=ys.tolist(), X_seed=ctx.seed + 17)
                try:
                    with warnings.catch_warnings():
                        warnings.simplefilter("ignore")
                        got = float(util(Xs, ys, Xv, yv, null_score=null).score)
                    raised = None
                except Exception as e:  # noqa
                    got = None
                    raised = type(e).__name__
                kind = raw if isinstance(raw, str) else "score"
                outcomes[(name, metric_kind, kind.split(":")[0])] = outcomes.get((name, metric_kind, kind.split(":")[0]), 0) + 1
                degenerate = isinstance(raw, str) or len(set(ys.tolist())) < c
                ctx.case((name, metric_kind, variant, tuple(idx)), nontrivial=degenerate or len(set(ys.tolist())) >= 2,
                         sample=(dict(case, raw=raw, got=got) if isinstance(raw, str) and len(idx) >= 2 else None), metric=metric_kind, raw=kind.split(":")[0])
                if raised is not None:
                    ctx.mismatch("utility raised on a subset although it can be evaluated on the full training set", case, impl=raised, spec="finite score (null when not fittable/scorable)")
                    continue
                if got is None or not math.isfinite(got):
                    ctx.mismatch("utility returned a non-finite score", case, impl=got, spec="finite")
                    continue
                # the model of the handler layers predicts the value from the raw outcome
                want = null if isinstance(raw, str) else raw
                if isinstance(raw, str) and raw.startswith("Other"):
                    ctx.notes.append("raw outcome %s handled by the utility for %s" % (raw, case)) if len(ctx.notes) < 5 else None
                    continue
                if abs(got - want) > 1e-9:
                    ctx.mismatch("utility value differs from (raw score | null score on ValueError/RuntimeWarning)", case, impl=got, spec=want)
                    continue
                if ctx.driver is not None and (isinstance(raw, str) or rng.random() < 0.05):
                    o = raw if isinstance(raw, str) else str(Fraction(raw).limit_denominator(10 ** 6))
                    m = ctx.model({"op": "handlers", "outcome": o, "null": str(Fraction(null).limit_denominator(10 ** 6))})["ok"]
                    if m["layer2"] == "raise" or abs(float(Fraction(m["layer2"])) - got) > 1e-5:
                        ctx.mismatch("model of the handler layers disagrees with the implementation", case, impl=got, model=m, failing_input=False,
                                     broken="corr:Ds.Outcome.layer1/caught / theorems C15_*")
            # (4) the same subsets WITHOUT a supplied null score: "never raises, finite" is unconditional
            for s in subsets:
                idx = list(s)
                Xs, ys = X[idx], y[idx]
                raw = raws[s]
                how = "null_score=None" if (len(idx) + len(name)) % 2 == 0 else "keyword omitted"
                case = dict(estimator=name, metric=metric_kind, variant=variant, null="NOT SUPPLIED (%s)" % how, subset=idx, y_subset=ys.tolist(),
                            y_validation=yv.tolist(), X_seed=ctx.seed + 17)
                try:
                    with warnings.catch_warnings():
                        warnings.simplefilter("ignore")
                        res = util(Xs, ys, Xv, yv, null_score=None) if how == "null_score=None" else util(Xs, ys, Xv, yv)
                        got = float(res.score)
                    raised = None
                except Exception as e:  # noqa
                    got = None
                    raised = exc_name(e) + ": " + str(e)[:120]
                degenerate = isinstance(raw, str) or len(set(ys.tolist())) < c
                fb = fallback_null(metric_kind, ys, yv)
                ctx.case((name, metric_kind, variant, tuple(idx), "no-null"), nontrivial=degenerate or len(set(ys.tolist())) >= 2,
                         sample=(dict(case, raw=raw, got=got, fallback=(str(fb) if fb is not None else None)) if isinstance(raw, str) and len(idx) in (0, 2) else None),
                         metric=metric_kind, raw="no-null/" + (raw if isinstance(raw, str) else "score").split(":")[0])
                if raised is not None:
                    ctx.mismatch("utility raised on a subset when no null score is supplied (it can be evaluated on the full training set)", dict(case, raw=raw),
                                 impl=raised, spec="finite score, no exception (raw score | fallback null score of the subset's classes | default 0.0)")
                    continue
                if got is None or not math.isfinite(got):
                    ctx.mismatch("utility returned a non-finite score when no null score is supplied", dict(case, raw=raw), impl=got, spec="finite")
                    continue
                if isinstance(raw, str) and raw.startswith("Other"):
                    continue
                want = float(fb) if (isinstance(raw, str) and fb is not None) else (DEFAULT_SCORE if isinstance(raw, str) else raw)
                if abs(got - want) > 1e-9:
                    ctx.mismatch("utility value without a supplied null score differs from (raw score | least constant-prediction score over the subset's "
                                 "classes | 0.0 on the class-less empty subset)", dict(case, raw=raw), impl=got, spec=want)
                    continue
                if ctx.driver is not None and isinstance(raw, str) and (len(idx) == 0 or rng.random() < 0.25):
                    m = ctx.model({"op": "handlers", "outcome": raw, "null": str(fb if fb is not None else Fraction(0))})["ok"]
                    bad = m["layer2"] == "raise" or abs(float(Fraction(m["layer2"])) - got) > 1e-9
                    if metric_kind == "accuracy":
                        mn = ctx.model({"op": "util", "classes": sorted(set(int(v) for v in ys)), "yTest": [int(v) for v in yv]})["ok"]["accNull"]
                        bad = bad or (mn is None) != (fb is None) or (mn is not None and Fraction(mn) != fb)
                        m = dict(m, accNull=mn)
                    if bad:
                        ctx.mismatch("model (handler layers fed the by-definition fallback / Ds.Util.accNull of the subset's classes) disagrees with the "
                                     "implementation when no null score is supplied", dict(case, raw=raw), impl=got, model=m, failing_input=False,
                                     broken="corr:Ds.Outcome.layer1/caught, Ds.Util.accNull")
            if ctx.elapsed() > (400 if q else 1800):
                break
    ctx.extra["raw_outcome_kinds"] = {"%s/%s/%s" % k: v for k, v in sorted(outcomes.items())}
    # finiteness of the scoring methods on such data
    from sklearn.neighbors import KNeighborsClassifier
    from sklearn.linear_model import LogisticRegression
    from sklearn.pipeline import make_pipeline
    from sklearn.preprocessing import QuantileTransformer
    # fits silently on the full set, emits a UserWarning ("n_quantiles is greater than the number of samples") on every smaller coalition:
    # the scoring loops escalate UserWarning and must score such coalitions with the null value, not abort
    warn_pipe = make_pipeline(QuantileTransformer(n_quantiles=5), KNeighborsClassifier(1))
    for metric_kind, est in (("accuracy", KNeighborsClassifier(3)), ("rocauc", LogisticRegression(max_iter=100)), ("accuracy", warn_pipe)):
        c = 3 if metric_kind == "accuracy" else 2
        X = nprng.randn(5, 2)
        y = np.array([i % c for i in range(5)])
        Xv = nprng.randn(6, 2)
        yv = np.array([i % c for i in range(6)])
        util = (U.SklearnModelAccuracy if metric_kind == "accuracy" else U.SklearnModelRocAuc)(est)
        for method, kw in (("bruteforce", {}), ("montecarlo", dict(mc_iterations=4, mc_truncation_steps=0))):
            case = dict(method=method, metric=metric_kind, rows=5)
            try:
                with warnings.catch_warnings():
                    warnings.simplefilter("ignore")
                    s = np.asarray(I["imp"].ShapleyImportance(method=method, utility=util, **kw).fit(X, y).score(Xv, yv), dtype=float)
                ctx.case(("finite", method, metric_kind), nontrivial=True, sample=dict(case, scores=s.tolist()))
                if not np.all(np.isfinite(s)):
                    ctx.mismatch("%s returned non-finite scores" % method, case, impl=s.tolist())
            except Exception as e:  # noqa
                ctx.mismatch("%s raised" % method, case, impl=exc_name(e) + repr(e))
    return ctx.finish("other", "Partial by nature. Proved (C15_layer1, C15_handled, C15_escape, C15_scores_defined, C15_run_defined): the two handler layers as a state "
                      "machine - ValueError/RuntimeWarning (layer 1) and additionally UserWarning (layer 2) map to the null score and never raise, every other class "
                      "escapes, and then bruteforce/montecarlo are defined. NOT provable: which exception classes scikit-learn raises on empty / single-class / too "
                      "small subsets is third-party runtime behaviour; it is decided here by exhaustive subset enumeration over a range of estimators, recording the raw "
                      "outcome class of every subset and comparing the real utility call with the model's prediction.", RULE)
