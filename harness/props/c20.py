"""C20 — scoring does not mutate or leak state between calls."""
import copy
import pickle
import warnings
import numpy as np
from props.common import load_impl, exc_name, conj_prov, global_state, global_state_diff
from props import datasets as dsm

RULE = ("random fit/score call histories (4-10 calls quick, up to 20 thorough) over 1-3 importance objects (methods neighbor K=1, neighbor K=2/ADD path, bruteforce, "
        "montecarlo; the neighbor AND bruteforce objects with or without a feature pipeline - StandardScaler, centring only (StandardScaler(with_std=False)), the supervised "
        "SelectKBest(k=1), or both, own or shared between the objects; a neighbor object with a pipeline gets "
        "a distance callable that computes the matrix from the extracted features it is handed) sharing datasets, provenance objects (none, conjunctions, unit id arrays, and "
        "explicit 3-candidate map/fork provenances Provenance(units, candidates=3, data=[[unit, candidate], ...]) in which a unit owns rows under two candidate values, so "
        "that the full coalition of the default world does NOT select every training row; in most of them the rows absent from that world are shifted away from the rest) and one utility (accuracy, "
        "equalized-odds difference, or ROC-AUC with neighbor-only objects; its model object is watched); the histories contain steps in which the CALLER edits a dataset's "
        "training arrays in place (a row of X 'repaired', a label flipped, the label array replaced by a new object) between a score and the next fit, followed by re-fits that "
        "pass the same array OBJECT with changed contents / changed labels (the data-repair loop; part of the histories open with fit, score, in-place repair, fit with the same "
        "objects, score; when a bruteforce object with a pipeline and a multi-candidate provenance are both present, most histories open with that object fitted on it and scored "
        "repeatedly - the same call twice, then every validation set of the pool); byte snapshots of every caller-owned object - feature "
        "arrays, label arrays / Series (values and index), Provenance objects (data and Units lists) and provenance given as integer id arrays (1-D and (unit, candidate) pairs), the distance matrix returned by a recording distance callable, the "
        "utility's model get_params() and fitted attributes - are taken before the history (refreshed after a caller's own edit) and compared after EVERY call; every score is compared with the score of a "
        "fresh object (fresh utility, fresh pipeline) fitted on the same data (no leakage from earlier fits/scores) and repeated neighbor/bruteforce scores must be identical; np.geterr(), np.geterrcall(), "
        "the content of warnings.filters and os.environ are snapshotted around every fit/score call and must be unchanged. Non-trivial = history "
        "contains >= 2 fits on different data and >= 2 scores; distinct = distinct histories.")


def snap(objs):
    out = {}
    import pandas as pd
    for k, o in objs.items():
        if isinstance(o, np.ndarray):
            out[k] = (o.dtype.str, o.shape, o.tobytes())
        elif isinstance(o, (pd.Series, pd.DataFrame)):
            out[k] = (o.to_numpy().tobytes(), tuple(map(str, o.index.tolist())))
        elif hasattr(o, "data") and hasattr(o, "units"):          # Provenance
            out[k] = (np.asarray(o.data).tobytes(), tuple(map(str, o.units)), tuple(map(str, o.candidates)))
        elif hasattr(o, "get_params"):
            def fitted(est):
                return sorted(a for a in vars(est) if a.endswith("_") and not a.startswith("_"))
            parts = [("", o)] + [(nm, st) for nm, st in getattr(o, "steps", [])]
            out[k] = (repr(sorted((kk, repr(vv)) for kk, vv in o.get_params(deep=True).items())), [(nm, fitted(est)) for nm, est in parts])
        else:
            out[k] = pickle.dumps(o)
    return out


def addpath_sequences(ctx, I):
    """sequences of scorings through the exact K-NN / join path (decision diagrams) in ONE process, each compared with the Shapley value of the K-NN game computed by
    definition: (a) fresh objects on data sets with the SAME K and number of classes but a GROWING number of units; (b) the same provenance object and data scored with
    different K one after the other; (c) one object re-fitted along the way.  Anything a scoring leaves behind in the process (a cached tally type, a cached compiled
    diagram ...) shows up in a later member of the sequence."""
    from fractions import Fraction
    import gen
    import spec
    from props.c01 import additive_utility
    rng = ctx.rng
    for seq in range(2 if ctx.tier == "quick" else 5):
        kind = ["growing", "same-provenance"][seq % 2]
        c = rng.randint(2, 3)
        K0 = rng.randint(1, 2)
        plan = []
        if kind == "growing":
            for n_units in sorted(rng.sample(range(2, 6), 3)):
                plan.append(dict(n_units=n_units, K=K0, fresh_prov=True))
        else:
            n_units = rng.randint(3, 4)
            for K in rng.sample([1, 2, 3], 3):
                plan.append(dict(n_units=n_units, K=K, fresh_prov=False))
        shared = None
        imp_shared = None
        for step, st in enumerate(plan):
            n_units, K = st["n_units"], st["K"]
            if shared is None or st["fresh_prov"]:
                n_rows = rng.randint(max(K + 1, 3), 4)
                rows = gen.rand_hypergraph(rng, n_units, n_rows, 2)
                if all(len(r) == 1 for r in rows):
                    rows[0] = sorted(rng.sample(range(n_units), 2))          # at least one row needs two units: the diagram path whatever K is
                y_train = [k % c for k in range(n_rows)]
                rng.shuffle(y_train)
                dist = np.array(gen.distinct_distances(rng, n_rows, 1), dtype=float)
                prov = conj_prov(I, rows, n_units)[0]
                shared = (rows, y_train, dist, prov, n_rows)
            rows, y_train, dist, prov, n_rows = shared
            classes = sorted(set(y_train))
            Um = [[rng.randrange(-8, 9)] for _ in classes]
            nl = [rng.randrange(-8, 9)]
            util = additive_utility(I, Um, nl)
            case = dict(part="addpath-sequence", kind=kind, step=step, plan=plan, nUnits=n_units, rows=rows, y_train=y_train, dist=dist.tolist(), K=K, util=Um, nulls=nl)
            enc = {cl: k for k, cl in enumerate(classes)}
            lab = [enc[yy] for yy in y_train]
            order = sorted(range(n_rows), key=lambda r: dist[r, 0])
            want = spec.shapley(n_units, lambda S: spec.knn_value({r for r in range(n_rows) if all(u in S for u in rows[r])}, order, lab,
                                                                   [Fraction(Um[k][0]) for k in range(len(classes))], Fraction(nl[0]), K, len(classes)))
            ctx.case(case, nontrivial=(step >= 1), sample=case, part="addpath-sequence", kind=kind)
            try:
                if imp_shared is None or step % 2 == 0:
                    imp_shared = I["imp"].ShapleyImportance(method="neighbor", utility=util, nn_k=K, nn_distance=lambda A, B, D=dist: D.copy())
                else:
                    imp_shared.nn_k, imp_shared.utility, imp_shared.nn_distance = K, util, (lambda A, B, D=dist: D.copy())       # the same object, re-fitted
                res = list(np.asarray(imp_shared.fit(np.arange(n_rows, dtype=float).reshape(-1, 1), np.array(y_train), provenance=prov)
                                      .score(np.zeros((1, 1)), np.array([classes[0]])), dtype=float))
            except Exception as e:  # noqa
                ctx.mismatch("score() raised in a sequence of scorings through the decision-diagram path", case, impl=exc_name(e) + ": " + repr(e), spec=[str(x) for x in want])
                break
            if not ctx.vec_close(res, want, 9):
                ctx.mismatch("a neighbor score through the decision-diagram path is wrong AFTER earlier scorings in the same process (step %d of the sequence; the same call is "
                             "right when it comes first)" % step if step else "neighbor scores (ADD path) are not the Shapley value of the K-NN game",
                             case, impl=res, spec=[str(x) for x in want])
                break


def world_sequences(ctx, I):
    """one explicit multi-candidate map/fork provenance OBJECT scored several times under DIFFERENT worlds (candidate per unit) - by one importance object and by a
    second one sharing the provenance object; every result is compared with what a fresh provenance object + fresh importance object give for that world"""
    from sklearn.neighbors import KNeighborsClassifier
    rng = ctx.rng
    U = I["utility"]
    for seq in range(3 if ctx.tier == "quick" else 10):
        mc = dsm.rand_multicand(rng, n_units=rng.randint(2, 4), n_cands=3, explicit_world=True)
        n = mc["n_rows"]
        nprng = np.random.RandomState(rng.randrange(2 ** 31))
        X = np.round(nprng.randn(n, 2), 3)
        y = np.array([i % 2 for i in range(n)])
        nprng.shuffle(y)
        m = rng.randint(2, 4)
        Xv = np.round(nprng.randn(m, 2), 3)
        yv = np.array([k % 2 for k in range(m)])
        shared_prov = dsm.multicand_prov(I, mc)[0]
        worlds = [[rng.randint(1, 2) for _ in range(mc["n_units"])] for _ in range(rng.randint(3, 4))]
        worlds[0] = [1] * mc["n_units"]
        if all(w == worlds[0] for w in worlds):
            worlds[-1] = [2] * mc["n_units"]

        def obj():
            return I["imp"].ShapleyImportance(method="neighbor", utility=U.SklearnModelAccuracy(KNeighborsClassifier(1)), nn_k=1)
        a, b = obj().fit(X, y, provenance=shared_prov), obj().fit(X, y, provenance=shared_prov)
        case = dict(part="world-sequence", lits=mc["lits"], nUnits=mc["n_units"], X=X.tolist(), y=y.tolist(), Xv=Xv.tolist(), yv=yv.tolist(), worlds=worlds)
        ctx.case(case, nontrivial=True, sample=case, part="world-sequence")
        try:
            for k, w in enumerate(worlds):
                who = a if k % 2 == 0 else b
                got = list(np.asarray(who.score(Xv, yv, world=np.array(w, dtype=int)), dtype=float))
                ref = list(np.asarray(obj().fit(X, y, provenance=dsm.multicand_prov(I, mc)[0]).score(Xv, yv, world=np.array(w, dtype=int)), dtype=float))
                if got != ref:
                    ctx.mismatch("a 'neighbor' score under world %r depends on the worlds scored before on the same provenance object (call %d of the sequence; fresh objects "
                                 "give another vector)" % (w, k), case, impl=got, spec=ref)
                    break
        except Exception as e:  # noqa
            ctx.mismatch("score() raised in a sequence of scorings under different worlds", case, impl=exc_name(e) + ": " + repr(e))


def utility_evaluations(ctx, I):
    """`models are cloned per evaluation`: consecutive evaluations of ONE utility object on different training subsets hand out DISTINCT fitted models, a later evaluation leaves the
    model of an earlier result as it was, an evaluation equals the evaluation of a fresh utility on the same data (nothing carried over - also for an estimator that would
    continue from its previous state: `warm_start=True`), and the utility's own model object stays unfitted."""
    from sklearn.neighbors import KNeighborsClassifier
    from sklearn.linear_model import SGDClassifier
    from sklearn.base import clone
    U = I["utility"]
    rng = ctx.rng
    for it in range(6 if ctx.tier == "quick" else 40):
        nprng = np.random.RandomState(rng.randrange(2 ** 31))
        n = rng.randint(6, 10)
        X = np.round(nprng.randn(n, 2), 3)
        y = np.array([i % 2 for i in range(n)])
        nprng.shuffle(y)
        Xv = np.round(nprng.randn(6, 2), 3)
        yv = np.array([i % 2 for i in range(6)])
        warm = (it % 2 == 1)
        mk = (lambda: SGDClassifier(warm_start=True, max_iter=2, tol=None, shuffle=False, random_state=0, learning_rate="constant", eta0=0.5)) if warm else (lambda: KNeighborsClassifier(1))
        model = mk()
        util = U.SklearnModelAccuracy(model)
        subsets = []
        for _ in range(4):
            k = rng.randint(3, n)
            idx = sorted(rng.sample(range(n), k))
            if len(set(y[idx].tolist())) < 2:
                continue
            subsets.append(idx)
        case = dict(kind="utility evaluations", estimator=("SGDClassifier(warm_start=True)" if warm else "KNeighborsClassifier(1)"), X=X.tolist(), y=y.tolist(), Xv=Xv.tolist(), yv=yv.tolist(), subsets=subsets)
        ctx.case(case, nontrivial=len(subsets) >= 2, kind="utility_evaluations", warm_start=warm)
        try:
            results, preds, scores = [], [], []
            with warnings.catch_warnings():
                warnings.simplefilter("ignore")
                for idx in subsets:
                    r = util(X[idx], y[idx], Xv, yv)
                    results.append(r)
                    scores.append(float(r.score))
                    preds.append(None if getattr(r, "model", None) is None else np.asarray(r.model.predict(Xv)).tolist())
                fresh = [float(U.SklearnModelAccuracy(mk())(X[idx], y[idx], Xv, yv).score) for idx in subsets]
            models = [getattr(r, "model", None) for r in results]
            if any(m is not None and m is models[j] for i, m in enumerate(models) for j in range(i)):
                ctx.mismatch("two evaluations of one utility hand out one and the same model object (models are cloned per evaluation)", case, impl="shared model object")
            elif any(m is not None and pr is not None and np.asarray(m.predict(Xv)).tolist() != pr for m, pr in zip(models, preds)):
                ctx.mismatch("the model of an earlier utility result was changed by a later evaluation", case, impl="earlier result's predictions changed")
            if any(abs(a - b) > 1e-12 for a, b in zip(scores, fresh)):
                ctx.mismatch("a utility evaluation depends on the evaluations made before it on the same utility object", case, impl=scores, spec=fresh)
            if hasattr(model, "classes_") or hasattr(model, "coef_"):
                ctx.mismatch("the model object held by the utility was fitted in place", case, impl="fitted attributes on utility.model")
        except Exception as e:  # noqa
            ctx.mismatch("utility evaluation raised", case, impl=exc_name(e) + repr(e))


def run(ctx):
    I = load_impl(ctx)
    utility_evaluations(ctx, I)
    addpath_sequences(ctx, I)
    world_sequences(ctx, I)
    import pandas as pd
    from sklearn.neighbors import KNeighborsClassifier
    U = I["utility"]
    rng = ctx.rng
    q = ctx.tier == "quick"
    n_hist = 6 if q else 14          # per worker process (quick: 4 workers, thorough: 8)
    for h in range(n_hist):
        nprng = np.random.RandomState(rng.randrange(2 ** 31))
        # shared pool of datasets
        datasets = []
        for d in range(rng.randint(2, 3)):
            n = rng.randint(3, 4 if q else 5)
            prov_kind = rng.choice(["none", "conj", "series", "ids1d", "pairs2d", "multicand", "multicand", "multicand"])
            mc = None
            if prov_kind == "multicand":
                # explicit map/fork provenance over 3 candidate values: some unit owns alternative versions of its record under two candidate values, so the
                # FULL coalition of the (default) world - every unit at candidate 1 - does not select every training row
                mc = dsm.rand_multicand(rng, n_units=rng.randint(2, 3), n_cands=3, explicit_world=False)
                n = mc["n_rows"]
            X = np.round(nprng.randn(n, 2), 3)
            X[:, 1] = (X[:, 1] > 0).astype(float)           # a binary 'sensitive' column (used by the equalized-odds utility)
            if mc is not None and rng.random() < 0.6:
                # the versions of a record that are absent from the default world are the dirty ones: their numeric feature is off by a few units, so
                # statistics of the whole training set differ visibly from statistics of the rows of the full coalition
                for r in range(n):
                    if not mc["present"][r]:
                        X[r, 0] = round(X[r, 0] + rng.choice([-1, 1]) * rng.uniform(2, 6), 3)
            y = np.array([i % 2 for i in range(n)])
            nprng.shuffle(y)
            m = rng.randint(2, 3) if mc is None else rng.randint(3, 5)
            Xv = np.round(nprng.randn(m, 2), 3)
            Xv[:, 1] = (Xv[:, 1] > 0).astype(float)
            yv = np.array([k % 2 for k in range(m)])
            rng.shuffle(yv)
            n_units = rng.randint(2, 3)
            prov = None
            if mc is not None:
                prov = dsm.multicand_prov(I, mc)[0]
            elif prov_kind == "conj":
                prov = conj_prov(I, [sorted(rng.sample(range(n_units), rng.randint(1, 2))) for _ in range(n)], n_units)[0]
            elif prov_kind in ("ids1d", "pairs2d"):
                # caller-owned integer arrays of unit identifiers (not the canonical 0..n-1), platform int dtype so that no copy is forced
                idpool = sorted(rng.sample(range(10, 90), n_units))
                owner = [idpool[i % n_units] for i in range(n)]
                rng.shuffle(owner)
                prov = np.array(owner, dtype=np.int_) if prov_kind == "ids1d" else np.array([[o, 1] for o in owner], dtype=np.int_)
            ylab = pd.Series(y) if prov_kind == "series" else y
            D = np.abs(X[:, None, 0] - Xv[None, :, 0]) + np.arange(n)[:, None] * 1e-3
            meta = (nprng.rand(n, 1) < 0.6).astype(int)       # per-row training metadata ('trusted' flags) for the metadata-aware model
            datasets.append(dict(X=X, y=ylab, Xv=Xv, yv=yv, prov=prov, D=D, meta=meta, prov_kind=prov_kind, partial=(mc is not None)))
            ctx.dist["provenance=" + prov_kind] += 1
        from sklearn.pipeline import Pipeline
        from sklearn.preprocessing import StandardScaler
        model = KNeighborsClassifier(1) if rng.random() < 0.5 else Pipeline([("sc", StandardScaler()), ("knn", KNeighborsClassifier(1))])
        util_kind = rng.choice(["accuracy", "accuracy", "eqodds", "eqodds", "rocauc"])
        meta_aware = rng.random() < 0.35
        if meta_aware:
            # a model that reads the training metadata it is handed (fits on the rows flagged 1 only): whatever metadata reaches it must be
            # the metadata of THIS fit's rows - none when the current fit was given none
            from sklearn.base import BaseEstimator, ClassifierMixin

            class MetaKNN(BaseEstimator, ClassifierMixin, __import__("datascope.importance.common", fromlist=["x"]).ExtendedModelMixin):
                def fit(self, X, y):
                    self.inner_ = KNeighborsClassifier(1).fit(X, y)
                    self.classes_ = self.inner_.classes_
                    return self

                def fit_extended(self, X, y, metadata=None, X_val=None, y_val=None, metadata_val=None):
                    X, y = np.asarray(X), np.asarray(y)
                    keep = np.asarray(metadata).reshape(len(X), -1)[:, 0] == 1 if metadata is not None else np.ones(len(X), dtype=bool)
                    if not keep.any():
                        keep = np.ones(len(X), dtype=bool)
                    return self.fit(X[keep], y[keep])

                def predict(self, X):
                    return self.inner_.predict(X)

                def predict_extended(self, X, metadata=None):
                    return self.predict(X)

                def predict_proba_extended(self, X, metadata=None):
                    return self.inner_.predict_proba(X)
            model = MetaKNN()
            util_kind = "accuracy"

        def make_util(mdl):
            if util_kind == "eqodds":
                return U.SklearnModelEqualizedOddsDifference(mdl, sensitive_features=1)
            if util_kind == "rocauc":
                return U.SklearnModelRocAuc(mdl)
            return U.SklearnModelAccuracy(mdl)
        util = make_util(model)
        watched = {"model": model}
        for i, d in enumerate(datasets):
            watched.update({"X%d" % i: d["X"], "y%d" % i: d["y"], "Xv%d" % i: d["Xv"], "yv%d" % i: d["yv"], "D%d" % i: d["D"], "meta%d" % i: d["meta"]})
            if d["prov"] is not None:
                watched["prov%d" % i] = d["prov"]
        before = snap(watched)
        methods = [rng.choice(["neighbor", "neighbor", "neighborK", "bruteforce", "montecarlo"]) for _ in range(rng.randint(1, 3))]
        if util_kind == "eqodds":
            # the metric path of this utility (groupings derived from the validation features) is used by bruteforce; montecarlo is left out because
            # its mean_score subsamples half of the (tiny) validation set, which this utility rejects when only one class is drawn
            methods = ["bruteforce"] + [mth if mth != "montecarlo" else "neighbor" for mth in methods[1:]]

        if util_kind == "rocauc":
            # the element-wise form of this utility (what the neighbor method uses); labels are binary and both classes occur in every label array, so no 0/0
            methods = [mth if mth.startswith("neighbor") else "neighbor" for mth in methods]
        if meta_aware:
            methods[0] = "bruteforce"          # only the coalition-evaluating methods fit the model (and so hand it metadata)

        # feature pipelines of the neighbor and bruteforce objects: none / unsupervised (standardise; centre only) / supervised (the selected column depends on
        # the labels of the fit); own or shared.  A bruteforce object fits its pipeline on the whole training set (to extract the validation features) and
        # again on the rows of every coalition, the full coalition last.
        from sklearn.feature_selection import SelectKBest

        def make_pipe(kind):
            steps = {"scale": [("sc", StandardScaler())], "center": [("ce", StandardScaler(with_std=False))], "kbest": [("kb", SelectKBest(k=1))],
                     "scale+kbest": [("sc", StandardScaler()), ("kb", SelectKBest(k=1))]}
            return Pipeline(steps[kind]) if kind != "none" else None
        pipe_kinds = [(rng.choice(["none", "scale", "scale", "kbest", "kbest", "scale+kbest"]) if mth.startswith("neighbor") else
                       rng.choice(["none", "scale", "scale", "center", "center", "kbest", "scale+kbest"]) if mth == "bruteforce" else "none") for mth in methods]
        if util_kind == "eqodds":
            # this utility reads its sensitive feature as column 1 of the features it is handed: a pipeline that drops columns is not a valid combination
            pipe_kinds = [pk if pk in ("none", "scale", "center") else "scale" for pk in pipe_kinds]
        share_pipe = rng.random() < 0.25
        shared_pipes = {}

        def pipe_for(o, fresh=False):
            if fresh or not share_pipe:
                return make_pipe(pipe_kinds[o])
            if pipe_kinds[o] not in shared_pipes:
                shared_pipes[pipe_kinds[o]] = make_pipe(pipe_kinds[o])
            return shared_pipes[pipe_kinds[o]]

        def make(method, utility=None, pipeline=None):
            kw = {}
            if method == "neighborK":
                kw = dict(nn_k=2)
            if method == "montecarlo":
                kw = dict(mc_iterations=3, mc_truncation_steps=0, seed=11)
            if pipeline is not None:
                kw["pipeline"] = pipeline
            meth = "neighbor" if method.startswith("neighbor") else method
            return I["imp"].ShapleyImportance(method=meth, utility=(util if utility is None else utility), **kw)
        objs = [make(mth, pipeline=pipe_for(o)) for o, mth in enumerate(methods)]

        def feature_distance(hold):
            # with a pipeline the distances must come from the EXTRACTED features the callable is handed; the matrix it returns is kept and watched
            def f(A, B):
                A, B = np.asarray(A, dtype=float), np.asarray(B, dtype=float)
                Dm = np.abs(A[:, None, :] - B[None, :, :]).sum(axis=2) + np.arange(len(A))[:, None] * 1e-3
                hold.append((Dm, Dm.copy()))
                return Dm
            return f
        fitted = [None] * len(objs)
        ops = []
        n_ops = rng.randint(4, 10 if q else 20)
        bad = False
        last_score = {}
        planned = [False] * len(objs)
        with_meta = {}          # step -> was this fit given the dataset's metadata?
        fit_meta = [None] * len(objs)
        plan_fit = [None] * len(objs)          # dataset each object is fitted on at this point of the plan
        scored = [False] * len(objs)           # ... and whether it was scored since that fit
        refit_on = [None] * len(objs)

        def plan_edit(di):
            # the caller edits the training arrays of dataset di in place: a row of X repaired, a label flipped (both classes stay present), or the label
            # array replaced by a new object; every object fitted on di must be fitted again before its next score
            yy = np.asarray(d_labels[di])
            what = rng.choice(["X", "X", "Xy", "y", "y-new"])
            row = rng.randrange(len(yy))
            flippable = [r for r in range(len(yy)) if (yy == yy[r]).sum() > 1]
            if what != "X" and not flippable:
                what = "X"
            e = dict(what=what, row=row, x0=round(rng.gauss(0, 2), 3), x1=float(rng.randrange(2)))
            if what != "X":
                e["row"] = rng.choice(flippable)
                d_labels[di] = yy.copy()
                d_labels[di][e["row"]] = 1 - yy[e["row"]]
            ops.append(("edit", e, di))
            for oo in range(len(objs)):
                if plan_fit[oo] == di:
                    planned[oo] = False
                    refit_on[oo] = di
        d_labels = [np.asarray(d["y"]).copy() for d in datasets]
        with_pipe = [oo for oo in range(len(objs)) if pipe_kinds[oo] != "none"]
        bf_pipe = [oo for oo in with_pipe if methods[oo] == "bruteforce"]
        partial = [dd for dd in range(len(datasets)) if datasets[dd]["partial"]]
        if bf_pipe and partial and rng.random() < 0.9:
            # the history opens with a bruteforce object WITH a pipeline fitted on a provenance whose full coalition does not select every row, scored
            # repeatedly: the same call twice, then every validation set once more; every score is also compared with a fresh object's
            o1, d1, dv = rng.choice(bf_pipe), rng.choice(partial), rng.randrange(len(datasets))
            ops += [("fit", o1, d1), ("score", o1, dv), ("score", o1, dv)] + [("score", o1, dd) for dd in rng.sample(range(len(datasets)), len(datasets))]
            plan_fit[o1], planned[o1], scored[o1] = d1, True, True
            ctx.dist["opens_with_bruteforce_pipeline_partial_provenance_repeats"] += 1
        if not meta_aware and with_pipe and rng.random() < 0.8:
            # the history opens with the data-repair loop on an object with a pipeline: fit, score, in-place repair, fit with the same objects, score
            o0, d0 = with_pipe[0], rng.randrange(len(datasets))
            ops += [("fit", o0, d0), ("score", o0, rng.randrange(len(datasets)))]
            plan_fit[o0], planned[o0] = d0, True
            plan_edit(d0)
            ops += [("fit", o0, d0), ("score", o0, rng.randrange(len(datasets)))]
            planned[o0], scored[o0], refit_on[o0] = True, True, None
        for k in range(n_ops):
            cand = sorted({plan_fit[oo] for oo in range(len(objs)) if plan_fit[oo] is not None and scored[oo]})
            if cand and not meta_aware and rng.random() < 0.3:
                plan_edit(rng.choice(cand))
                continue
            o = rng.randrange(len(objs))
            if not planned[o] or rng.random() < 0.35:
                di = rng.randrange(len(datasets))
                if refit_on[o] is not None and rng.random() < 0.75:
                    di = refit_on[o]          # the repair loop: fit again with the same (edited) array objects
                refit_on[o] = None
                with_meta[len(ops)] = bool(meta_aware and rng.random() < 0.5)
                ops.append(("fit", o, di))
                planned[o] = True
                plan_fit[o], scored[o] = di, False
            else:
                ops.append(("score", o, rng.randrange(len(datasets))))
                scored[o] = True
        if meta_aware:
            # the history opens with: fit WITH metadata, refit the same object on other data WITHOUT metadata, score
            ops = [("fit", 0, 0), ("fit", 0, 1), ("score", 0, rng.randrange(len(datasets)))] + ops
            with_meta = {0: True, 1: False, **{k + 3: v for k, v in with_meta.items()}}
        case = dict(methods=methods, pipelines=pipe_kinds, provenances=[d["prov_kind"] for d in datasets], pipeline_shared=share_pipe, utility=util_kind, ops=ops, meta_aware=meta_aware, fits_given_metadata=sorted(k for k, v in with_meta.items() if v), datasets=[dict(X=d["X"].tolist(), y=np.asarray(d["y"]).tolist(), Xv=d["Xv"].tolist(), yv=d["yv"].tolist(),
                                                           prov=(np.asarray(getattr(d["prov"], "data", d["prov"])).tolist() if d["prov"] is not None else None)) for d in datasets])
        for k, (op, o, di) in enumerate(ops):
            d = datasets[di]
            if op == "edit":
                # the CALLER's own in-place edit of its training arrays (its right; not a call of the library): o is the edit
                e = o
                if e["what"] in ("X", "Xy"):
                    d["X"][e["row"], 0] = e["x0"]
                    d["X"][e["row"], 1] = e["x1"]
                if e["what"] in ("y", "Xy"):
                    if isinstance(d["y"], pd.Series):
                        d["y"].iloc[e["row"]] = 1 - d["y"].iloc[e["row"]]
                    else:
                        d["y"][e["row"]] = 1 - d["y"][e["row"]]
                if e["what"] == "y-new":
                    ynew = d["y"].copy()
                    if isinstance(ynew, pd.Series):
                        ynew.iloc[e["row"]] = 1 - ynew.iloc[e["row"]]
                    else:
                        ynew[e["row"]] = 1 - ynew[e["row"]]
                    d["y"] = ynew
                    watched["y%d" % di] = ynew
                before = snap(watched)          # the reference snapshots follow the caller's own edit
                last_score = {kk: v for kk, v in last_score.items() if kk[1] != di}      # scores of fits on the old contents are not repeats
                for oo in range(len(objs)):
                    if fitted[oo] == di:
                        fitted[oo] = None          # the plan fits such an object again before it is scored
                ctx.dist["edit=" + e["what"]] += 1
                continue
            try:
                with warnings.catch_warnings():
                    warnings.simplefilter("ignore")
                    g0 = global_state()
                    if op == "fit":
                        if fitted[o] is None and objs[o].X_train is d["X"]:
                            ctx.dist["refit_same_array_object_after_edit"] += 1
                        objs[o].nn_distance = (lambda A, B, D=None: None)
                        fit_meta[o] = d["meta"] if with_meta.get(k) else None
                        objs[o].fit(d["X"], d["y"], metadata=fit_meta[o], provenance=d["prov"])
                        fitted[o] = di
                        if global_state_diff(g0, global_state()):
                            ctx.mismatch("fit() changed process-global state as a side effect", dict(case, step=k), impl=global_state_diff(g0, global_state()),
                                         spec="np.geterr(), np.geterrcall(), warnings.filters and os.environ are the same before and after the call")
                            bad = True
                            break
                    else:
                        fd = datasets[fitted[o]]
                        held = []
                        if pipe_kinds[o] == "none":
                            # distance matrix between the fitted training set and this validation set; the callable hands out a matrix it keeps
                            Dm = np.abs(fd["X"][:, None, 0] - d["Xv"][None, :, 0]) + np.arange(len(fd["X"]))[:, None] * 1e-3
                            held.append((Dm, Dm.copy()))
                            objs[o].nn_distance = lambda A, B, Dm=Dm: Dm
                        else:
                            objs[o].nn_distance = feature_distance(held)
                        s = list(np.asarray(objs[o].score(d["Xv"], d["yv"]), dtype=float))
                        g1 = global_state()
                        if global_state_diff(g0, g1):
                            ctx.mismatch("score() changed process-global state as a side effect", dict(case, step=k), impl=global_state_diff(g0, g1),
                                         spec="np.geterr(), np.geterrcall(), warnings.filters and os.environ are the same before and after the call")
                            bad = True
                            break
                        if any(Dm.tobytes() != keep.tobytes() for Dm, keep in held):
                            ctx.mismatch("score() modified the distance matrix returned by the distance callable", dict(case, step=k), impl="distance matrix changed")
                            bad = True
                            break
                        import sklearn.base as _skb
                        fresh = make(methods[o], utility=make_util(_skb.clone(model)), pipeline=pipe_for(o, fresh=True))      # fresh importance object, fresh utility, fresh pipeline
                        if pipe_kinds[o] == "none":
                            fresh.nn_distance = lambda A, B, Dm=held[0][1]: Dm.copy()
                        else:
                            fresh.nn_distance = feature_distance([])
                        fs = list(np.asarray(fresh.fit(fd["X"], fd["y"], metadata=fit_meta[o], provenance=fd["prov"]).score(d["Xv"], d["yv"]), dtype=float))
                        if s != fs and not (methods[o] == "montecarlo"):
                            ctx.mismatch("score differs from a fresh object fitted on the same data (state leaked from earlier calls)", dict(case, step=k), impl=s, spec=fs)
                            bad = True
                            break
                        key = (o, fitted[o], fit_meta[o] is not None, di)          # same object, same fit arguments (data AND metadata), same validation data
                        if methods[o] != "montecarlo" and key in last_score and last_score[key] != s:
                            ctx.mismatch("repeating the same score call returned a different vector", dict(case, step=k), impl=s, spec=last_score[key])
                            bad = True
                            break
                        last_score[key] = s
            except Exception as e:  # noqa
                if isinstance(e, IndexError) and methods[o] == "neighborK" and datasets[fitted[o] if fitted[o] is not None else di]["prov"] is None and False:
                    pass
                ctx.mismatch("call raised", dict(case, step=k), impl=exc_name(e) + repr(e))
                bad = True
                break
            after = snap(watched)
            changed = [name for name in before if before[name] != after[name]]
            if changed:
                ctx.mismatch("a caller-owned object was modified by %s()" % op, dict(case, step=k), impl=changed)
                bad = True
                break
        for pk in pipe_kinds:
            ctx.dist["pipeline=" + pk] += 1
        n_fit = len({di for op, o, di in ops if op == "fit"})
        n_score = sum(1 for op, _, _ in ops if op == "score")
        ctx.case(case, nontrivial=(n_fit >= 2 and n_score >= 2), sample=dict(methods=methods, ops=ops), n_objs=len(objs), utility=util_kind)
        ctx.maxi(ops=len(ops))
        for mth in methods:
            ctx.dist["method=" + mth] += 1
        if ctx.elapsed() > (600 if q else 2400):
            break
    return ctx.finish("other", "Partial by nature. Proved for the model (C20_score_pure, C20_last_fit_wins, C20_repeat, C20_independent): fit/score as a state machine in "
                      "which score leaves the state unchanged and its result depends only on the last fit. Aliasing and in-place writes into caller-owned buffers are not "
                      "expressible in a pure model; they are decided here by byte snapshots of every shared object around random call histories and by comparing each "
                      "score with a fresh object's.", RULE)
