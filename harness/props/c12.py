"""C12 — fork, indexing and join act row-wise on provenance; default and group-id provenance."""
import numpy as np
import gen
import spec
from props.common import load_impl, make_prov, exc_name, truth_table_impl, rand_slice, slice_json, rand_keys, rand_ckeys

RULE = ("random DNF containers x (fork by random repeat vectors incl. 0; selection by slice (bounds open / in range / negative / out of range on either side, "
        "steps open, positive and NEGATIVE: p[::-1], p[3::-1], p[::-2], p[2:-100:-1], p[-100:100:2] ...; also applied to the result of a fork) / index list or array / "
        "boolean mask as array or plain list; the expected sub-mask of a slice is the plain Python list of row truth values sliced with the same slice object, the model "
        "is asked for the index list range(*slice.indices(n)); default provenance "
        "through Importance.fit; Provenance(data=ids) and fit(provenance=ids) for arbitrary integer identifiers (negative, gaps, unsorted); "
        "join of two containers) x ALL assignments; compared with the row-wise definition and with the Lean model Ds.Prov.fork/select/ofGroups/"
        "default/join. Non-trivial = result has >= 2 rows with different truth tables; distinct = distinct (container, operation).")


def table_of(prov, n_units, C=2):
    return truth_table_impl(prov, n_units, C)


def run(ctx):
    I = load_impl(ctx)
    P = I["provenance"]
    rng = ctx.rng
    n_cases = 100 if ctx.tier == "quick" else 1200
    for it in range(n_cases):
        kind = ["fork", "select", "groups", "default", "join"][it % 5]
        label = kind
        n_units = rng.randint(1, 4)
        asg = spec.assignments(n_units)
        if kind in ("fork", "select"):
            exprs = [gen.rand_expr_flat(rng, n_units, 2, 3, 2) for _ in range(rng.randint(1, 5) if kind == "fork" else rng.randint(1, 7))]
            # unit identifiers and candidate LABELS of the caller's own (not the positions 0..n-1 / the default candidates 0, 1): a derived container (fork,
            # selection) must keep them - it is queried with arrays AND with {unit key: candidate label} dictionaries, and its unit / candidate lists are compared
            ukeys, uks = rand_keys(rng, n_units)
            ckeys, cks = rand_ckeys(rng, 2)
            prov, units, es = make_prov(I, exprs, n_units, keys=(None if uks == "positional" else ukeys), ckeys=(None if cks == "positional" else ckeys))
            ctx.dist["derived_container_unit_keys=%s candidate_keys=%s" % (uks, cks)] += 1

            def tab(pv, ukeys=ukeys, ckeys=ckeys, n_units=n_units, asg=asg, prov=prov):
                t = table_of(pv, n_units)
                td = [[bool(x) for x in np.asarray(pv.query({ukeys[u]: ckeys[a[u]] for u in range(n_units)})).tolist()] for a in asg]
                if td != t:
                    return dict(array_query=t, dict_query=td, note="the derived container answers a {unit key: candidate label} query differently from the array query")
                if [str(x) for x in pv.candidates] != [str(x) for x in prov.candidates] or [str(x) for x in pv.units] != [str(x) for x in prov.units]:
                    return dict(candidates=[str(x) for x in pv.candidates], units=[str(x) for x in pv.units], note="the derived container lost the unit keys / candidate labels")
                return t
            base = [[spec.expr_true(e, a) for e in exprs] for a in asg]
            if kind == "fork":
                sizes = [rng.randint(0, 3) for _ in exprs]
                arg = sizes if rng.random() < 0.5 else np.array(sizes)
                try:
                    res = tab(prov.fork(arg))
                except Exception as e:  # noqa
                    res = exc_name(e)
                want = [[x for x, s in zip(row, sizes) for _ in range(s)] for row in base]
                mop = {"op": "fork", "sizes": sizes}
                case = dict(kind=kind, nUnits=n_units, exprs=exprs, sizes=sizes, unitKeys=[str(k) for k in ukeys], candidateKeys=[str(k) for k in ckeys])
                mops = [mop]
                if rng.random() < 0.4:
                    # a selection of a fork is again row-wise
                    sl = rand_slice(rng, sum(sizes))
                    try:
                        res = tab(prov.fork(arg)[sl])
                    except Exception as e:  # noqa
                        res = exc_name(e)
                    want = [row[sl] for row in want]
                    mops.append({"op": "select", "idx": list(range(*sl.indices(sum(sizes))))})
                    case = dict(case, then_slice=slice_json(sl))
                    label = "fork followed by a slice selection"
                    ctx.dist["fork_then_slice"] += 1
            else:
                n = len(exprs)
                mode = rng.choice(["slice", "slice", "list", "mask"])
                if mode == "slice":
                    a, b, st = rng.randrange(0, n), rng.randrange(0, n + 1), rng.choice([1, 1, 2, -1])
                    sl = slice(a, b, st) if st > 0 else slice(b, a, st) if a != b else slice(None, None, -1)
                    if rng.random() < 0.6:
                        sl = rand_slice(rng, n)
                    idx = list(range(*sl.indices(n)))       # what the model is asked for; the expectation below slices the plain list
                    sel = sl
                    ctx.dist["slice_step=%s" % ("open" if sl.step is None else "positive" if sl.step > 0 else "negative")] += 1
                    if sl.step is not None and sl.step < 0 and (sl.stop is None or sl.stop < -n):
                        ctx.dist["slice_negative_step_open_or_out_of_range_stop"] += 1
                elif mode == "list":
                    idx = [rng.randrange(n) for _ in range(rng.randint(1, n + 1))]
                    if n >= 3 and rng.random() < 0.4:
                        # a batch of positions that LOOKS like a run (last - first + 1 == count) but is shuffled inside or repeats a row, e.g. [1, 3, 2, 4],
                        # [0, 2, 2, 3]; also negative positions counted from the end
                        a_ = rng.randrange(0, n - 2)
                        b_ = rng.randrange(a_ + 2, n)
                        mid = [rng.randrange(a_, b_ + 1) for _ in range(b_ - a_ - 1)] if rng.random() < 0.5 else rng.sample(range(a_ + 1, b_), b_ - a_ - 1)
                        idx = [a_] + mid + [b_]
                        if rng.random() < 0.3:
                            idx = [i - n if rng.random() < 0.5 else i for i in idx]
                    sel = idx if rng.random() < 0.5 else np.array(idx)
                else:
                    mask = [rng.random() < 0.6 for _ in range(n)]
                    idx = [i for i, m in enumerate(mask) if m]
                    sel = np.array(mask) if rng.random() < 0.5 else list(mask)      # Sequence[bool] is part of the signature
                try:
                    res = tab(prov[sel])
                except Exception as e:  # noqa
                    res = exc_name(e)
                want = [row[sl] for row in base] if mode == "slice" else [[row[i] for i in idx] for row in base]
                mops = [{"op": "select", "idx": [i % n for i in idx]}]        # the model is asked for the normalised positions
                case = dict(kind=kind, nUnits=n_units, exprs=exprs, mode=mode, idx=idx, unitKeys=[str(k) for k in ukeys], candidateKeys=[str(k) for k in ckeys])
                if mode == "slice":
                    case["slice"] = slice_json(sl)
            model = ctx.model({"op": "history", "prov": {"nUnits": n_units, "exprs": exprs}, "ops": mops + [{"op": "table"}]})
            mres = model["ok"][-1] if model else None
        elif kind == "groups":
            n_rows = rng.randint(1, 7)
            pool = rng.sample(range(-9, 40), rng.randint(1, 4))
            pool = [x for x in pool if x != -1] or [3]
            if it % 10 == 2:
                # distinct identifiers whose largest one equals (number of identifiers - 1) although some are negative
                k = rng.randint(2, 4)
                pool = list(range(k))
                for j in rng.sample(range(k - 1), rng.randint(1, k - 1)):
                    pool[j] = -2 - j - rng.randrange(3) * 4
                pool = sorted(set(pool))
                n_rows = max(n_rows, len(pool))
            ids = [rng.choice(pool) for _ in range(n_rows)]
            for j, x in enumerate(pool[:n_rows]):
                ids[j] = x
            us = sorted(set(ids))
            n_units = len(us)
            asg = spec.assignments(n_units)
            want = [[a[us.index(g)] == 1 for g in ids] for a in asg]
            case = dict(kind=kind, ids=ids)
            try:
                via = rng.choice(["ctor", "fit"])
                if via == "ctor":
                    prov = P.Provenance(data=np.array(ids))
                else:
                    imp = I["imp"].ShapleyImportance(method="neighbor", utility=None)
                    imp.fit(np.zeros((n_rows, 1)), np.zeros(n_rows, dtype=int), provenance=np.array(ids))
                    prov = imp.provenance
                res = table_of(prov, n_units)
                if list(prov.units) != us:
                    res = dict(units=list(prov.units), table=res)
            except Exception as e:  # noqa
                res = exc_name(e)
            model = ctx.model({"op": "history", "prov": {"nUnits": n_units, "groups": ids}, "ops": [{"op": "table"}]})
            mres = model["ok"][0] if model else None
        elif kind == "default":
            n_rows = rng.randint(1, 5)
            n_units = n_rows
            asg = spec.assignments(n_units)
            want = [[x == 1 for x in a] for a in asg]
            case = dict(kind=kind, n=n_rows)
            try:
                imp = I["imp"].ShapleyImportance(method="neighbor", utility=None)
                imp.fit(np.zeros((n_rows, 2)), np.zeros(n_rows, dtype=int))
                res = table_of(imp.provenance, n_units)
                if res == want and n_rows >= 2:
                    # the caller edits / shrinks the provenance object this fit handed out; the default provenance of ANY later fit of a same-sized
                    # training set (this object or another one) must again be one row per unit
                    pr = imp.provenance
                    pr[0] = pr[n_rows - 1]
                    if rng.random() < 0.5:
                        del pr[n_rows - 1]
                    imp_b = I["imp"].ShapleyImportance(method="neighbor", utility=None)
                    imp_b.fit(np.ones((n_rows, 2)), np.zeros(n_rows, dtype=int))
                    res_b = table_of(imp_b.provenance, n_units)
                    imp.fit(np.ones((n_rows, 2)), np.zeros(n_rows, dtype=int))
                    res_c = table_of(imp.provenance, n_units)
                    if res_b != want or res_c != want:
                        case = dict(case, sequence="fit; edit the resulting default provenance in place; fit again without provenance")
                        res = res_b if res_b != want else res_c
            except Exception as e:  # noqa
                res = exc_name(e)
            model = ctx.model({"op": "history", "prov": {"nUnits": n_units, "default": True}, "ops": [{"op": "table"}]})
            mres = model["ok"][0] if model else None
        else:  # join
            n1, n2 = rng.randint(1, 2), rng.randint(1, 2)
            e1 = [gen.rand_expr_flat(rng, n1, 2, 2, 2) for _ in range(rng.randint(1, 2))]
            e2 = [gen.rand_expr_flat(rng, n2, 2, 2, 2) for _ in range(rng.randint(1, 2))]
            p1, _, _ = make_prov(I, e1, n1)
            p2, _, _ = make_prov(I, e2, n2)
            n_units = n1 + n2
            asg = spec.assignments(n_units)
            want = [[spec.expr_true(x, a[:n1]) and spec.expr_true(y, a[n1:]) for x in e1 for y in e2] for a in asg]
            case = dict(kind=kind, n1=n1, n2=n2, e1=e1, e2=e2)
            try:
                j = p1.join(p2, prefix="l", other_prefix="r")
                res = table_of(j, n_units)
            except Exception as e:  # noqa
                res = exc_name(e)
            model = ctx.model({"op": "join", "p": {"nUnits": n1, "exprs": e1}, "q": {"nUnits": n2, "exprs": e2}})
            mres = model["ok"]["table"] if model else None
        nontriv = isinstance(want, list) and len(want) > 0 and len({tuple(r[i] for r in want) for i in range(len(want[0]))}) >= 2
        ctx.case(case, nontrivial=nontriv, sample=case, kind=kind)
        ctx.maxi(units=n_units, rows=(len(want[0]) if want else 0))
        if res != want:
            ctx.mismatch("%s does not act row-wise" % label, case, impl=res, model=mres, spec=want,
                         tag=("F10-join" if kind == "join" else None))
        if mres is not None and mres != want:
            ctx.mismatch("model disagrees with implementation and definition on %s" % kind, case, impl=res, model=mres, spec=want,
                         failing_input=False, broken="corr:Ds.Prov.%s / theorem C12_%s" % (kind, kind))
        if ctx.elapsed() > (400 if ctx.tier == "quick" else 1800):
            break
    return ctx.finish("proof", "Theorems C12_* state that the modelled fork/select/default/ofGroups/join act row-wise on the query result for every "
                      "container and assignment; this run compared the real operations with the definition and the model.", RULE)
