"""C18 — results do not depend on how data and labels are represented."""
import warnings
import numpy as np
from props.common import load_impl, exc_name

RULE = ("random small datasets (3-8 rows, 2 real features, 2-3 classes, 2-4 validation points) x methods (neighbor with the default distance, bruteforce, montecarlo "
        "with a fixed seed) rendered as: ndarray / DataFrame (default, string and shuffled-integer index) features; ndarray / Series labels; feature DataFrames and label Series whose row indexes are "
        "drawn INDEPENDENTLY of each other (default, permuted 0..n-1, reversed, gapped, string, duplicated values; DataFrame+Series, ndarray+Series, DataFrame+ndarray; for the "
        "training AND the validation inputs; int or string labels) - rows are matched by position, all of these are accepted by all three methods on the pinned tree; integer (contiguous, gapped-from-0, negative) / float / string "
        "labels (order-preserving renaming); dense features vs a FunctionTransformer->csr_matrix pipeline; a stateless feature-extraction pipeline (FunctionTransformer) "
        "vs pre-transformed features, and for the neighbor method a stateful one (StandardScaler) vs features transformed by an independently fitted copy. Every rendering a method accepts must give the same score vector (1e-9) as the plain ndarray/int rendering; a documented "
        "rejection (AssertionError/ValueError/TypeError raised before any score is produced) is recorded as 'not accepted', not a violation. Non-trivial = base score "
        "vector not constant; distinct = distinct (dataset, method, rendering).")


# representations a method rejects on the pinned tree (the property quantifies over "every method that accepts the representation"); every other
# (method, representation) pair generated here is accepted there, and rejecting it is reported
REJECTED_ON_PINNED_TREE = {("bruteforce", "float_labels"), ("montecarlo", "float_labels"), ("bruteforce", "sparse_pipeline"), ("montecarlo", "sparse_pipeline")}


def run(ctx):
    I = load_impl(ctx)
    import pandas as pd
    from scipy.sparse import csr_matrix
    from sklearn.neighbors import KNeighborsClassifier
    from sklearn.pipeline import Pipeline
    from sklearn.preprocessing import FunctionTransformer, StandardScaler
    from sklearn.base import BaseEstimator, ClassifierMixin

    class HardNN(BaseEstimator, ClassifierMixin):
        """a 1-NN classifier WITHOUT predict_proba: a metric that needs probabilities gets the one-hot encoding of its hard predictions against the class list"""
        def fit(self, Xf, yf):
            self.m_ = KNeighborsClassifier(1).fit(Xf, yf)
            self.classes_ = self.m_.classes_
            return self

        def predict(self, Xf):
            return self.m_.predict(Xf)
    U = I["utility"]
    rng = ctx.rng
    q = ctx.tier == "quick"
    n_cases = 12 if q else 80
    accepted = {}
    for it in range(n_cases):
        method = ["neighbor", "bruteforce", "montecarlo", "montecarlo"][it % 4]
        mc_trunc = (it % 4 == 3)          # montecarlo with truncation ON: the band is centred on utility.mean_score, one more consumer of the features
        n = rng.randint(3, 8 if method == "neighbor" else 5) if not mc_trunc else rng.randint(7, 9)
        nprng = np.random.RandomState(rng.randrange(2 ** 31))
        X = np.round(nprng.randn(n, 2), 3)
        c = rng.randint(2, 3)
        auc_case = method in ("bruteforce", "montecarlo") and not mc_trunc and it % 8 in (1, 2, 5)
        if auc_case:
            c = 2           # binary labels: the case is also run under a ROC-AUC utility (below)
        y = np.array([i % c for i in range(n)])
        nprng.shuffle(y)
        m = rng.randint(2, 4) if not mc_trunc else rng.randint(8, 12)
        Xv = np.round(nprng.randn(m, 2), 3)
        yv = np.array([rng.randrange(c) for _ in range(m)])
        if auc_case:
            m = max(m, 3)
            Xv = np.round(nprng.randn(m, 2), 3)
            yv = np.array([j % 2 for j in range(m)])
            nprng.shuffle(yv)
        kw = {}
        if method == "montecarlo":
            kw = dict(mc_iterations=3, mc_truncation_steps=0, seed=rng.randrange(1000))
            if mc_trunc:
                kw = dict(mc_iterations=6, mc_truncation_steps=1, mc_tolerance=rng.choice([0.2, 0.35, 0.5]), seed=rng.randrange(1000))

        ukind = ["accuracy"]

        def score(Xa, ya, Xva, yva, pipeline=None, **more):
            util = U.SklearnModelAccuracy(KNeighborsClassifier(1)) if ukind[0] == "accuracy" else U.SklearnModelRocAuc(HardNN())
            with warnings.catch_warnings():
                warnings.simplefilter("ignore")
                imp = I["imp"].ShapleyImportance(method=method, utility=util, pipeline=pipeline, **dict(kw, **more))
                return list(np.asarray(imp.fit(Xa, ya).score(Xva, yva), dtype=float))
        case = dict(method=method, X=X.tolist(), y=y.tolist(), Xv=Xv.tolist(), yv=yv.tolist(), kw=kw)
        try:
            base = score(X, y, Xv, yv)
        except Exception as e:  # noqa
            ctx.mismatch("plain rendering raised", case, impl=exc_name(e) + repr(e))
            continue
        str_map = {k: "c%d" % k for k in range(c)}
        flt_map = {k: k * 0.5 + 0.25 for k in range(c)}
        gap_map = {k: [0, 2, 5, 9][k] for k in range(c)}           # integer labels that start at 0 but are not contiguous
        neg_map = {k: [-7, -1, 4, 30][k] for k in range(c)}
        perm_idx = list(range(100, 100 + n))
        rng.shuffle(perm_idx)
        renderings = {
            "dataframe": lambda: (pd.DataFrame(X, columns=["a", "b"]), y, pd.DataFrame(Xv, columns=["a", "b"]), yv, None),
            "dataframe_str_index": lambda: (pd.DataFrame(X, columns=["a", "b"], index=["r%d" % i for i in range(n)]), y, pd.DataFrame(Xv, columns=["a", "b"], index=["v%d" % i for i in range(m)]), yv, None),
            "series_labels": lambda: (X, pd.Series(y), Xv, pd.Series(yv), None),
            "dataframe_series_shuffled_index": lambda: (pd.DataFrame(X, columns=["a", "b"], index=perm_idx), pd.Series(y, index=perm_idx), pd.DataFrame(Xv, columns=["a", "b"]), pd.Series(yv), None),
            "gapped_int_labels": lambda: (X, np.array([gap_map[k] for k in y]), Xv, np.array([gap_map[k] for k in yv]), None),
            "negative_int_labels": lambda: (X, np.array([neg_map[k] for k in y]), Xv, np.array([neg_map[k] for k in yv]), None),
            "float_labels": lambda: (X, np.array([flt_map[k] for k in y]), Xv, np.array([flt_map[k] for k in yv]), None),
            "string_labels": lambda: (X, np.array([str_map[k] for k in y]), Xv, np.array([str_map[k] for k in yv]), None),
            "sparse_pipeline": lambda: (X, y, Xv, yv, Pipeline([("sp", FunctionTransformer(csr_matrix))])),
            "stateful_pipeline_vs_pretransformed": lambda: (X, y, Xv, yv, Pipeline([("sc", StandardScaler())])),
            "scale_pipeline_vs_pretransformed": lambda: (X, y, Xv, yv, Pipeline([("f", FunctionTransformer(lambda A: np.asarray(A) * np.array([3.0, 0.2]) + np.array([1.0, -2.0])))])),
            "scale_pipeline_preextract_vs_pretransformed": lambda: (X, y, Xv, yv, Pipeline([("f", FunctionTransformer(lambda A: np.asarray(A) * np.array([3.0, 0.2]) + np.array([1.0, -2.0])))])),
            "map_pipeline": lambda: (np.hstack([X, np.zeros((n, 1))]), y, np.hstack([Xv, np.zeros((m, 1))]), yv, Pipeline([("cut", FunctionTransformer(lambda A: np.asarray(A)[:, :2]))])),
        }
        # pandas containers whose row indexes are NOT the default one and do NOT match between features and labels: the library takes rows by POSITION
        # (on the pinned tree every combination below is accepted by all three methods and gives the ndarray scores), so the label column of a shuffled /
        # re-sorted table next to a freshly built feature frame, string keys, reversed, gapped or even duplicated index values must change nothing.
        def rand_index(k, kind):
            if kind == "default":
                return None
            if kind == "perm":                      # 0..k-1 in another order: every label of a default RangeIndex exists, at another position
                ix = list(range(k))
                while k > 1 and ix == list(range(k)):
                    rng.shuffle(ix)
                return ix
            if kind == "reversed":
                return list(range(k - 1, -1, -1))
            if kind == "gapped":
                return rng.sample(range(-5, 60), k)
            if kind == "strings":
                return ["r%02d" % x for x in rng.sample(range(100), k)]
            return [rng.randrange(2) for _ in range(k)]          # "dup": repeated index values

        idx_info = {}

        def pandas_mix(name, kinds, labels="int"):
            # kinds = (X_train, y_train, X_val, y_val), each "ndarray" or an index kind; indexes of features and labels are drawn independently
            ixs = [None if kd == "ndarray" else rand_index(k, kd) for kd, k in zip(kinds, (n, n, m, m))]
            idx_info[name] = dict(kinds=list(kinds), labels=labels, X_train_index=ixs[0], y_train_index=ixs[1], X_val_index=ixs[2], y_val_index=ixs[3])
            ly, lyv = (y, yv) if labels == "int" else (np.array([str_map[k] for k in y]), np.array([str_map[k] for k in yv]))

            def mk():
                fx = lambda A, kd, ix: A if kd == "ndarray" else pd.DataFrame(A, columns=["a", "b"], index=ix)      # noqa: E731
                fy = lambda a, kd, ix: a if kd == "ndarray" else pd.Series(a, index=ix)      # noqa: E731
                return fx(X, kinds[0], ixs[0]), fy(ly, kinds[1], ixs[1]), fx(Xv, kinds[2], ixs[2]), fy(lyv, kinds[3], ixs[3]), None
            renderings[name] = mk
        pandas_mix("dataframe_default_series_shuffled_index", ("default", "perm", "default", "perm"))
        pandas_mix("dataframe_shuffled_series_default_index", (rng.choice(["perm", "reversed"]), "default", rng.choice(["perm", "reversed"]), "default"))
        pandas_mix("ndarray_series_shuffled_index", ("ndarray", rng.choice(["perm", "gapped", "strings"]), "ndarray", rng.choice(["perm", "gapped", "strings"])))
        IX = ["default", "perm", "perm", "reversed", "gapped", "strings", "dup"]
        for j in range(2 if q else 4):
            kinds = tuple(rng.choice(["ndarray"] + IX) for _ in range(4))
            if j == 0:
                kinds = (rng.choice(IX), rng.choice(IX[1:]), kinds[2], kinds[3])          # training: DataFrame + Series with a non-default label index
            elif j == 1:
                kinds = (kinds[0], kinds[1], rng.choice(IX), rng.choice(IX[1:]))          # validation likewise
            pandas_mix("pandas_mixed_index_%d" % j, kinds, labels=rng.choice(["int", "int", "str"]))
        for name, mk in renderings.items():
            Xa, ya, Xva, yva, pipe = mk()
            rcase = dict(case, rendering=name)
            if name in idx_info:
                rcase["pandas"] = idx_info[name]
            ref = base
            if name == "stateful_pipeline_vs_pretransformed":
                if method != "neighbor":
                    continue              # bruteforce / montecarlo refit the pipeline per coalition: only the neighbor method extracts features once
                sc = StandardScaler().fit(X)
                try:
                    ref = score(sc.transform(X), y, sc.transform(Xv), yv)      # features transformed by an independently fitted copy
                except Exception as e:  # noqa
                    ctx.mismatch("pre-transformed rendering raised", rcase, impl=exc_name(e) + repr(e))
                    continue
            more = {}
            if name == "scale_pipeline_preextract_vs_pretransformed":
                # montecarlo with mc_preextract=True: the (map) pipeline is applied ONCE up front, to the training and the validation features alike
                if method != "montecarlo":
                    continue
                more = {"mc_preextract": True}
            if name in ("scale_pipeline_vs_pretransformed", "scale_pipeline_preextract_vs_pretransformed"):
                f = lambda A: np.asarray(A) * np.array([3.0, 0.2]) + np.array([1.0, -2.0])      # noqa: E731
                try:
                    ref = score(f(X), y, f(Xv), yv)
                except Exception as e:  # noqa
                    ctx.mismatch("pre-transformed rendering raised", rcase, impl=exc_name(e) + repr(e))
                    continue
            try:
                got = score(Xa, ya, Xva, yva, pipeline=pipe, **more)
            except (AssertionError, ValueError, TypeError, KeyError, AttributeError, IndexError) as e:
                accepted[(method, name)] = "rejected:" + type(e).__name__
                if (method, name) not in REJECTED_ON_PINNED_TREE:
                    ctx.mismatch("a representation the method accepts on the pinned tree is now rejected instead of yielding the same scores", rcase,
                                 impl=exc_name(e) + repr(e), spec=ref)
                ctx.case((it, name), nontrivial=False, rendering=name, method=method, accepted=False)
                continue
            except Exception as e:  # noqa
                ctx.mismatch("rendering raised an undocumented exception", rcase, impl=exc_name(e) + repr(e))
                continue
            accepted[(method, name)] = "accepted"
            ctx.case((it, name), nontrivial=len(set(round(x, 9) for x in base)) > 1, sample=dict(rcase, scores=got), rendering=name, method=method, accepted=True)
            if len(got) != len(ref) or any(abs(a - b) > 1e-9 for a, b in zip(got, ref)):
                ctx.mismatch("scores depend on the representation (%s)" % name, rcase, impl=got, spec=ref)
        # the same dataset under a utility whose metric needs probabilities (ROC-AUC) around a model that has only hard predictions, in the pandas renderings: the class list
        # the one-hot encoding is built against must not depend on the container the labels arrive in (binary labels, both classes among the validation labels)
        if method in ("bruteforce", "montecarlo") and not mc_trunc and c == 2 and len(set(yv.tolist())) == 2:
            ukind[0] = "rocauc_hard"
            try:
                base_auc = score(X, y, Xv, yv)
                for name, mk in renderings.items():
                    if not (name in ("dataframe", "dataframe_str_index", "series_labels", "dataframe_series_shuffled_index") or (name in idx_info and idx_info[name]["labels"] == "int")):
                        continue
                    Xa, ya, Xva, yva, pipe = mk()
                    rcase = dict(case, rendering=name, utility="SklearnModelRocAuc around a model without predict_proba")
                    if name in idx_info:
                        rcase["pandas"] = idx_info[name]
                    try:
                        got = score(Xa, ya, Xva, yva, pipeline=pipe)
                    except Exception as e:  # noqa
                        ctx.dist["rocauc_rendering_rejected:%s" % type(e).__name__] += 1
                        continue
                    ctx.case((it, name, "rocauc"), nontrivial=len(set(round(x, 9) for x in base_auc)) > 1, rendering=name, method=method, utility="rocauc_hard", accepted=True)
                    if len(got) != len(base_auc) or any(abs(a - b) > 1e-9 for a, b in zip(got, base_auc)):
                        ctx.mismatch("scores depend on the representation (%s) under a ROC-AUC utility with hard predictions" % name, rcase, impl=got, spec=base_auc)
            except Exception as e:  # noqa
                ctx.dist["rocauc_plain_rejected:%s" % type(e).__name__] += 1
            finally:
                ukind[0] = "accuracy"
        if ctx.elapsed() > (400 if q else 1800):
            break
    ctx.extra["acceptance"] = {"%s/%s" % k: v for k, v in sorted(accepted.items())}
    return ctx.finish("other", "Partial by nature. Proved for the model: the scoring model consumes only the encoded class indices and the feature/distance matrix, and "
                      "label renamings leave its input unchanged (C18_encode_rename, C18_acc_rename; C07 family). How pandas, scipy.sparse and LabelEncoder behave on the "
                      "concrete containers is third-party runtime behaviour; it is decided here by rendering each dataset in every accepted representation and comparing "
                      "score vectors.", RULE)
