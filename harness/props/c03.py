"""C03 — bruteforce scores are the Shapley value by definition, for any utility."""
from fractions import Fraction
import numpy as np
import gen
import spec
from props.common import load_impl, exc_name, make_prov, rand_raw_data, raw_to_exprs, raw_model_prov, make_raw_prov, raw_padding_kinds
from props import tables

RULE = ("method='bruteforce' with recording table utilities: an independent value (dyadic or sevenths) or a raised ValueError/RuntimeWarning/UserWarning "
        "(and, in a separate stream, an uncaught exception class) for EVERY row subset reachable by some coalition, over random DNF provenances (value-0 "
        "literals included; built from expressions, by editing the default object in place, or - 1 case in 5 - handed over as RAW (rows, disjuncts, conjuncts, 2) "
        "data whose padding slots (-1,-1) stand in front of / between / behind the literals of a disjunct, with whole disjuncts and rows of padding: the formula of "
        "such a row is the disjunction, over its disjuncts holding a literal, of the conjunction of the literals), 1-6 units quick / 1-9 thorough; compared: score vector vs the Lean model Ds.Brute.scores and vs the textbook Shapley sum in "
        "Fractions, and the set of row subsets the utility was called with vs the row sets whose formulas are true under the coalitions. Non-trivial = >= 2 units, >= 3 distinct "
        "coalition values and at least one failing coalition or value-0 literal; distinct = distinct (provenance, table).")


def run(ctx):
    I = load_impl(ctx)
    rng = ctx.rng
    q = ctx.tier == "quick"
    n_cases = 70 if q else 500
    for it in range(n_cases):
        n_units = rng.randint(1, 6 if q else 9)
        if n_units >= 8 and rng.random() < 0.7:
            n_units = rng.randint(1, 7)
        exprs = [gen.rand_expr_flat(rng, n_units, 2, 3, 2, p_zero=0.2) for _ in range(rng.randint(1, 6))]
        if it % 7 == 3:
            # many rows over few units (row positions beyond 64, 128): coalitions that agree on the first rows and differ only on late ones
            n_units = rng.randint(2, 4)
            n_late = rng.choice([66, 70, 130])
            owner = [0] * (n_late - 4) + [rng.randrange(n_units) for _ in range(4)]
            owner[-1], owner[-2] = n_units - 1, max(0, n_units - 2)
            exprs = [{"eq": [u, 1]} for u in owner]
            if rng.random() < 0.5:
                exprs[rng.randrange(len(exprs) - 4, len(exprs))] = {"conj": [[0, 1], [n_units - 1, 1]]}
        other_stream = (it % 10 == 9)
        table = tables.rand_table(rng, exprs, n_units, p_fail=0.2, dyadic=(rng.random() < 0.6), allow_other=other_stream)
        null = Fraction(rng.randrange(-16, 17), 4)
        prov, _units, _ = make_prov(I, exprs, n_units)
        if it % 6 == 1:
            # start from the DEFAULT provenance object (one row per unit, is_simple) and reach the same formulas by editing it in place
            P_ = I["provenance"]
            exprs = exprs[:n_units] + [{"eq": [u, 1]} for u in range(len(exprs), n_units)]
            raw = P_.Units(units=n_units, candidates=2)
            prov = P_.Provenance(units=raw)
            from props.common import UView
            _units = UView(raw, list(range(n_units)))
            for r_, e_ in enumerate(exprs):
                if e_ != {"eq": [r_, 1]}:
                    prov[r_] = gen.build_expr(P_, _units, e_)
            table = tables.rand_table(rng, exprs, n_units, p_fail=0.2, dyadic=True, allow_other=False)
            other_stream = False
        raw_data = None
        if it % 5 == 2 and it % 7 != 3:
            # the provenance is handed over as a raw 4-D array (public constructor) with padding slots anywhere; `exprs` = its formulas by definition
            raw_data = rand_raw_data(rng, n_units, 2, rows=rng.randint(1, 6), nd=rng.randint(1, 3), nc=rng.randint(2, 3))
            exprs = raw_to_exprs(raw_data)
            prov, _units = make_raw_prov(I, raw_data, n_units, form=rng.choice(["int64", "int64", "int32", "list"]))
            other_stream = False
            table = tables.rand_table(rng, exprs, n_units, p_fail=0.2, dyadic=(rng.random() < 0.6), allow_other=False)
            ctx.dist["provenance=raw 4-D data"] += 1
            for k_ in raw_padding_kinds(raw_data):
                ctx.dist["raw_padding=" + k_] += 1
        n_rows = len(exprs)
        X = np.arange(n_rows, dtype=float).reshape(-1, 1)
        util = tables.make_table_utility(I, table, null, mean=0)
        case = dict(nUnits=n_units, exprs=exprs, table=tables.table_json(table), null=str(null))
        if raw_data is not None:
            case["rawData"] = raw_data
        try:
            imp = I["imp"].ShapleyImportance(method="bruteforce", utility=util)
            res = list(np.asarray((tables.fit_ids(util, imp, X, prov) if it % 2 else imp.fit(X, np.zeros(n_rows, dtype=int), provenance=prov)).score(np.zeros((1, 1)), np.zeros(1, dtype=int)), dtype=float))
        except KeyError:
            res = "Other"
        except Exception as e:  # noqa
            res = exc_name(e) + ": " + repr(e)
        has_other = any(v == "Other" for v in table.values())
        vals = {str(v) for v in table.values()}
        nontriv = n_units >= 2 and len(vals) >= 3 and (any(isinstance(v, str) for v in table.values()) or any(c == 0 for e in exprs for cj in spec.expr_to_dnf(e) for (_, c) in cj))
        ctx.case(case, nontrivial=nontriv, sample=(case if n_units <= 3 else None), units=n_units, other=has_other)
        ctx.maxi(units=n_units, rows=n_rows, coalitions=2 ** n_units)
        ans = ctx.model({"op": "brute", "prov": (raw_model_prov(raw_data, n_units) if raw_data is not None else {"nUnits": n_units, "exprs": exprs}), "table": tables.table_json(table), "null": str(null)})
        if raw_data is None or all(spec.expr_to_dnf(e) for e in exprs):
            # the control skeleton translated from this tree's source, run on the same table
            tables.check_translated_brute(ctx, case, exprs, n_units, table, null, res, 16)
        if has_other:
            # the first 'Other' coalition in enumeration order must propagate
            if res != "Other":
                ctx.mismatch("an exception class outside (ValueError, RuntimeWarning, UserWarning) did not propagate", case, impl=res, model=ans)
            elif ans is not None and "err" not in ans:
                ctx.mismatch("model swallowed an uncaught exception", case, impl=res, model=ans, failing_input=False, broken="corr:Ds.Brute.scores / C03_uncaught")
            continue
        want = spec.shapley(n_units, lambda S: tables.value_of(table, tables.rows_present(exprs, [1 if u in S else 0 for u in range(n_units)]), null))
        if isinstance(res, str):
            ctx.mismatch("score() raised", case, impl=res, model=ans, spec=[str(x) for x in want])
            continue
        if util.bad:
            ctx.mismatch("the utility was handed labels / metadata of rows other than the rows present under the coalition", case, impl=util.bad[:3])
            continue
        scale = 16
        # rows the utility was called with
        # (as sets: an implementation that caches repeated row sets or evaluates a coalition twice still satisfies the property)
        want_calls = sorted({tuple(sorted(tables.rows_present(exprs, a))) for a in spec.assignments(n_units)})
        got_calls = sorted({tuple(sorted(c)) for c in util.calls})
        if got_calls != want_calls:
            ctx.mismatch("utility was not evaluated on exactly the row sets whose formulas are true under the coalitions", case, impl=got_calls[:20], spec=want_calls[:20])
        elif not ctx.vec_close(res, want, scale):
            ctx.mismatch("bruteforce scores differ from the Shapley value by definition", case, impl=res, model=ans, spec=[str(x) for x in want])
        elif ans is not None and ("err" in ans or [Fraction(x) for x in ans["ok"]] != want):
            ctx.mismatch("model Ds.Brute.scores differs from the Shapley value by definition", case, impl=res, model=ans, spec=[str(x) for x in want],
                         failing_input=False, broken="theorem C03_main / corr:Ds.Brute.scores")
        elif it % 2 == 0 and n_units <= 5:
            # the same Provenance OBJECT is edited in place (a formula of a different shape that fits the stored width) and scored again:
            # v(S) must be evaluated on the rows whose CURRENT formula is true
            i = rng.randrange(n_rows)
            e2 = gen.rand_expr_flat(rng, n_units, 2, 3, 2, p_zero=0.2)
            exprs2 = list(exprs)
            exprs2[i] = e2
            try:
                prov[i] = gen.build_expr(I["provenance"], _units, e2)
                table2 = tables.rand_table(rng, exprs2, n_units, p_fail=0.1)
                util2 = tables.make_table_utility(I, table2, null, mean=0)
                imp2 = I["imp"].ShapleyImportance(method="bruteforce", utility=util2)
                res2 = list(np.asarray(imp2.fit(X, np.zeros(n_rows, dtype=int), provenance=prov).score(np.zeros((1, 1)), np.zeros(1, dtype=int)), dtype=float))
            except Exception as e:  # noqa
                res2 = exc_name(e) + ": " + repr(e)
            want2 = spec.shapley(n_units, lambda S: tables.value_of(table2, tables.rows_present(exprs2, [1 if u in S else 0 for u in range(n_units)]), null))
            ctx.dist["rescored_after_in_place_edit"] += 1
            if isinstance(res2, str) or not ctx.vec_close(res2, want2, scale):
                ctx.mismatch("after an in-place edit of the provenance, bruteforce scores are not the Shapley value for the edited formulas",
                             dict(case, edit=dict(row=i, expr=e2), table2=tables.table_json(table2)), impl=res2, spec=[str(x) for x in want2])
        if ctx.elapsed() > (400 if q else 1800):
            break
    return ctx.finish("proof", "C03_main: for every game the modelled accumulation with factor_0/factor_1 over all 2^n assignments equals the textbook Shapley sum; failures "
                      "of the three caught kinds are worth the null score, anything else propagates (C03_uncaught). This run tied the model to method='bruteforce'.", RULE)
