"""C19 — a provenance container behaves as a mutable list of formulas."""
import numpy as np
import gen
import spec
from props.common import load_impl, exc_name, rand_keys, UView, rand_slice, open_units, values_for

RULE = ("random edit histories (<=12 ops quick, <=40 thorough) of item assignment (incl. negative indices), insert (negative / past-the-end), "
        "append, extend, delete, pop, slice delete, slicing (half of the slices with arbitrary bounds - open, negative, out of range on either side - and "
        "steps - open, positive, NEGATIVE: p[::-1], p[3::-1], p[::-2], p[2:-100:-1] ...; the result may be empty; the model is asked for the index list "
        "range(*slice.indices(len)), the reference is the plain list sliced with the same slice), reverse over formulas of mixed widths, executed on the real Provenance, on a plain "
        "Python list of the same formulas, and on the Lean model Ds.Prov (setItem/insert/delItem/...); after EVERY op the length, every row's "
        "truth table (read back through __getitem__ and through query at all assignments; values passed as an integer array, a boolean array and a "
        "{unit key: candidate} dict, complete or with the candidate-0 units left out) are compared. About 30% of the histories (and one corpus case) "
        "run over an OPEN, lazily growing unit set: Units(candidates=2) with no unit declared, every unit registered by the library on its first "
        "mention, the container built from the initial formulas (which mention only some of the units) and some units FIRST MENTIONED by a formula that "
        "a later set / insert / append / extend introduces, i.e. after the container was constructed (<=5 units; the library's unit order is then the "
        "order of first mention, value arrays are laid out along the container's own public `units` sequence, the list side evaluates the formulas "
        "by definition and the Lean model gets the final number of units). Non-trivial = the history contains a "
        "width change in each direction (narrower and wider than stored) and at least one deletion; distinct = distinct op sequences.")


def widths(e):
    if "eq" in e:
        return (1, 1)
    if "conj" in e:
        return (1, len(e["conj"]))
    return (len(e["disj"]), max(len(c) for c in e["disj"]))


def _lits(e):
    """the literals [unit, candidate] of a flat JSON formula"""
    if "eq" in e:
        return [e["eq"]]
    if "conj" in e:
        return list(e["conj"])
    return [l for cj in e["disj"] for l in cj]


def _sl(op):
    """the slice object of a slice / delslice op (step 's' optional; bounds may be None, negative or out of range)"""
    return slice(op["a"], op["b"], op.get("s"))


def run_history(ctx, I, n_units, init, ops, lazy=False):
    res, mops = _run_history(ctx, I, n_units, init, ops, lazy)
    import random as _r
    res["unit_keys"] = [str(x) for x in rand_keys(_r.Random(hash(str(init)) & 0xffff), n_units)[0]]     # the keys _run_history used (for the replay)
    return res, mops


def _run_history(ctx, I, n_units, init, ops, lazy=False):
    """lazy: the unit set is OPEN (no unit declared up front); a unit exists for the library from its first mention by a formula, which may be a
    formula that a later edit introduces - after the container was constructed."""
    P = I["provenance"]
    import random as _r
    keys, _scheme = rand_keys(_r.Random(hash(str(init)) & 0xffff), n_units)
    if lazy:
        units = open_units(I, keys)
        raw_units = units.units
    else:
        raw_units = P.Units(units=list(keys), candidates=2)
        units = UView(raw_units, keys)
    from_default = (not lazy) and all("eq" in e and e["eq"] == [i, 1] for i, e in enumerate(init)) and len(init) == n_units
    flags = []
    if from_default:
        prov = P.Provenance(units=raw_units)          # the default one-row-per-unit provenance OBJECT (is_simple), then edited in place
    else:
        prov = P.Provenance([gen.build_expr(P, units, e) for e in init])
    ref = list(init)
    asg = spec.assignments(n_units)
    mops = []
    trace = []
    for k, op in enumerate(ops):
        kind = op["op"]
        ref_err = impl_err = None
        impl_out = None
        # reference list ----------------------------------------------------------------
        try:
            if kind == "set":
                ref[op["i"]] = op["e"]
            elif kind == "insert":
                ref.insert(op["i"], op["e"])
            elif kind == "append":
                ref.append(op["e"])
            elif kind == "extend":
                ref.extend(op["es"])
            elif kind == "del":
                del ref[op["i"]]
            elif kind == "pop":
                ref.pop()
            elif kind == "delslice":
                del ref[_sl(op)]
            elif kind == "slice":
                ref = ref[_sl(op)]
            elif kind == "reverse":
                ref.reverse()
            elif kind == "subedit":
                # a slice is a NEW list: editing it leaves the list it was taken from alone, and the other way round
                ref_child = ref[_sl(op)]
                if op["who"] == "child":
                    ref_child[op["i"]] = op["e"]
                else:
                    ref[op["j"]] = op["e"]
        except IndexError:
            ref_err = "IndexError"
        # implementation -------------------------------------------------------------------
        try:
            if kind == "set":
                prov[op["i"]] = gen.build_expr(P, units, op["e"])
            elif kind == "insert":
                prov.insert(op["i"], gen.build_expr(P, units, op["e"]))
            elif kind == "append":
                prov.append(gen.build_expr(P, units, op["e"]))
            elif kind == "extend":
                prov.extend([gen.build_expr(P, units, e) for e in op["es"]])
            elif kind == "del":
                del prov[op["i"]]
            elif kind == "pop":
                prov.pop()
            elif kind == "delslice":
                del prov[_sl(op)]
            elif kind == "slice":
                prov = prov[_sl(op)]
            elif kind == "reverse":
                prov.reverse()
            elif kind == "subedit":
                child = prov[_sl(op)]
                if op["who"] == "child":
                    child[op["i"]] = gen.build_expr(P, units, op["e"])
                else:
                    prov[op["j"]] = gen.build_expr(P, units, op["e"])
        except Exception as e:  # noqa
            impl_err = exc_name(e)
        # model ops (same effect expressed in the model's vocabulary)
        n_before = None
        if kind in ("set", "insert", "del"):
            mops.append({"op": kind, "i": op["i"], **({"e": op["e"]} if "e" in op else {})})
        elif kind == "append":
            mops.append({"op": "append", "e": op["e"]})
        elif kind == "extend":
            mops += [{"op": "append", "e": e} for e in op["es"]]
        elif kind == "pop":
            mops.append({"op": "del", "i": -1})
        elif kind == "delslice":
            mops.append({"op": "delmany", "idx": list(range(*_sl(op).indices(op["_len"])))})
        elif kind == "slice":
            mops.append({"op": "select", "idx": list(range(*_sl(op).indices(op["_len"])))})
        elif kind == "reverse":
            mops.append({"op": "select", "idx": list(range(op["_len"] - 1, -1, -1))})
        elif kind == "subedit" and op["who"] == "parent":
            mops.append({"op": "set", "i": op["j"], "e": op["e"]})
        mops.append({"op": "table"})
        mops.append({"op": "simple"})
        # compare with the reference now
        if ref_err != impl_err:
            return dict(step=k, op=op, what="exception behaviour differs from list", impl=impl_err, spec=ref_err), mops
        stab = [[spec.expr_true(e, a) for e in ref] for a in asg]
        if kind == "subedit" and ref_err is None:
            try:
                cu_ = list(child.units) if lazy else list(keys)
                ctab = [[bool(x) for x in np.asarray(child.query(np.array(values_for(cu_, keys, a) if lazy else list(a), dtype=int))).tolist()] for a in asg]
            except Exception as e:  # noqa
                return dict(step=k, op=op, what="query of a slice raised", impl=exc_name(e) + ": " + repr(e), spec=len(ref_child)), mops
            cstab = [[spec.expr_true(e, a) for e in ref_child] for a in asg]
            if len(child) != len(ref_child) or ctab != cstab:
                return dict(step=k, op=op, what="a slice taken before an edit of the %s differs from the list slice that underwent the same edits" % ("slice itself" if op["who"] == "child" else "container it was taken from (the slice shares storage)"),
                            impl=dict(len=len(child), query=ctab), spec=dict(len=len(ref_child), table=cstab)), mops
        stage = "len"
        try:
            ln = len(prov)
            # one value per unit the container knows, in the container's own order (= the positions, unless the unit set grows lazily)
            cu = list(prov.units) if lazy else list(keys)
            vals = [values_for(cu, keys, a) for a in asg] if lazy else [list(a) for a in asg]
            stage = "query(integer array of length num_units=%d)" % prov.num_units
            tab = [[bool(x) for x in np.asarray(prov.query(np.array(v, dtype=int))).tolist()] for v in vals]
            if ln != len(ref) or tab != stab:
                # reported before the read-back is attempted: a silently wrong query result is the worse symptom when the read-back would raise
                return dict(step=k, op=op, what="container differs from the list after this op",
                            impl=dict(len=ln, query=tab, readback="not attempted", **({"container_units": [str(x) for x in cu]} if lazy else {})),
                            spec=dict(len=len(ref), table=stab)), mops
            stage = "row read-back p[i] / p[i].eval(value list)"
            rows = [prov[i] for i in range(ln)]       # every row read back once per op and per value form, then evaluated at all assignments
            back = [[bool(r.eval(list(v))) for r in rows] for v in vals]
            stage = "query(boolean array)"
            tab_b = [[bool(x) for x in np.asarray(prov.query(np.array(v, dtype=bool))).tolist()] for v in vals]
            if tab_b != tab:
                return dict(step=k, op=op, what="query with a boolean indicator vector differs from the same query with integers",
                            impl=dict(bool=tab_b, int=tab), spec=None), mops
            # the same assignments as {unit key: candidate} dicts: complete, and with the candidate-0 units left out (a missing unit takes candidate 0)
            dicts = [{keys[u]: a[u] for u in range(n_units) if j % 2 == 0 or a[u] != 0} for j, a in enumerate(asg)]
            stage = "query(dict)"
            tab_d = [[bool(x) for x in np.asarray(prov.query(dict(d))).tolist()] for d in dicts]
            stage = "row read-back p[i] / p[i].eval(dict)"
            rows = [prov[i] for i in range(ln)]
            back_d = [[bool(r.eval(dict(d))) for r in rows] for d in dicts]
        except Exception as e:  # noqa
            return dict(step=k, op=op, what="len/query/readback raised", impl=exc_name(e) + ": " + repr(e) + " in " + stage, spec=len(ref)), mops
        if ln != len(ref) or tab != stab or back != stab:
            return dict(step=k, op=op, what="container differs from the list after this op",
                        impl=dict(len=ln, query=tab, readback=back, **({"container_units": [str(x) for x in cu]} if lazy else {})),
                        spec=dict(len=len(ref), table=stab)), mops
        if tab_d != stab or back_d != stab:
            return dict(step=k, op=op, what="container queried / read back with {unit: candidate} dicts differs from the list after this op",
                        impl=dict(len=ln, query_dict=tab_d, readback_dict=back_d), spec=dict(len=len(ref), table=stab)), mops
        trace.append(stab)
        # the fast-path flag may only be set while the rows are exactly one `x_u == 1` per unit, in unit order
        flag = bool(prov.is_simple)
        flags.append(flag)
        order = [keys.index(x) for x in cu]       # the container's units as positions (0..n-1 in order, unless the unit set grows lazily)
        if flag and (ln != len(order) or (not lazy and ln != n_units) or stab != [[a[u] == 1 for u in order] for a in asg]):
            return dict(step=k, op=op, what="is_simple is set on a container that is not the one-row-per-unit default",
                        impl=dict(is_simple=True, len=ln, query=tab), spec=dict(len=len(ref), table=stab)), mops
    return dict(trace=trace, flags=flags, from_default=from_default), mops


def rand_formula(rng, n_units, maxd, maxw):
    e = gen.rand_expr_flat(rng, n_units, maxd, maxw, 2)
    if "disj" in e and rng.random() < 0.5:
        # widths in a random monotone order: the widest conjunct / the longest disjunction is then often NOT in the first slot of any row
        e = {"disj": sorted(e["disj"], key=len, reverse=(rng.random() < 0.5))}
    return e


def _mention(rng, e, u):
    """formula e with one of its literals moved to unit u (so that e certainly mentions u)"""
    if "eq" in e:
        return {"eq": [u, e["eq"][1]]}
    if "conj" in e:
        c = [list(l) for l in e["conj"]]
        c[rng.randrange(len(c))][0] = u
        return {"conj": c}
    d = [[list(l) for l in cj] for cj in e["disj"]]
    cj = d[rng.randrange(len(d))]
    cj[rng.randrange(len(cj))][0] = u
    return {"disj": d}


def gen_history(rng, n_units, max_ops, lazy=False):
    """lazy: the history is meant for an open unit set - the initial formulas mention only units 0..m-1 for some m < n_units, and the range the
    formulas of later edits draw their units from grows by and by up to n_units (a formula generated right after the range grew mentions the newest
    unit), so some units are first mentioned by a formula that an edit introduces after the container was constructed."""
    m = rng.randint(1, n_units - 1) if lazy else n_units
    init = [rand_formula(rng, m, 2, 2) for _ in range(rng.randint(1, 3))]
    if not lazy and rng.random() < 0.3:
        init = [{"eq": [i, 1]} for i in range(n_units)]       # start from the default provenance
    ln = len(init)
    ops = []
    for _ in range(rng.randint(3, max_ops)):
        r = rng.random()
        grew = lazy and m < n_units and rng.random() < 0.4
        if grew:
            m = min(n_units, m + rng.choice([1, 1, 2]))
        e = rand_formula(rng, m, 3, 3)
        if grew:
            e = _mention(rng, e, m - 1)
        if ln > 1 and rng.random() < 0.12:
            # slice, then edit the slice or the container it came from with a formula NO WIDER than the stored ones (so that nothing is re-allocated)
            sl = rand_slice(rng, ln) if rng.random() < 0.5 else slice(rng.randrange(0, ln - 1), None)
            idx = list(range(*sl.indices(ln)))
            if idx:
                small = {"eq": [rng.randrange(m), rng.randrange(2)]}
                if rng.random() < 0.5:
                    ops.append({"op": "subedit", "who": "child", "a": sl.start, "b": sl.stop, "s": sl.step, "i": rng.randrange(-len(idx), len(idx)), "e": small, "_len": ln})
                else:
                    ops.append({"op": "subedit", "who": "parent", "a": sl.start, "b": sl.stop, "s": sl.step, "j": rng.choice(idx), "e": small, "_len": ln})
                continue
        if r < 0.22 and ln > 0:
            ops.append({"op": "set", "i": rng.randrange(-ln, ln), "e": e})
        elif r < 0.40:
            ops.append({"op": "insert", "i": rng.randrange(-ln - 2, ln + 3), "e": e})
            ln += 1
        elif r < 0.55:
            ops.append({"op": "append", "e": e})
            ln += 1
        elif r < 0.62:
            es = [rand_formula(rng, m, 3, 3) for _ in range(rng.randint(1, 2))]
            if grew:
                es[-1] = _mention(rng, es[-1], m - 1)
            ops.append({"op": "extend", "es": es})
            ln += len(es)
        elif r < 0.74 and ln > 1:
            ops.append({"op": "del", "i": rng.randrange(-ln, ln)})
            ln -= 1
        elif r < 0.80 and ln > 1:
            ops.append({"op": "pop"})
            ln -= 1
        elif r < 0.92 and ln > 2 and rng.random() < 0.5:
            # a slice as a caller may write it: open / negative / out-of-range bounds, positive and negative steps
            sl = rand_slice(rng, ln)
            hit = len(range(*sl.indices(ln)))
            if r < 0.86:
                if hit < ln:
                    ops.append({"op": "delslice", "a": sl.start, "b": sl.stop, "s": sl.step, "_len": ln})
                    ln -= hit
            else:
                ops.append({"op": "slice", "a": sl.start, "b": sl.stop, "s": sl.step, "_len": ln})
                ln = hit
        elif r < 0.86 and ln > 2:
            a = rng.randrange(0, ln)
            b = rng.randrange(a, ln + 1)
            if b - a < ln:
                ops.append({"op": "delslice", "a": a, "b": b, "_len": ln})
                ln -= (b - a)
        elif r < 0.92 and ln > 2:
            a = rng.randrange(0, ln - 1)
            b = rng.randrange(a + 1, ln + 1)
            ops.append({"op": "slice", "a": a, "b": b, "_len": ln})
            ln = b - a
        elif ln > 1:
            ops.append({"op": "reverse", "_len": ln})
    return init, ops


def shrink(ctx, I, n_units, init, ops, lazy=False):
    """greedy removal of ops while the history still fails (lengths are recomputed by replaying on a list)"""
    def relen(init, ops):
        ref = list(init)
        out = []
        for op in ops:
            op = dict(op)
            if "_len" in op:
                op["_len"] = len(ref)
            try:
                k = op["op"]
                if k == "set":
                    ref[op["i"]] = op["e"]
                elif k == "insert":
                    ref.insert(op["i"], op["e"])
                elif k == "append":
                    ref.append(op["e"])
                elif k == "extend":
                    ref.extend(op["es"])
                elif k == "del":
                    del ref[op["i"]]
                elif k == "pop":
                    ref.pop()
                elif k == "delslice":
                    del ref[_sl(op)]
                elif k == "slice":
                    ref = ref[_sl(op)]
                elif k == "reverse":
                    ref.reverse()
                elif k == "subedit":
                    c_ = ref[_sl(op)]
                    if op["who"] == "child":
                        c_[op["i"]] = op["e"]
                    else:
                        if op["j"] not in list(range(*_sl(op).indices(len(ref)))):
                            return None
                        ref[op["j"]] = op["e"]
            except IndexError:
                return None
            out.append(op)
        return out
    cur = ops
    changed = True
    while changed:
        changed = False
        for i in range(len(cur)):
            cand = relen(init, cur[:i] + cur[i + 1:])
            if cand is None:
                continue
            res, _ = run_history(ctx, I, n_units, init, cand, lazy)
            if "what" in res:
                cur = cand
                changed = True
                break
    return cur


def run(ctx):
    I = load_impl(ctx)
    rng = ctx.rng
    n_hist = 150 if ctx.tier == "quick" else 1500
    max_ops = 12 if ctx.tier == "quick" else 40
    corpus = [
        (3, [{"conj": [[0, 1], [1, 1]]}], [{"op": "append", "e": {"eq": [2, 1]}}]),                       # F7: narrower than stored
        (3, [{"eq": [0, 1]}, {"eq": [1, 1]}], [{"op": "insert", "i": -1, "e": {"eq": [2, 1]}}]),           # F15: negative insert
        (3, [{"eq": [0, 1]}, {"eq": [1, 1]}], [{"op": "insert", "i": 5, "e": {"eq": [2, 1]}}]),            # F15: past the end
        (3, [{"eq": [0, 1]}], [{"op": "set", "i": 0, "e": {"disj": [[[1, 1]], [[2, 1], [0, 0]]]}}, {"op": "append", "e": {"eq": [1, 0]}}]),
        # a deletion must not disturb the surviving rows, whatever slot holds their widest conjunct / however many disjuncts they have
        (3, [{"disj": [[[0, 1]], [[1, 1], [2, 1]]]}, {"eq": [0, 1]}, {"eq": [1, 1]}], [{"op": "del", "i": 1}]),
        (3, [{"eq": [2, 1]}, {"disj": [[[0, 1]], [[1, 1]], [[2, 0]]]}, {"conj": [[0, 1], [1, 1], [2, 1]]}], [{"op": "del", "i": -1}, {"op": "pop"}]),
    ]
    # an open unit set: units 1 and 2 are first mentioned by formulas that edits introduce after the container was constructed
    corpus_lazy = [
        (3, [{"eq": [0, 1]}, {"conj": [[0, 0], [0, 1]]}],
         [{"op": "append", "e": {"conj": [[1, 1], [0, 1]]}}, {"op": "set", "i": 0, "e": {"disj": [[[2, 0]], [[1, 1], [2, 1]]]}}, {"op": "del", "i": 1},
          {"op": "insert", "i": 0, "e": {"eq": [2, 1]}}]),
    ]
    hist = [(n, i, o, False) for n, i, o in corpus] + [(n, i, o, True) for n, i, o in corpus_lazy] + [None] * n_hist
    for h in hist:
        if h is None:
            lazy = rng.random() < 0.3
            n_units = rng.randint(2, 5) if lazy else rng.randint(2, 4)
            init, ops = gen_history(rng, n_units, max_ops, lazy)
        else:
            n_units, init, ops, lazy = h
        res, mops = run_history(ctx, I, n_units, init, ops, lazy)
        ws = [widths(e) for e in init] + [widths(o["e"]) for o in ops if "e" in o]
        nontriv = len(set(ws)) > 2 and any(o["op"] in ("del", "pop", "delslice") for o in ops)
        ctx.case([init, ops, lazy], nontrivial=nontriv, sample=dict(nUnits=n_units, init=init, ops=ops, openUnitSet=lazy), n_ops=len(ops))
        ctx.maxi(ops=len(ops), units=n_units)
        for o in ops:
            ctx.dist["op=" + o["op"]] += 1
        ctx.dist["unit_set=" + ("open, units registered on first mention" if lazy else "declared up front")] += 1
        if lazy:
            seen = {l[0] for e in init for l in _lits(e)}
            late = set()
            for o in ops:
                for e in ([o["e"]] if "e" in o else o.get("es", [])):
                    new = {l[0] for l in _lits(e)} - seen
                    if new:
                        late.add(o["op"])
                        seen |= new
            for kind in (sorted(late) or ["no edit"]):
                ctx.dist["open unit set: a unit first mentioned after construction by=" + kind] += 1
        case = dict(nUnits=n_units, init=init, ops=ops, openUnitSet=lazy)
        if "what" in res:
            small = shrink(ctx, I, n_units, init, ops, lazy)
            res2, _ = run_history(ctx, I, n_units, init, small, lazy)
            ctx.mismatch(res2.get("what", res["what"]), dict(nUnits=n_units, init=init, ops=small, openUnitSet=lazy, unitKeys=res2.get("unit_keys"),
                                                             **({"note": "openUnitSet: Units(candidates=2) with no unit declared; unit positions in the "
                                                                 "formulas are harness labels, the library registers a unit on its first mention"}
                                                                if lazy else {})),
                         impl=res2.get("impl"), spec=res2.get("spec"))
            continue
        model = ctx.model({"op": "history", "prov": ({"nUnits": n_units, "default": True} if res["from_default"] else {"nUnits": n_units, "exprs": init}),
                           "ops": mops})
        if model is not None:
            outs = [o for o in model["ok"] if isinstance(o, list)]
            errs = [o for o in model["ok"] if isinstance(o, dict) and "err" in o]
            mflags = [o for o in model["ok"] if isinstance(o, bool)]
            if not errs and outs == res["trace"] and mflags != res["flags"]:
                ctx.mismatch("model Ds.Prov.Obj fast-path flag disagrees with Provenance.is_simple (the implementation's flag is sound for its rows)", case,
                             impl=res["flags"], model=mflags, failing_input=False, broken="corr:Ds.Prov.Obj.step / theorem C01_obj_history")
            if errs or outs != res["trace"]:
                ctx.mismatch("model Ds.Prov container disagrees with implementation (implementation agrees with the list)", case,
                             impl=res["trace"][-1] if res["trace"] else None, model=(errs or outs[-1:]), failing_input=False,
                             broken="corr:Ds.Prov.setItem/insert/delItem / theorem C19_step")
        if ctx.elapsed() > (400 if ctx.tier == "quick" else 1800):
            break
    return ctx.finish("proof", "Theorems C19_* state that every modelled container operation refines the same operation on a plain list of "
                      "formulas (abstraction = strip padding) for every history; this run executed random histories on the real Provenance, "
                      "a Python list and the model, comparing after every operation.", RULE)
