"""C17 — scoring is deterministic and reproducible from the seed."""
import json
import os
import subprocess
import sys
import numpy as np
from props.common import load_impl, exc_name
import worker

RULE = ("random small datasets x methods (neighbor K=1 default/grouped provenance, neighbor K=2 through the ADD path, bruteforce, montecarlo) x utilities "
        "(accuracy with 1-NN / logistic regression / GaussianNB (warning-sensitive: single-row coalitions trip numpy floating-point warnings, which the library scores as "
        "failed evaluations) / estimators that draw from numpy's global generator (random-splitter tree bare and inside a Pipeline, small forest, a custom estimator "
        "without random_state; all random_state=None), JointUtility, ROC-AUC for neighbor K=1): the same case is scored (a) in-process on fresh objects, (b) again on fresh "
        "objects after re-seeding and advancing numpy's and random's global generators AND after a random history of 0-3 OTHER scorings in the same process (neighbor with "
        "ROC-AUC, neighbor with accuracy, bruteforce/montecarlo with another model on other data), (c) in fresh interpreter processes with PYTHONHASHSEED = 0 (nothing ran "
        "before), 1 (another random history of other scorings ran before in that process) and, thorough, a random value; all score vectors must be "
        "bit-identical (compared as bytes) and montecarlo must draw identical permutations; (d) neighbor and bruteforce must not change when the seed changes; "
        "(e) montecarlo with different seeds but identical (injected) permutations must return identical scores; (f) around EVERY fit and score call (targets and "
        "histories, in-process and in the subprocesses) np.geterr(), np.geterrcall(), the content of warnings.filters and os.environ are snapshotted and must be unchanged "
        "(numpy's global generator state is not part of the snapshot: the library seeds it on purpose); (g) in about two thirds of the cases the fresh importance objects "
        "of (a), (b), (d), (e) - and about half of the fresh objects of the histories that run in between, in-process and in the subprocesses, montecarlo ones with and "
        "without truncation - are handed the SAME utility OBJECT (fresh importance objects, one utility: its state must not carry anything from one scoring to the "
        "next), and for accuracy utilities (bare and JointUtility, every model above) the values montecarlo asks the utility for once per score call - null_score, "
        "mean_score with the default arguments, mean_score with an explicit maxiter/seed - are compared as exact bit patterns between a fresh utility object, the same "
        "object asked again after the global generators were re-seeded, another fresh object and the object the scorings shared: equal arguments (same seed) => "
        "identical bits. Non-trivial = the score vector is not constant; "
        "distinct = distinct (dataset, method, utility, seed).")


def sub(ctx, case, hashseed):
    env = dict(os.environ, PYTHONHASHSEED=str(hashseed), PYTHONDONTWRITEBYTECODE="1")
    r = subprocess.run([sys.executable, os.path.join(os.path.dirname(worker.__file__), "worker.py"), ctx.work], input=json.dumps(case), capture_output=True,
                       text=True, env=env, timeout=300)
    for line in r.stdout.splitlines():
        if line.startswith("RESULT "):
            return json.loads(line[7:])
    return {"error": (r.stderr or r.stdout)[-400:]}


def rand_history(rng, p_empty=0.15, target=None):
    """0-3 other scorings (small, valid, cheap) that run in the same process before the target case; when the target case shares its utility object
    (`share_key`), about half of them are fresh importance objects handed that SAME utility object (other data, other method, other parameters)"""
    if rng.random() < p_empty:
        return []
    out = []
    for _ in range(rng.randint(1, 3)):
        kind = rng.choice(["neighbor-rocauc", "neighbor-rocauc", "neighbor-accuracy", "bruteforce", "montecarlo"])
        n = rng.randint(3, 5)
        nprng = np.random.RandomState(rng.randrange(2 ** 31))
        c = rng.randint(2, 3)
        y = [i % c for i in range(n)]
        rng.shuffle(y)
        m = rng.randint(2, 4)
        h = dict(X=np.round(nprng.randn(n, 2), 3).tolist(), y=y, Xv=np.round(nprng.randn(m, 2), 3).tolist(), yv=[rng.randrange(c) for _ in range(m)], joint=False, kw={})
        if kind.startswith("neighbor"):
            h.update(method="neighbor", model="knn", utility=kind.split("-")[1])
        else:
            h.update(method=kind, model=rng.choice(["knn", "logreg", "gnb", "rtree"]), utility="accuracy",
                     kw=({"seed": rng.randrange(100)} if kind == "bruteforce" else {"mc_iterations": 2, "mc_truncation_steps": 0, "seed": rng.randrange(100)}))
        if target is not None and target.get("share_key") is not None and rng.random() < 0.5:
            # a fresh importance object that is handed the target's utility OBJECT (so it has the target's model / utility kind); ROC-AUC is scored by
            # the neighbor method only; a montecarlo one may truncate (any montecarlo run asks the utility for its mean score)
            h.update(model=target["model"], utility=target["utility"], joint=target["joint"], share_key=target["share_key"])
            if target["utility"] == "rocauc" and h["method"] != "neighbor":
                h.update(method="neighbor", kw={})
            if h["method"] == "montecarlo":
                h["kw"]["mc_truncation_steps"] = rng.choice([0, 1, 5])
        out.append(h)
    return out


def utility_values(util, case, seed2):
    """what the utility answers to the questions 'montecarlo' asks it once per score call, as exact bit patterns: null_score, mean_score with the default
    arguments (maxiter 100, seed 7: the call montecarlo makes) and mean_score with an explicit maxiter / seed. An exception is part of the answer."""
    import warnings
    X, y, Xv, yv = np.array(case["X"], dtype=float), np.array(case["y"]), np.array(case["Xv"], dtype=float), np.array(case["yv"])
    out = {}
    for name, f in (("null_score", lambda: util.null_score(X, y, Xv, yv)), ("mean_score", lambda: util.mean_score(X, y, Xv, yv)),
                    ("mean_score(maxiter=9,seed=%d)" % seed2, lambda: util.mean_score(X, y, Xv, yv, maxiter=9, seed=seed2))):
        try:
            with warnings.catch_warnings():
                warnings.simplefilter("ignore")
                v = float(f())
            out[name] = "%s = %r" % (v.hex(), v)
        except Exception as e:  # noqa
            out[name] = "raised " + exc_name(e)
    return out


def edited_in_place_values(I, case, seed2, rng):
    """the caller's arrays are edited IN PLACE between two calls on one utility object (a label repaired, a validation label changed): the second answer must be
    the answer a fresh utility object gives for fresh arrays with the new CONTENTS - an answer remembered for 'the same array objects' would be stale"""
    import warnings
    X, y, Xv, yv = np.array(case["X"], dtype=float), np.array(case["y"]), np.array(case["Xv"], dtype=float), np.array(case["yv"])
    util = worker.make_utility(I, case)
    out = []
    with warnings.catch_warnings():
        warnings.simplefilter("ignore")
        try:
            first = (float(util.null_score(X, y, Xv, yv)).hex(), float(util.mean_score(X, y, Xv, yv, maxiter=9, seed=seed2)).hex())
            edits = []
            ks = [k for k in range(len(y)) if (y == y[k]).sum() > 1]
            if ks:
                k = rng.choice(ks)
                y[k] = rng.choice([c for c in set(y.tolist()) if c != y[k]])
                edits.append(("y_train", k))
            kv = rng.randrange(len(yv))
            yv[kv] = rng.choice(sorted(set(y.tolist())))
            edits.append(("y_test", kv))
            X[rng.randrange(len(X)), 0] += 3.0
            second = (float(util.null_score(X, y, Xv, yv)).hex(), float(util.mean_score(X, y, Xv, yv, maxiter=9, seed=seed2)).hex())
            fresh_u = worker.make_utility(I, case)
            fresh = (float(fresh_u.null_score(X.copy(), y.copy(), Xv.copy(), yv.copy())).hex(), float(fresh_u.mean_score(X.copy(), y.copy(), Xv.copy(), yv.copy(), maxiter=9, seed=seed2)).hex())
        except Exception as e:  # noqa
            return None
    return dict(first=first, second_same_objects_after_in_place_edits=second, fresh_objects_with_the_edited_contents=fresh, edits=edits)


def scramble_globals(k):
    import random
    np.random.seed(k)
    random.seed(k)
    np.random.rand(k % 7 + 1)


def state_changes(ctx, changes, where):
    """report (f): a fit/score call changed process-global state; the replay is that call"""
    seen = ctx.extra.setdefault("_state_change_signatures", [])
    for ch in changes:
        sig = [where.split()[0], ch["call"], ch["case"]["method"], ch["case"].get("utility"), ch["case"]["model"], sorted(ch["changed"])]
        ctx.dist["global_state_changed"] += 1
        if sig in seen:
            continue          # one report per (call, method, utility, model, what changed) and process kind in this worker; all are counted
        seen.append(sig)
        ctx.mismatch("%s() changed process-global state as a side effect (%s) [%s]" % (ch["call"], ", ".join(sorted(ch["changed"])), where), ch["case"], impl=ch["changed"],
                     spec="np.geterr(), np.geterrcall(), warnings.filters and os.environ are the same before and after the call")
    del changes[:]


def run(ctx):
    I = load_impl(ctx)
    rng = ctx.rng
    q = ctx.tier == "quick"
    n_cases = 7 if q else 14         # per worker process (quick: 4 workers, thorough: 8)
    for it in range(n_cases):
        method = ["neighbor", "neighborK", "bruteforce", "montecarlo", "mc-trunc", "montecarlo", "mc-trunc"][it % 7]
        mc_trunc = method == "mc-trunc"
        if mc_trunc:
            method = "montecarlo"
        n = rng.randint(4, 6 if method != "neighbor" else 9)
        if mc_trunc:
            n = rng.randint(7, 10)
        nprng = np.random.RandomState(rng.randrange(2 ** 31))
        X = np.round(nprng.randn(n, 2), 3).tolist()
        c = rng.randint(2, 3)
        y = [i % c for i in range(n)]
        rng.shuffle(y)
        m = rng.randint(2 if method == "montecarlo" else 1, 4) if not mc_trunc else rng.randint(6, 10)      # mean_score subsamples half of the validation set: needs >= 2 points
        Xv = np.round(nprng.randn(m, 2), 3).tolist()
        yv = [rng.randrange(c) for _ in range(m)]
        case = dict(X=X, y=y, Xv=Xv, yv=yv, model=rng.choice(["knn", "logreg", "rtree", "pipe_rtree", "custom_global", "rforest", "gnb", "gnb", "gnb"]) if method in ("bruteforce", "montecarlo") else "knn",
                    joint=(rng.random() < 0.3), method=("neighbor" if method.startswith("neighbor") else method), kw={}, utility="accuracy")
        if method == "neighbor" and not case["joint"] and rng.random() < 0.4:
            case["utility"] = "rocauc"
        seed = rng.randrange(10 ** 6) if it % 3 else 0          # 0 is a legitimate seed
        if method == "neighbor" and rng.random() < 0.5:
            nu = rng.randint(2, n)
            g = [rng.randrange(nu) for _ in range(n)]
            for u in range(nu):
                g[u] = u
            case["groups"] = [3 * x + 5 for x in g]
        if method in ("neighbor", "montecarlo", "bruteforce") and case.get("groups") is None and it % 3 == 1:
            # units named by STRING keys (hash-randomised per process) and asked for by name, in an order of the caller's own
            nu = rng.randint(3, min(n, 5))
            names = ["u-%s" % w for w in rng.sample(["alpha", "bravo", "charlie", "delta", "echo", "foxtrot", "golf"], nu)]
            rows_u = list(range(nu)) + [rng.randrange(nu) for _ in range(n - nu)]
            ask = rng.sample(names, rng.randint(2, nu))
            case["named_units"] = dict(names=names, rows=rows_u, ask=ask)
        if method in ("bruteforce", "montecarlo") and case.get("named_units") is None and case.get("groups") is None and it % 3 == 2 and not case["joint"]:
            # labels as a Series and training metadata as a DataFrame keyed by strings (what a table read from a file carries)
            case["pandas_keys"] = ["row-%s" % w for w in rng.sample(["north", "south", "east", "west", "up", "down", "left", "right", "front", "back", "in", "out"], n)]
        if method == "neighborK":
            case["kw"] = {"nn_k": 2}
            n_units = rng.randint(2, 4)
            case["n_units"] = n_units
            case["conj"] = [sorted(rng.sample(range(n_units), rng.randint(1, min(2, n_units)))) for _ in range(n)]
            case["joint"] = False
        if mc_trunc:
            # truncation is steered by utility.mean_score, which fits the model once more: a randomised estimator (random_state=None) makes any
            # unseeded use of the global generator visible in WHERE permutations are cut
            case["model"] = rng.choice(["rtree", "rforest", "pipe_rtree", "custom_global"])
            case["joint"] = False
            case["kw"] = {"mc_iterations": rng.randint(6, 12), "mc_truncation_steps": 1, "mc_tolerance": rng.choice([0.25, 0.5, 1.0]), "seed": seed}
        elif method == "montecarlo":
            case["kw"] = {"mc_iterations": rng.randint(2, 6), "mc_truncation_steps": rng.choice([0, 1, 2]), "mc_tolerance": rng.choice([0.1, 0.5]), "seed": seed}
        if method == "bruteforce":
            case["kw"] = {"seed": seed}
        if rng.random() < 0.65:
            # the two fresh importance objects below - and about half of the fresh objects of the history that runs in between (here and in the
            # subprocesses) - are handed the SAME utility object; (d)/(e) reuse it too
            case["share_key"] = "case%d" % it
        hist = rand_history(rng, target=case)
        ran_before = list(worker.LOG)          # what this worker process scored before the first run of this case
        try:
            a, pa = worker.build_and_score(I, dict(case, scramble=None))
            b, pb = worker.build_and_score(I, dict(case, scramble=rng.randrange(1, 10 ** 6), history=hist))
        except Exception as e:  # noqa
            ctx.mismatch("scoring raised", dict(case, history=hist), impl=exc_name(e) + repr(e))
            continue
        finally:
            state_changes(ctx, worker.STATE_CHANGES, "in-process")
        vec = np.frombuffer(bytes.fromhex(a), dtype=float)
        ctx.case(case, nontrivial=len(set(np.round(vec[np.isfinite(vec)], 9).tolist())) > 1, sample=dict(case, scores=vec.tolist()), method=method, model=case["model"], joint=case["joint"], utility=case["utility"])
        ctx.dist["history_len=%d" % len(hist)] += 1
        ctx.dist["utility_object_shared=%s" % ("share_key" in case)] += 1
        ctx.dist["history_items_on_shared_utility=%d" % sum(1 for hh in hist if hh.get("share_key") is not None)] += 1
        # (g) the utility's own answers: equal arguments (same seed) => the same bits, whichever object is asked and whatever it was asked before
        if m >= 2 and case["utility"] == "accuracy":
            seed2 = rng.randrange(1000)
            u1 = worker.make_utility(I, case)
            asked = [("fresh utility object, first call", utility_values(u1, case, seed2))]
            scramble_globals(rng.randrange(1, 10 ** 6))
            asked.append(("the same utility object, same calls repeated after the global generators were re-seeded", utility_values(u1, case, seed2)))
            asked.append(("another fresh utility object", utility_values(worker.make_utility(I, case), case, seed2)))
            if "share_key" in case:
                asked.append(("the utility object the scorings above shared", utility_values(worker.SHARED[case["share_key"]], case, seed2)))
            ctx.dist["utility_values_compared"] += 1
            ed = edited_in_place_values(I, case, seed2, rng)
            if ed is not None:
                ctx.dist["utility_values_after_in_place_edit_compared"] += 1
                if ed["second_same_objects_after_in_place_edits"] != ed["fresh_objects_with_the_edited_contents"]:
                    ctx.mismatch("utility.null_score / mean_score answered for array OBJECTS it had seen before although their contents were edited in place (a remembered "
                                 "answer): a scoring run after a data repair would then depend on what was scored before", case, impl=ed,
                                 spec="the values a fresh utility object returns for the edited contents")
            if any(v != asked[0][1] for _, v in asked[1:]):
                ctx.mismatch("utility.null_score / mean_score return different values for equal arguments (same data, same maxiter, same seed) - the values the "
                             "truncation of montecarlo, and so its reproducibility from the seed, rests on", case, impl=asked,
                             spec="bit-identical values from every call with equal arguments")
        if a != b or pa != pb:
            ctx.mismatch("scores/permutations of a fresh object changed after the global random generators were re-seeded and other scorings (history) ran in the same process",
                         dict(case, history=hist), impl=dict(first=vec.tolist(), second=np.frombuffer(bytes.fromhex(b), dtype=float).tolist(), perms=[pa, pb]))
            continue
        if it % 2 == 0 or not q or case["model"] == "gnb" or case.get("named_units") is not None:
            for hs in ([0, 1] if q else [0, 1, rng.randrange(2, 10 ** 6)]):
                # PYTHONHASHSEED=0: nothing ran before in that process; otherwise another history of other scorings runs there first
                hist2 = [] if hs == 0 else rand_history(rng, p_empty=0.0 if hs == 1 else 0.5, target=case)
                r = sub(ctx, dict(case, scramble=rng.randrange(1, 10 ** 6), history=hist2), hs)
                if "error" in r:
                    ctx.mismatch("subprocess run failed", dict(case, history=hist2), impl=r["error"])
                    break
                state_changes(ctx, r.get("state_changes", []), "subprocess PYTHONHASHSEED=%s" % hs)
                if r["hex"] != a or r["perms"] != pa:
                    ctx.mismatch("scores differ in another interpreter process (PYTHONHASHSEED=%s, after %d other scorings there; here after the scorings of this worker process)" % (hs, len(hist2)),
                                 dict(case, history=hist2),
                                 impl=dict(here=vec.tolist(), there=np.frombuffer(bytes.fromhex(r["hex"]), dtype=float).tolist(), scored_here_before=ran_before,
                                           scored_there_before=r.get("log", [])[:-1]))
                    break
        # seed independence
        try:
            if method in ("neighbor", "neighborK", "bruteforce"):
                c2 = dict(case, kw=dict(case["kw"], seed=seed + 12345))
                d, _ = worker.build_and_score(I, dict(c2, scramble=None))
                if d != a:
                    ctx.mismatch("%s scores depend on the seed" % method, case, impl=dict(seed_a=vec.tolist(), seed_b=np.frombuffer(bytes.fromhex(d), dtype=float).tolist()))
            else:
                c2 = dict(case, kw=dict(case["kw"], seed=seed + 999), forced=pa)
                d, pd = worker.build_and_score(I, dict(c2, scramble=None))
                if d != a:
                    ctx.mismatch("montecarlo with identical permutations but a different seed returned different scores (seed acts through something else than the permutations)",
                                 case, impl=dict(seed_a=vec.tolist(), seed_b=np.frombuffer(bytes.fromhex(d), dtype=float).tolist()))
                c3 = dict(case, kw=dict(case["kw"], seed=seed + 999))
                _, p3 = worker.build_and_score(I, dict(c3, scramble=None))
                ctx.dist["mc_seed_changes_perms=%s" % (p3 != pa)] += 1
        except Exception as e:  # noqa
            ctx.mismatch("scoring raised", case, impl=exc_name(e) + repr(e))
        state_changes(ctx, worker.STATE_CHANGES, "in-process")
        if ctx.elapsed() > (600 if q else 2400):
            break
    return ctx.finish("other", "Partial by nature. The model of each method is a pure function of (data, parameters, list of permutations) - there is no other input in "
                      "its signature (C04_estimator/C04_uniform take the permutations as an argument; the kernel, bruteforce and ADD models take none), which is all a "
                      "theorem can say. Hidden inputs of the implementation (global RNG state, hash randomisation, process identity) cannot be exhibited by a model and are "
                      "decided here by perturbation runs: re-seeded global generators, other scorings run before in the same process, fresh interpreter processes with "
                      "different PYTHONHASHSEED (with and without other scorings before), seed changes, injected permutations; everything is compared byte for byte; "
                      "the process-global floating-point error mode, warning filters and environment are snapshotted around every call.", RULE)
