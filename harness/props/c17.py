"""C17 — scoring is deterministic and reproducible from the seed."""
import json
import os
import subprocess
import sys
import numpy as np
from props.common import load_impl, exc_name
import worker

RULE = ("random small datasets x methods (neighbor K=1 default/grouped provenance, neighbor K=2 through the ADD path, bruteforce, montecarlo) x utilities "
        "(accuracy with 1-NN / logistic regression / estimators that draw from numpy's global generator (random-splitter tree bare and inside a Pipeline, small forest, a custom estimator without random_state; all random_state=None), JointUtility): the same case is scored (a) twice in-process on fresh objects, (b) again after re-seeding and "
        "advancing numpy's and random's global generators, (c) in fresh interpreter processes with PYTHONHASHSEED = 0, 1 and a random value; all score vectors must be "
        "bit-identical (compared as bytes) and montecarlo must draw identical permutations; (d) neighbor and bruteforce must not change when the seed changes; "
        "(e) montecarlo with different seeds but identical (injected) permutations must return identical scores. Non-trivial = the score vector is not constant; "
        "distinct = distinct (dataset, method, utility, seed).")


def sub(ctx, case, hashseed):
    env = dict(os.environ, PYTHONHASHSEED=str(hashseed), PYTHONDONTWRITEBYTECODE="1")
    r = subprocess.run([sys.executable, os.path.join(os.path.dirname(worker.__file__), "worker.py"), ctx.work], input=json.dumps(case), capture_output=True,
                       text=True, env=env, timeout=300)
    for line in r.stdout.splitlines():
        if line.startswith("RESULT "):
            return json.loads(line[7:])
    return {"error": (r.stderr or r.stdout)[-400:]}


def run(ctx):
    I = load_impl(ctx)
    rng = ctx.rng
    q = ctx.tier == "quick"
    n_cases = 7 if q else 14         # per worker process (quick: 4 workers, thorough: 8)
    for it in range(n_cases):
        method = ["neighbor", "neighborK", "bruteforce", "montecarlo", "mc-trunc", "montecarlo", "mc-trunc"][it % 7]
        mc_trunc = method == "mc-trunc"
        if mc_trunc:
            method = "montecarlo"
        n = rng.randint(4, 6 if method != "neighbor" else 9)
        if mc_trunc:
            n = rng.randint(7, 10)
        nprng = np.random.RandomState(rng.randrange(2 ** 31))
        X = np.round(nprng.randn(n, 2), 3).tolist()
        c = rng.randint(2, 3)
        y = [i % c for i in range(n)]
        rng.shuffle(y)
        m = rng.randint(2 if method == "montecarlo" else 1, 4) if not mc_trunc else rng.randint(6, 10)      # mean_score subsamples half of the validation set: needs >= 2 points
        Xv = np.round(nprng.randn(m, 2), 3).tolist()
        yv = [rng.randrange(c) for _ in range(m)]
        case = dict(X=X, y=y, Xv=Xv, yv=yv, model=rng.choice(["knn", "logreg", "rtree", "pipe_rtree", "custom_global", "rforest"]) if method in ("bruteforce", "montecarlo") else "knn",
                    joint=(rng.random() < 0.3), method=("neighbor" if method.startswith("neighbor") else method), kw={})
        seed = rng.randrange(10 ** 6) if it % 3 else 0          # 0 is a legitimate seed
        if method == "neighbor" and rng.random() < 0.5:
            nu = rng.randint(2, n)
            g = [rng.randrange(nu) for _ in range(n)]
            for u in range(nu):
                g[u] = u
            case["groups"] = [3 * x + 5 for x in g]
        if method == "neighborK":
            case["kw"] = {"nn_k": 2}
            n_units = rng.randint(2, 4)
            case["n_units"] = n_units
            case["conj"] = [sorted(rng.sample(range(n_units), rng.randint(1, min(2, n_units)))) for _ in range(n)]
            case["joint"] = False
        if mc_trunc:
            # truncation is steered by utility.mean_score, which fits the model once more: a randomised estimator (random_state=None) makes any
            # unseeded use of the global generator visible in WHERE permutations are cut
            case["model"] = rng.choice(["rtree", "rforest", "pipe_rtree", "custom_global"])
            case["joint"] = False
            case["kw"] = {"mc_iterations": rng.randint(6, 12), "mc_truncation_steps": 1, "mc_tolerance": rng.choice([0.25, 0.5, 1.0]), "seed": seed}
        elif method == "montecarlo":
            case["kw"] = {"mc_iterations": rng.randint(2, 6), "mc_truncation_steps": rng.choice([0, 1, 2]), "mc_tolerance": rng.choice([0.1, 0.5]), "seed": seed}
        if method == "bruteforce":
            case["kw"] = {"seed": seed}
        try:
            a, pa = worker.build_and_score(I, dict(case, scramble=None))
            b, pb = worker.build_and_score(I, dict(case, scramble=rng.randrange(1, 10 ** 6)))
        except Exception as e:  # noqa
            ctx.mismatch("scoring raised", case, impl=exc_name(e) + repr(e))
            continue
        vec = np.frombuffer(bytes.fromhex(a), dtype=float)
        ctx.case(case, nontrivial=len(set(np.round(vec, 9).tolist())) > 1, sample=dict(case, scores=vec.tolist()), method=method, model=case["model"], joint=case["joint"])
        if a != b or pa != pb:
            ctx.mismatch("scores/permutations changed after the global random generators were re-seeded", case, impl=dict(first=vec.tolist(), second=np.frombuffer(bytes.fromhex(b), dtype=float).tolist(), perms=[pa, pb]))
            continue
        if it % 2 == 0 or not q:
            for hs in ([0, 1] if q else [0, 1, rng.randrange(2, 10 ** 6)]):
                r = sub(ctx, dict(case, scramble=rng.randrange(1, 10 ** 6)), hs)
                if "error" in r:
                    ctx.mismatch("subprocess run failed", case, impl=r["error"])
                    break
                if r["hex"] != a or r["perms"] != pa:
                    ctx.mismatch("scores differ in another interpreter process (PYTHONHASHSEED=%s)" % hs, case,
                                 impl=dict(here=vec.tolist(), there=np.frombuffer(bytes.fromhex(r["hex"]), dtype=float).tolist()))
                    break
        # seed independence
        try:
            if method in ("neighbor", "neighborK", "bruteforce"):
                c2 = dict(case, kw=dict(case["kw"], seed=seed + 12345))
                d, _ = worker.build_and_score(I, dict(c2, scramble=None))
                if d != a:
                    ctx.mismatch("%s scores depend on the seed" % method, case, impl=dict(seed_a=vec.tolist(), seed_b=np.frombuffer(bytes.fromhex(d), dtype=float).tolist()))
            else:
                c2 = dict(case, kw=dict(case["kw"], seed=seed + 999), forced=pa)
                d, pd = worker.build_and_score(I, dict(c2, scramble=None))
                if d != a:
                    ctx.mismatch("montecarlo with identical permutations but a different seed returned different scores (seed acts through something else than the permutations)",
                                 case, impl=dict(seed_a=vec.tolist(), seed_b=np.frombuffer(bytes.fromhex(d), dtype=float).tolist()))
                c3 = dict(case, kw=dict(case["kw"], seed=seed + 999))
                _, p3 = worker.build_and_score(I, dict(c3, scramble=None))
                ctx.dist["mc_seed_changes_perms=%s" % (p3 != pa)] += 1
        except Exception as e:  # noqa
            ctx.mismatch("scoring raised", case, impl=exc_name(e) + repr(e))
        if ctx.elapsed() > (600 if q else 2400):
            break
    return ctx.finish("other", "Partial by nature. The model of each method is a pure function of (data, parameters, list of permutations) - there is no other input in "
                      "its signature (C04_estimator/C04_uniform take the permutations as an argument; the kernel, bruteforce and ADD models take none), which is all a "
                      "theorem can say. Hidden inputs of the implementation (global RNG state, hash randomisation, process identity) cannot be exhibited by a model and are "
                      "decided here by perturbation runs: re-seeded global generators, fresh interpreter processes with different PYTHONHASHSEED, seed changes, injected "
                      "permutations; everything is compared byte for byte.", RULE)
