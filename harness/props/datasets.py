"""small labelled datasets for the end-to-end neighbor checks (distances through a recorded matrix)"""
from fractions import Fraction
import numpy as np
import gen


def rand_dataset(rng, max_units=7, max_points=5, allow_groups=True, classes_max=4, ties=False):
    n_units = rng.randint(2, max_units)
    mode = rng.choice(["default", "groups"]) if allow_groups else "default"
    c = rng.randint(2, classes_max)
    m = rng.randint(1, max_points)
    if mode == "default":
        n_rows = n_units
        groups = list(range(n_units))
    else:
        n_rows = rng.randint(n_units, n_units + 4)
        groups = gen.rand_groups(rng, n_rows, n_units)
    pool = sorted(rng.sample(range(0, 40), c))
    y_train = [rng.choice(pool) for _ in range(n_rows)]
    for k, cl in enumerate(pool[:min(c, n_rows)]):
        y_train[k] = cl
    classes = sorted(set(y_train))
    y_test = [rng.choice(classes) for _ in range(m)]
    dist = np.array(gen.tied_distances(rng, n_rows, m) if ties else gen.distinct_distances(rng, n_rows, m), dtype=float)
    return dict(n_units=n_units, n_rows=n_rows, mode=mode, groups=groups, y_train=y_train, y_test=y_test, classes=classes, dist=dist, m=m)


def prov_arg(I, ds):
    if ds["mode"] == "default":
        return None, {"nUnits": ds["n_units"], "default": True}, True
    return np.array(ds["groups"]), {"nUnits": ds["n_units"], "groups": ds["groups"]}, False


def neighbor_scores(I, ds, util, K=1, dist=None, y_train=None, y_test=None, provenance="auto", X=None, Xv=None):
    D = ds["dist"] if dist is None else dist
    ytr = ds["y_train"] if y_train is None else y_train
    yte = ds["y_test"] if y_test is None else y_test
    if isinstance(provenance, str) and provenance == "auto":
        provenance = prov_arg(I, ds)[0]
    n_rows, m = D.shape
    X = np.arange(n_rows, dtype=float).reshape(-1, 1) if X is None else X
    Xv = np.arange(m, dtype=float).reshape(-1, 1) if Xv is None else Xv
    imp = I["imp"].ShapleyImportance(method="neighbor", utility=util, nn_k=K, nn_distance=lambda A, B, D=D: np.array(D, dtype=float))
    return list(np.asarray(imp.fit(X, np.array(ytr), provenance=provenance).score(Xv, np.array(yte)), dtype=float))


def model_req(ds, preq, simple, ureq, K=1, dist=None, y_train=None, y_test=None):
    D = ds["dist"] if dist is None else dist
    return {"op": "neighbor", "prov": preq, "simple": simple, "yTrain": ds["y_train"] if y_train is None else y_train,
            "yTest": ds["y_test"] if y_test is None else y_test, "dist": [[str(Fraction(float(x))) for x in row] for row in np.asarray(D).tolist()], "K": K, **ureq}
