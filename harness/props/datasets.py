"""small labelled datasets for the end-to-end neighbor checks (distances through a recorded matrix)"""
from fractions import Fraction
import numpy as np
import gen


def rand_dataset(rng, max_units=7, max_points=5, allow_groups=True, classes_max=4, ties=False):
    n_units = rng.randint(2, max_units)
    mode = rng.choice(["default", "groups"]) if allow_groups else "default"
    c = rng.randint(2, classes_max)
    m = rng.randint(1, max_points)
    if mode == "default":
        n_rows = n_units
        groups = list(range(n_units))
    else:
        n_rows = rng.randint(n_units, n_units + 4)
        groups = gen.rand_groups(rng, n_rows, n_units)
    pool = sorted(rng.sample(range(0, 40), c))
    y_train = [rng.choice(pool) for _ in range(n_rows)]
    for k, cl in enumerate(pool[:min(c, n_rows)]):
        y_train[k] = cl
    classes = sorted(set(y_train))
    y_test = [rng.choice(classes) for _ in range(m)]
    dist = np.array(gen.tied_distances(rng, n_rows, m) if ties else gen.distinct_distances(rng, n_rows, m), dtype=float)
    return dict(n_units=n_units, n_rows=n_rows, mode=mode, groups=groups, y_train=y_train, y_test=y_test, classes=classes, dist=dist, m=m)


def prov_arg(I, ds):
    if ds["mode"] == "default":
        return None, {"nUnits": ds["n_units"], "default": True}, True
    return np.array(ds["groups"]), {"nUnits": ds["n_units"], "groups": ds["groups"]}, False


def neighbor_scores(I, ds, util, K=1, dist=None, y_train=None, y_test=None, provenance="auto", X=None, Xv=None):
    D = ds["dist"] if dist is None else dist
    ytr = ds["y_train"] if y_train is None else y_train
    yte = ds["y_test"] if y_test is None else y_test
    if isinstance(provenance, str) and provenance == "auto":
        provenance = prov_arg(I, ds)[0]
    n_rows, m = D.shape
    X = np.arange(n_rows, dtype=float).reshape(-1, 1) if X is None else X
    Xv = np.arange(m, dtype=float).reshape(-1, 1) if Xv is None else Xv
    imp = I["imp"].ShapleyImportance(method="neighbor", utility=util, nn_k=K, nn_distance=lambda A, B, D=D: np.array(D, dtype=float))
    return list(np.asarray(imp.fit(X, np.array(ytr), provenance=provenance).score(Xv, np.array(yte)), dtype=float))


def rand_multicand(rng, n_units=None, max_units=6, n_cands=None, explicit_world=None):
    """explicit map/fork provenance with >= 3 candidates (`Provenance(units=n, candidates=C, data=[[unit, candidate], ...])`): every training row carries ONE
    literal (unit == candidate) with a non-null candidate, and some unit owns rows under MORE THAN ONE candidate value (alternative versions of a record).
    world[u] = the candidate unit u takes when it is present (None = the default world of score(): candidate 1 everywhere).  A row belongs to the
    training set of coalition S iff its unit is in S and its candidate is the world's candidate of that unit ("unit present => its world candidate, absent
    => candidate 0").  Returns lits (row -> (unit, candidate)), world (None or list), wvals (the world spelt out), present (row -> in the full training set)."""
    n_units = rng.randint(2, max_units) if n_units is None else n_units
    n_cands = rng.randint(3, 4) if n_cands is None else n_cands
    for _ in range(50):
        lits = []
        for u in range(n_units):
            if rng.random() < 0.15:
                continue                                        # a unit that owns no row at all
            for c in rng.sample(range(1, n_cands), rng.randint(1, n_cands - 1)):
                lits.extend([(u, c)] * rng.choice([1, 1, 2]))
        u0 = rng.randrange(n_units)
        for c in rng.sample(range(1, n_cands), 2):              # unit u0 surely owns rows under two candidate values
            if (u0, c) not in lits:
                lits.append((u0, c))
        rng.shuffle(lits)
        explicit = (rng.random() < 0.5) if explicit_world is None else explicit_world
        world = [rng.randint(1, n_cands - 1) for _ in range(n_units)] if explicit else None
        wvals = world if world is not None else [1] * n_units
        present = [c == wvals[u] for u, c in lits]
        if any(present) and not all(present):
            break
    return dict(n_units=n_units, n_cands=n_cands, lits=lits, world=world, wvals=wvals, present=present, n_rows=len(lits))


def multicand_prov(I, mc):
    """the real Provenance object and its description for the model (flat literals; the model's neighbor path knows the default world only)"""
    prov = I["provenance"].Provenance(units=mc["n_units"], candidates=mc["n_cands"], data=np.array(mc["lits"], dtype=int))
    preq = {"nUnits": mc["n_units"], "nCands": mc["n_cands"], "exprs": [{"eq": [u, c]} for u, c in mc["lits"]]}
    return prov, preq


def world_arg(rng, mc):
    """keyword arguments of score() for the world: nothing (default), a list of candidate keys, or an index array"""
    if mc["world"] is None:
        return {}
    return {"world": list(mc["world"])} if rng.random() < 0.5 else {"world": np.array(mc["world"], dtype=int)}


def multicand_labels(rng, mc, pool):
    """labels from `pool`; the rows of the full training set show every class that occurs at all (so 'the classes of the training set' is unambiguous)"""
    y = [rng.choice(pool) for _ in range(mc["n_rows"])]
    pres = [r for r in range(mc["n_rows"]) if mc["present"][r]]
    for k, cl in enumerate(pool[:len(pres)]):
        if rng.random() < 0.8:
            y[pres[k]] = cl
    shown = sorted(set(y[r] for r in pres))
    if not shown:
        return y
    return [y[r] if (mc["present"][r] or y[r] in shown) else rng.choice(shown) for r in range(mc["n_rows"])]


def tie_rich_columns(rng, n_rows, m, p_same=0.85):
    """small-integer distance columns (validation points) with many ties: each column keeps one shared STABLE ranking (np.argsort(kind='stable'): by distance,
    then by row index) with probability p_same, but the columns differ in their tie pattern - one point is tie-free, the others tie neighbouring rows of the
    ranking wherever that leaves the stable ranking unchanged.  Returns (n_rows x m float array, number of distinct (ranking, tie pattern) pairs)."""
    base = list(range(n_rows))
    if rng.random() < 0.6:
        rng.shuffle(base)                                       # (the identity ranking allows a tie between any two neighbours)
    cols, pats = [], set()
    for j in range(m):
        pi = list(base)
        if rng.random() > p_same:
            rng.shuffle(pi)
        tie_free = (j == 0)
        d, cur, pat = [0] * n_rows, rng.randint(0, 2), []
        for k, r in enumerate(pi):
            if k > 0:
                # a zero step keeps the stable ranking only where the row indices ascend
                step = 0 if (not tie_free and pi[k - 1] < r and rng.random() < 0.7) else rng.randint(1, 2)
                cur += step
                pat.append(step == 0)
            d[r] = cur
        cols.append(d)
        pats.add((tuple(pi), tuple(pat)))
    order = list(range(m))
    rng.shuffle(order)                                          # the tie-free point is not always first
    return np.array([cols[j] for j in order], dtype=float).T.copy(), len(pats)


def model_req(ds, preq, simple, ureq, K=1, dist=None, y_train=None, y_test=None):
    D = ds["dist"] if dist is None else dist
    return {"op": "neighbor", "prov": preq, "simple": simple, "yTrain": ds["y_train"] if y_train is None else y_train,
            "yTest": ds["y_test"] if y_test is None else y_test, "dist": [[str(Fraction(float(x))) for x in row] for row in np.asarray(D).tolist()], "K": K, **ureq}
