"""small labelled datasets for the end-to-end neighbor checks (distances through a recorded matrix)"""
from fractions import Fraction
import numpy as np
import gen


def rand_dataset(rng, max_units=7, max_points=5, allow_groups=True, classes_max=4, ties=False):
    n_units = rng.randint(2, max_units)
    mode = rng.choice(["default", "groups"]) if allow_groups else "default"
    c = rng.randint(2, classes_max)
    m = rng.randint(1, max_points)
    if mode == "default":
        n_rows = n_units
        groups = list(range(n_units))
    else:
        n_rows = rng.randint(n_units, n_units + 4)
        groups = gen.rand_groups(rng, n_rows, n_units)
    pool = sorted(rng.sample(range(0, 40), c))
    y_train = [rng.choice(pool) for _ in range(n_rows)]
    for k, cl in enumerate(pool[:min(c, n_rows)]):
        y_train[k] = cl
    classes = sorted(set(y_train))
    y_test = [rng.choice(classes) for _ in range(m)]
    dist = np.array(gen.tied_distances(rng, n_rows, m) if ties else gen.distinct_distances(rng, n_rows, m), dtype=float)
    return dict(n_units=n_units, n_rows=n_rows, mode=mode, groups=groups, y_train=y_train, y_test=y_test, classes=classes, dist=dist, m=m)


def prov_arg(I, ds):
    if ds["mode"] == "default":
        return None, {"nUnits": ds["n_units"], "default": True}, True
    return np.array(ds["groups"]), {"nUnits": ds["n_units"], "groups": ds["groups"]}, False


def neighbor_scores(I, ds, util, K=1, dist=None, y_train=None, y_test=None, provenance="auto", X=None, Xv=None):
    D = ds["dist"] if dist is None else dist
    ytr = ds["y_train"] if y_train is None else y_train
    yte = ds["y_test"] if y_test is None else y_test
    if isinstance(provenance, str) and provenance == "auto":
        provenance = prov_arg(I, ds)[0]
    n_rows, m = D.shape
    X = np.arange(n_rows, dtype=float).reshape(-1, 1) if X is None else X
    custom = X is not None or Xv is not None
    if Xv is None:
        Xv = np.arange(m, dtype=float).reshape(-1, 1)
        for (j1, j2) in ds.get("val_twins", []) if dist is None and y_test is None else []:
            Xv[j2, 0] = Xv[j1, 0]          # validation points with IDENTICAL features (their distance columns are identical too)

    def dfun(A, B, D=D):
        # the feature of a row is its index: the callable honours the rows it is GIVEN (batches, any sub-selection the implementation makes)
        if custom:
            return np.array(D, dtype=float)
        D_ = np.asarray(D, dtype=float)
        return np.array(D_[np.ix_([int(v) for v in np.asarray(A)[:, 0]], [int(v) for v in np.asarray(B)[:, 0]])], dtype=float)
    imp = I["imp"].ShapleyImportance(method="neighbor", utility=util, nn_k=K, nn_distance=dfun)
    return list(np.asarray(imp.fit(X, np.array(ytr), provenance=provenance).score(Xv, np.array(yte)), dtype=float))


def rand_multicand(rng, n_units=None, max_units=6, n_cands=None, explicit_world=None):
    """explicit map/fork provenance with >= 3 candidates (`Provenance(units=n, candidates=C, data=[[unit, candidate], ...])`): every training row carries ONE
    literal (unit == candidate) with a non-null candidate, and some unit owns rows under MORE THAN ONE candidate value (alternative versions of a record).
    world[u] = the candidate unit u takes when it is present (None = the default world of score(): candidate 1 everywhere).  A row belongs to the
    training set of coalition S iff its unit is in S and its candidate is the world's candidate of that unit ("unit present => its world candidate, absent
    => candidate 0").  Returns lits (row -> (unit, candidate)), world (None or list), wvals (the world spelt out), present (row -> in the full training set)."""
    n_units = rng.randint(2, max_units) if n_units is None else n_units
    n_cands = rng.randint(3, 4) if n_cands is None else n_cands
    for _ in range(50):
        lits = []
        for u in range(n_units):
            if rng.random() < 0.15:
                continue                                        # a unit that owns no row at all
            for c in rng.sample(range(1, n_cands), rng.randint(1, n_cands - 1)):
                lits.extend([(u, c)] * rng.choice([1, 1, 2]))
        u0 = rng.randrange(n_units)
        for c in rng.sample(range(1, n_cands), 2):              # unit u0 surely owns rows under two candidate values
            if (u0, c) not in lits:
                lits.append((u0, c))
        rng.shuffle(lits)
        explicit = (rng.random() < 0.5) if explicit_world is None else explicit_world
        world = [rng.randint(1, n_cands - 1) for _ in range(n_units)] if explicit else None
        wvals = world if world is not None else [1] * n_units
        present = [c == wvals[u] for u, c in lits]
        if any(present) and not all(present):
            break
    return dict(n_units=n_units, n_cands=n_cands, lits=lits, world=world, wvals=wvals, present=present, n_rows=len(lits))


def multicand_prov(I, mc):
    """the real Provenance object and its description for the model (flat literals; the model's neighbor path knows the default world only)"""
    prov = I["provenance"].Provenance(units=mc["n_units"], candidates=mc["n_cands"], data=np.array(mc["lits"], dtype=int))
    preq = {"nUnits": mc["n_units"], "nCands": mc["n_cands"], "exprs": [{"eq": [u, c]} for u, c in mc["lits"]]}
    return prov, preq


def world_arg(rng, mc):
    """keyword arguments of score() for the world: nothing (default), a list of candidate keys, or an index array"""
    if mc["world"] is None:
        return {}
    return {"world": list(mc["world"])} if rng.random() < 0.5 else {"world": np.array(mc["world"], dtype=int)}


def multicand_labels(rng, mc, pool):
    """labels from `pool`; the rows of the full training set show every class that occurs at all (so 'the classes of the training set' is unambiguous)"""
    y = [rng.choice(pool) for _ in range(mc["n_rows"])]
    pres = [r for r in range(mc["n_rows"]) if mc["present"][r]]
    for k, cl in enumerate(pool[:len(pres)]):
        if rng.random() < 0.8:
            y[pres[k]] = cl
    shown = sorted(set(y[r] for r in pres))
    if not shown:
        return y
    return [y[r] if (mc["present"][r] or y[r] in shown) else rng.choice(shown) for r in range(mc["n_rows"])]


def tie_rich_columns(rng, n_rows, m, p_same=0.85):
    """small-integer distance columns (validation points) with many ties: each column keeps one shared STABLE ranking (np.argsort(kind='stable'): by distance,
    then by row index) with probability p_same, but the columns differ in their tie pattern - one point is tie-free, the others tie neighbouring rows of the
    ranking wherever that leaves the stable ranking unchanged.  Returns (n_rows x m float array, number of distinct (ranking, tie pattern) pairs)."""
    base = list(range(n_rows))
    if rng.random() < 0.6:
        rng.shuffle(base)                                       # (the identity ranking allows a tie between any two neighbours)
    cols, pats = [], set()
    for j in range(m):
        pi = list(base)
        if rng.random() > p_same:
            rng.shuffle(pi)
        tie_free = (j == 0)
        d, cur, pat = [0] * n_rows, rng.randint(0, 2), []
        for k, r in enumerate(pi):
            if k > 0:
                # a zero step keeps the stable ranking only where the row indices ascend
                step = 0 if (not tie_free and pi[k - 1] < r and rng.random() < 0.7) else rng.randint(1, 2)
                cur += step
                pat.append(step == 0)
            d[r] = cur
        cols.append(d)
        pats.add((tuple(pi), tuple(pat)))
    order = list(range(m))
    rng.shuffle(order)                                          # the tie-free point is not always first
    return np.array([cols[j] for j in order], dtype=float).T.copy(), len(pats)


def model_req(ds, preq, simple, ureq, K=1, dist=None, y_train=None, y_test=None):
    D = ds["dist"] if dist is None else dist
    return {"op": "neighbor", "prov": preq, "simple": simple, "yTrain": ds["y_train"] if y_train is None else y_train,
            "yTest": ds["y_test"] if y_test is None else y_test, "dist": [[str(Fraction(float(x))) for x in row] for row in np.asarray(D).tolist()], "K": K, **ureq}


# ---- explicit single-literal groupings with units that own NO row, and in-unit distance ties: additive helpers for C06 / C07 -------------------

def rand_groups_empty(rng, n_rows, n_units, where=None):
    """row -> unit of an explicit (non-simple) single-literal map/fork grouping over n_units >= 2 units in which some units own NO training row
    (`Provenance(units=n_units, data=groups)`; as after filtering rows out of a provenance that keeps its unit set).  where: the positions of the
    empty units - 'trailing' (the last k units), 'leading' (the first k), 'middle' (k units strictly inside), 'mixed' (a random subset, mostly
    including the last unit).  Every other unit owns at least one row when n_rows allows; the rows are stored sorted by unit or shuffled.
    Returns (groups, sorted list of the empty units, where)."""
    where = rng.choice(["trailing", "leading", "middle", "mixed"]) if where is None else where
    if where == "middle" and n_units < 3:
        where = "trailing"
    k = rng.randint(1, max(1, min(n_units - 1, max(1, n_units // 3))))
    if where == "trailing":
        empties = list(range(n_units - k, n_units))
    elif where == "leading":
        empties = list(range(k))
    elif where == "middle":
        k = min(k, n_units - 2)
        if rng.random() < 0.5:
            s = rng.randint(1, n_units - 1 - k)
            empties = list(range(s, s + k))                     # one block
        else:
            empties = sorted(rng.sample(range(1, n_units - 1), k))
    else:
        empties = set(rng.sample(range(n_units), k))
        if rng.random() < 0.6:
            if len(empties) == n_units - 1 and (n_units - 1) not in empties:
                empties.pop()
            empties.add(n_units - 1)
        empties = sorted(empties)
    owners = [u for u in range(n_units) if u not in set(empties)]
    groups = [rng.choice(owners) for _ in range(n_rows)]
    slots = rng.sample(range(n_rows), min(n_rows, len(owners)))
    for s, u in zip(slots, owners):
        groups[s] = u
    if rng.random() < 0.5:
        groups.sort()
    empties = [u for u in range(n_units) if u not in set(groups)]      # (with fewer rows than owners, further units are empty)
    return groups, empties, where


def empty_units_prov(I, rng, groups, n_units, form="explicit"):
    """the real Provenance of such a grouping.  'explicit': Provenance(units=n_units, data=groups).  'filtered': a provenance over the same units
    that also held rows of the now-empty units (and further rows of the others), filtered down to `groups` with provenance[boolean mask]."""
    P = I["provenance"].Provenance
    if form == "explicit":
        return P(units=n_units, data=list(groups))
    owned = set(groups)
    extra = [u for u in range(n_units) if u not in owned for _ in range(rng.choice([1, 1, 2]))] + [rng.randrange(n_units) for _ in range(rng.randint(0, 2))]
    tagged = [(g, True) for g in groups]
    for u in extra:
        tagged.insert(rng.randint(0, len(tagged)), (u, False))
    full = P(units=n_units, data=[g for g, _ in tagged])
    return full[np.array([keep for _, keep in tagged], dtype=bool)]


def rand_in_unit_tie_dataset(rng, max_units=6, max_points=5, classes_max=4):
    """grouped dataset (explicit map/fork grouping, K=1) whose distances are small integers WITH exact ties, and in which surely some unit owns two rows
    with DIFFERENT labels that are exactly equidistant from some validation point and are that unit's nearest rows to it.  Distances either as a recorded
    matrix or - kind 'features' - as small-integer feature vectors (1-2 dimensions; the second tied row is the mirror image of the first one about the
    validation point, so the default Euclidean distance ties exactly).  The grouping may have units that own no row (see rand_groups_empty).
    Returns dict(n_units, n_rows, m, groups, empties, y_train, y_test, classes, dist, X, Xv, kind, ties=[(unit, row1, row2, point)])."""
    for _ in range(200):
        n_own = rng.randint(2, max_units)
        sizes = [rng.choice([1, 2, 2, 3]) for _ in range(n_own)]
        if max(sizes) < 2:
            sizes[rng.randrange(n_own)] = 2
        n_empty = rng.choice([0, 0, 1, 2])
        n_units = n_own + n_empty
        pos = sorted(rng.sample(range(n_units), n_own))          # the positions of the units that own rows; the others are empty (anywhere)
        empties = [u for u in range(n_units) if u not in set(pos)]
        groups = [pos[k] for k in range(n_own) for _ in range(sizes[k])]
        rng.shuffle(groups)
        n_rows = len(groups)
        c = rng.randint(2, classes_max)
        m = rng.randint(1, max_points)
        pool = sorted(rng.sample(range(0, 40), c))
        y_train = [rng.choice(pool) for _ in range(n_rows)]
        kind = rng.choice(["matrix", "matrix", "features"])
        if kind == "matrix":
            X = Xv = None
            D = [[rng.randint(1, 6) for _ in range(m)] for _ in range(n_rows)]
        else:
            d = rng.randint(1, 2)
            X = [[rng.randint(-6, 6) for _ in range(d)] for _ in range(n_rows)]
            Xv = [[rng.randint(-4, 4) for _ in range(d)] for _ in range(m)]
        ties = []
        multi = [u for u in pos if groups.count(u) >= 2]
        used_rows = set()
        for u in rng.sample(multi, min(len(multi), rng.randint(1, 2))):
            rows_u = [r for r in range(n_rows) if groups[r] == u]
            j = rng.randrange(m)
            if kind == "matrix":
                r1, r2 = rng.sample(rows_u, 2)
                D[r1][j] = D[r2][j] = min(D[r][j] for r in rows_u)
            else:
                def d2(r):
                    return sum((a - b) ** 2 for a, b in zip(X[r], Xv[j]))
                r1 = min(rows_u, key=lambda r: (d2(r), r))
                r2 = rng.choice([r for r in rows_u if r != r1])
                if r2 in used_rows or r1 in used_rows:
                    continue
                X[r2] = [2 * b - a for a, b in zip(X[r1], Xv[j])]          # the mirror image: exactly as far from point j as row r1
                if X[r2] == X[r1]:
                    X[r1] = [X[r1][0] + 1] + X[r1][1:]
                    X[r2] = [2 * b - a for a, b in zip(X[r1], Xv[j])]
            used_rows.update([r1, r2])
            if y_train[r1] == y_train[r2]:
                y_train[r2] = rng.choice([cl for cl in pool if cl != y_train[r1]])
            ties.append((u, r1, r2, j))
        classes = sorted(set(y_train))
        if len(classes) < 2 or not ties:
            continue
        y_test = [rng.choice(classes) for _ in range(m)]
        for (u, r1, r2, j) in ties:
            if rng.random() < 0.8:
                y_test[j] = y_train[rng.choice([r1, r2])]          # the tie decides whether the unit is right about point j
        if kind == "features":
            D = [[float(np.sqrt(sum((a - b) ** 2 for a, b in zip(X[r], Xv[j])))) for j in range(m)] for r in range(n_rows)]
            # (for the record only: the run itself uses the library's default distance on X / Xv)
            ok = all(sum((a - b) ** 2 for a, b in zip(X[r1], Xv[j])) == sum((a - b) ** 2 for a, b in zip(X[r2], Xv[j])) for (_u, r1, r2, j) in ties)
            if not ok:
                continue
        return dict(n_units=n_units, n_rows=n_rows, m=m, groups=groups, empties=empties, y_train=y_train, y_test=y_test, classes=classes,
                    dist=np.array(D, dtype=float), X=X, Xv=Xv, kind=kind, ties=ties)
    raise RuntimeError("rand_in_unit_tie_dataset: no dataset")
