"""C04 — Monte-Carlo scores are the permutation-sampling estimator of the Shapley value."""
from fractions import Fraction
from itertools import permutations
import numpy as np
import gen
import spec
from props.common import load_impl, exc_name, make_prov
from props import tables
from props.mcutil import RecordingRandomState

RULE = ("method='montecarlo' with truncation and timeout disabled, table utilities (independent value or caught failure per reachable row subset), random DNF "
        "provenances incl. value-0 literals, 1-6 units, 1-30 iterations quick / 1-200 thorough, random seeds; the instance's RandomState is wrapped to record "
        "every permutation drawn; compared with the Lean model Ds.MC.run fed the same permutations, with the by-definition per-permutation marginals (Fractions), "
        "the sum identity, and - under an injected schedule of all n! permutations (n <= 5) - with the bruteforce vector; global RNGs are scrambled between two "
        "runs with the same seed (permutations must be identical and drawn from the instance generator only). Non-trivial = >= 2 units, >= 2 iterations, >= 3 distinct "
        "coalition values; distinct = distinct (provenance, table, seed, iterations).")


def estimator(n, exprs, table, null, perms):
    cols = []
    for p in perms:
        a = [0] * n
        prev = tables.value_of(table, tables.rows_present(exprs, a), null)
        col = [Fraction(0)] * n
        for u in p:
            a[u] = 1
            cur = tables.value_of(table, tables.rows_present(exprs, a), null)
            col[u] = cur - prev
            prev = cur
        cols.append(col)
    return [sum(c[i] for c in cols) / len(cols) for i in range(n)]


def run_mc(I, prov, n_rows, util, iterations, seed, forced=None, scramble=None):
    import random
    if scramble is not None:
        np.random.seed(scramble)
        random.seed(scramble)
    imp = I["imp"].ShapleyImportance(method="montecarlo", utility=util, mc_iterations=iterations, mc_timeout=0, mc_truncation_steps=0, seed=seed)
    rec = RecordingRandomState(imp.randomstate, forced)
    imp.randomstate = rec
    X = np.arange(n_rows, dtype=float).reshape(-1, 1)
    res = list(np.asarray(tables.fit_ids(util, imp, X, prov).score(np.zeros((1, 1)), np.zeros(1, dtype=int)), dtype=float))
    return res, rec


def run(ctx):
    I = load_impl(ctx)
    rng = ctx.rng
    q = ctx.tier == "quick"
    n_cases = 60 if q else 400
    for it in range(n_cases):
        n_units = rng.randint(1, 6)
        exprs = [gen.rand_expr_flat(rng, n_units, 2, 3, 2, p_zero=0.25) for _ in range(rng.randint(1, 5))]
        if it % 5 == 3:
            # map/fork-shaped provenance (one literal per row) in which some rows are present when their unit is ABSENT
            exprs = [{"eq": [rng.randrange(n_units), (0 if rng.random() < 0.4 else 1)]} for _ in range(rng.randint(2, 6))]
            exprs[0] = {"eq": [exprs[0]["eq"][0], 0]}
        table = tables.rand_table(rng, exprs, n_units, p_fail=0.2)
        null = Fraction(rng.randrange(-16, 17), 4)
        prov, _, _ = make_prov(I, exprs, n_units)
        n_rows = len(exprs)
        iterations = rng.randint(1, 30 if q else 200)
        seed = rng.randrange(10 ** 6)
        all_perms = (it % 6 == 5 and n_units <= (4 if q else 5))
        forced = None
        if all_perms:
            forced = [list(p) for p in permutations(range(n_units))]
            rng.shuffle(forced)
            iterations = len(forced)
        case = dict(nUnits=n_units, exprs=exprs, table=tables.table_json(table), null=str(null), iterations=iterations, seed=seed, all_perms=all_perms)
        util = tables.make_table_utility(I, table, null, mean=Fraction(10 ** 6))
        try:
            res, rec = run_mc(I, prov, n_rows, util, iterations, seed, forced=forced, scramble=rng.randrange(10 ** 6))
        except Exception as e:  # noqa
            ctx.mismatch("score() raised", case, impl=exc_name(e) + ": " + repr(e))
            continue
        vals = {str(v) for v in table.values()}
        ctx.case(case, nontrivial=(n_units >= 2 and iterations >= 2 and len(vals) >= 3), sample=(case if n_units <= 3 and iterations <= 3 else None),
                 units=n_units, all_perms=all_perms)
        ctx.maxi(units=n_units, iterations=iterations)
        perms = rec.perms
        case["perms"] = perms if len(perms) <= 12 else perms[:12] + ["..."]
        if len(perms) != iterations or any(sorted(p) != list(range(n_units)) for p in perms):
            ctx.mismatch("permutations are not drawn one per iteration from the instance's own generator", case, impl=dict(drawn=len(perms), other_rng_calls=rec.other_calls[:5]),
                         spec=iterations)
            continue
        if util.bad:
            ctx.mismatch("the utility was handed labels / metadata of rows other than the rows present for the prefix", case, impl=util.bad[:3])
            continue
        want = estimator(n_units, exprs, table, null, perms)
        v_all = tables.value_of(table, tables.rows_present(exprs, [1] * n_units), null)
        v_none = tables.value_of(table, tables.rows_present(exprs, [0] * n_units), null)
        ans = ctx.model({"op": "mc", "prov": {"nUnits": n_units, "exprs": exprs}, "table": tables.table_json(table), "null": str(null), "mean": "1000000",
                         "timeout": "0", "tolerance": "1/10", "truncSteps": 0, "perms": perms, "clock": []})
        if not ctx.vec_close(res, want, 16):
            ctx.mismatch("montecarlo scores are not the average of the sampled permutations' marginal contributions", case, impl=res, model=ans, spec=[str(x) for x in want])
            continue
        if abs(Fraction(float(sum(res))) - (v_all - v_none)) > Fraction(1, 10 ** 7):
            ctx.mismatch("montecarlo scores do not sum to v(all units) - v(no unit)", case, impl=float(sum(res)), spec=str(v_all - v_none))
            continue
        if ans is not None and (ans.get("ok") in (None, "nan") or [Fraction(x) for x in ans["ok"]] != want):
            ctx.mismatch("model Ds.MC.run differs from the estimator by definition", case, impl=res, model=ans, spec=[str(x) for x in want], failing_input=False,
                         broken="theorem C04_estimator / corr:Ds.MC.run")
        tables.check_translated_walk(ctx, case, exprs, n_units, table, null, Fraction(10 ** 6), Fraction(1, 10), 0, perms, res, 16)
        if all_perms:
            sh = spec.shapley(n_units, lambda S: tables.value_of(table, tables.rows_present(exprs, [1 if u in S else 0 for u in range(n_units)]), null))
            if not ctx.vec_close(res, sh, 16):
                ctx.mismatch("with every permutation sampled once the estimate is not the exact Shapley value", case, impl=res, spec=[str(x) for x in sh])
        # reproducibility of the permutation stream from the seed only (second run, different global RNG state)
        if it % 4 == 0 and not all_perms:
            util2 = tables.make_table_utility(I, table, null, mean=Fraction(10 ** 6))
            res2, rec2 = run_mc(I, prov, n_rows, util2, iterations, seed, scramble=rng.randrange(10 ** 6))
            if rec2.perms != perms or res2 != res:
                ctx.mismatch("same seed, different permutations/scores after the global generators were re-seeded", case, impl=dict(first=perms[:3], second=rec2.perms[:3]))
        if ctx.elapsed() > (400 if q else 1800):
            break
    return ctx.finish("proof", "C04_column / C04_telescope / C04_estimator (+ C04_uniform via Shapley's uniqueness theorem): for every game, provenance and list of sampled "
                      "permutations the modelled scores are the average of the per-permutation marginals and sum to v(all) - v(none). This run tied the model to "
                      "method='montecarlo' through the recorded permutation stream.", RULE)
