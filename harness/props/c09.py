"""C09 — the Shapley oracle counts coalitions exactly."""
import itertools
import numpy as np
import gen
from props.common import load_impl, exc_name, conj_prov
from props import addutil as au

RULE = ("random conjunctive provenance hypergraphs (2-5 units quick / 2-6 thorough, 1-5 rows, rows needing 1-3 units, shared units, units owning several rows, "
        "isolated units, more units than rows), labels over 2-3 classes, distance orders with and without ties, K 1-3; for EVERY target unit and EVERY pair of "
        "boundary rows (incl. None) the dictionary returned by ShapleyOracle.query is compared, tally by tally, with the by-definition count over all assignments of "
        "the other units (computed in the harness) and with the Lean model Ds.Oracle.query / countSpec; the counts must add up to 2^(units-1). Non-trivial = some "
        "row needs >= 2 units or some unit owns >= 2 rows, and at least 3 distinct tallies have a positive count; distinct = distinct (hypergraph, labels, order, K).")


def count_spec(rows, n_units, labels, dist, c, K, target, bw, bwo):
    """dict: (t, with..., without...) -> count, plus 'invalid'"""
    others = [u for u in range(n_units) if u != target]
    out = {}
    invalid = 0

    def present(a, r):
        return all(a[u] == 1 for u in rows[r])
    for bits in itertools.product(range(2), repeat=len(others)):
        a = [0] * n_units
        for u, b in zip(others, bits):
            a[u] = b
        a1 = list(a)
        a1[target] = 1
        ok = True
        if bw is not None and not present(a1, bw):
            ok = False
        if bwo is not None and not present(a, bwo):
            ok = False
        tw = [0] * c
        two = [0] * c
        for r in range(len(rows)):
            if present(a1, r) and (bw is None or dist[bw] >= dist[r]):
                tw[labels[r]] += 1
            if present(a, r) and (bwo is None or dist[bwo] >= dist[r]):
                two[labels[r]] += 1
        t = sum(bits)
        if not ok or sum(tw) > K or sum(two) > K or t > n_units - 1:
            invalid += 1
        else:
            key = tuple([t] + tw + two)
            out[key] = out.get(key, 0) + 1
    return out, invalid


def run(ctx):
    I = load_impl(ctx)
    rng = ctx.rng
    q = ctx.tier == "quick"
    n_cases = 8 if q else 30         # per worker process (quick: 4 workers, thorough: 8)
    for it in range(n_cases):
        n_units = rng.randint(1, 5 if q else 6) if it % 9 == 8 else rng.randint(2, 5 if q else 6)
        n_rows = rng.randint(1, 5)
        maxw = rng.choice([1, 2, 2, 3])
        rows = gen.rand_hypergraph(rng, n_units, n_rows, maxw)
        c = rng.randint(2, 3)
        K = rng.randint(1, 3)
        labels = [rng.randrange(c) for _ in range(n_rows)]
        dist = [rng.randrange(1, 4) for _ in range(n_rows)] if rng.random() < 0.3 else rng.sample(range(1, 30), n_rows)
        prov, _, _ = conj_prov(I, rows, n_units)
        dom = {"tally": [max(n_units - 1, 0), K, c]}
        atype = au.atype_of(I, dom)
        vecs = au.dom_vectors(dom)
        case = dict(nUnits=n_units, rows=rows, labels=labels, dist=dist, K=K, c=c)
        if it % 2 == 1:
            case["earlier_oracle_on_equal_provenance"] = dict(K=K % 3 + 1, c=(c if it % 4 == 1 else c + 1), numtuples=max(n_units - 1, 0) + (it % 3), same_object=(it % 4 == 3))
        queries = [(u, bw, bwo) for u in range(n_units) for bw in list(range(n_rows)) + [None] for bwo in list(range(n_rows)) + [None]]
        if len(queries) > 60:
            queries = rng.sample(queries, 60)
        warm = None
        if it % 2 == 1:
            # state carried between oracle constructions: first an oracle over an EQUAL provenance (the same object or a fresh one with the same contents) with
            # ANOTHER tally type (other K / class count / size cap), queried once and dropped; the oracle under test must not notice
            K0, c0 = K % 3 + 1, (c if it % 4 == 1 else c + 1)
            dom0 = {"tally": [max(n_units - 1, 0) + (it % 3), K0, c0]}
            warm = dict(K=K0, c=c0, numtuples=dom0["tally"][0], same_object=(it % 4 == 3))
            try:
                p0 = prov if it % 4 == 3 else conj_prov(I, rows, n_units)[0]
                o0 = I["oracle"].ShapleyOracle(provenance=p0, labels=np.array(labels), distances=np.array(dist, dtype=float), atype=au.atype_of(I, dom0))
                o0.query(target=p0.units[0], boundary_with=0, boundary_without=None)
            except Exception:  # noqa
                pass
            del dom0
        try:
            oracle = I["oracle"].ShapleyOracle(provenance=prov, labels=np.array(labels), distances=np.array(dist, dtype=float), atype=atype)
            built = None
        except Exception as e:  # noqa
            oracle = None
            built = exc_name(e) + ": " + repr(e)
        exprs = [{"conj": [[u, 1] for u in r]} if len(r) > 1 else {"eq": [r[0], 1]} for r in rows]
        ans = ctx.model({"op": "oracle", "prov": {"nUnits": n_units, "exprs": exprs}, "labels": labels, "dist": [str(x) for x in dist], "K": K, "c": c,
                         "numtuples": max(n_units - 1, 0), "queries": [[u, [bw, bwo]] for u, bw, bwo in queries], "spec": it % 4 == 0})
        # raw compiled diagram (recorded only: a different but equivalent node numbering would be harmless)
        if oracle is not None and ctx.driver is not None and it % 3 == 0:
            try:
                mc = ctx.model({"op": "compile", "prov": {"nUnits": n_units, "exprs": exprs}, "dom": dom})
                a = oracle._add
                raw = dict(units=[int(u) for u in a.units], root=int(a.root), nodes=a.nodes.tolist(), child=a.child.tolist())
                if mc is not None and "ok" in mc:
                    same = all(mc["ok"]["add"][k] == raw[k] for k in raw)
                    ctx.dist["compiled_diagram_identical_to_model=%s" % same] += 1
            except Exception:  # noqa
                ctx.dist["compiled_diagram_compare_failed"] += 1
        shared = any(len(r) >= 2 for r in rows) or len({u for r in rows for u in r}) < sum(len(r) for r in rows)
        positive_tallies = set()
        bad = False
        if oracle is None:
            ctx.case(case, nontrivial=False, sample=case)
            ctx.mismatch("ShapleyOracle construction raised", case, impl=built, model=(ans if ans is None or "err" in ans else "built"))
            continue
        for qi, (u, bw, bwo) in enumerate(queries):
            try:
                res = oracle.query(target=prov.units[u], boundary_with=bw, boundary_without=bwo)
                counts = [int(x) for x in res.values()]
                keys = [au.av_json(k) for k in res.keys()]
            except Exception as e:  # noqa
                counts = exc_name(e)
                keys = None
            want, invalid = count_spec(rows, n_units, labels, dist, c, K, u, bw, bwo)
            want_list = [want.get(tuple(v), 0) for v in vecs] + [invalid]
            qcase = dict(case, target=u, boundary_with=bw, boundary_without=bwo)
            if isinstance(counts, str):
                tag = "F3b-single-unit-oracle" if (n_units == 1 and counts == "IndexError") else None
                ctx.mismatch("oracle query raised", qcase, impl=counts, spec=want_list, tag=tag)
                bad = True
                break
            if keys != vecs + [None]:
                ctx.mismatch("oracle result is not keyed by the tally domain in order", qcase, impl=keys[:5], spec=vecs[:5])
                bad = True
                break
            for v, cnt in zip(vecs, counts):
                if cnt > 0:
                    positive_tallies.add(tuple(v))
            if counts != want_list:
                ctx.mismatch("oracle count differs from the number of assignments by definition", qcase, impl=[(v, x) for v, x in zip(vecs + [None], counts) if x],
                             model=(ans["ok"]["results"][qi] if ans and "ok" in ans else ans), spec=[(v, x) for v, x in zip(vecs + [None], want_list) if x])
                bad = True
                break
            if sum(counts) != 2 ** (n_units - 1):
                ctx.mismatch("counts do not add up to 2^(units-1)", qcase, impl=sum(counts), spec=2 ** (n_units - 1))
                bad = True
                break
            if ans is not None and "ok" in ans:
                m = ans["ok"]["results"][qi]
                if "err" in m or m["counts"] != counts or (m["spec"] is not None and m["spec"] != want_list[:-1]):
                    ctx.mismatch("model Ds.Oracle.query / countSpec disagrees with implementation and definition", qcase, impl=counts, model=m, spec=want_list,
                                 failing_input=False, broken="corr:Ds.Oracle.query / theorem C09_main")
                    bad = True
                    break
        if ans is not None and "ok" in ans and ans["ok"].get("locSpecOk") is not True and not bad:
            ctx.mismatch("LocSpec (hypothesis of theorem C09_main) does not hold for the compiled diagram of this case", case, model=ans["ok"].get("locSpecOk"),
                         failing_input=False, broken="hypothesis LocSpec of C09_main (Ds.Oracle.locSpecOk)")
        ctx.dist["locSpecOk=%s" % (ans["ok"].get("locSpecOk") if ans and "ok" in ans else None)] += 1
        if ans is not None and "err" in ans and not bad:
            ctx.mismatch("model could not build the oracle", case, model=ans, failing_input=False, broken="corr:Ds.Oracle.build")
        ctx.case(case, nontrivial=(shared and len(positive_tallies) >= 3), sample=case, units=n_units, K=K, maxw=maxw)
        ctx.maxi(units=n_units, rows=n_rows, K=K, queries=len(queries))
        if ctx.elapsed() > (600 if q else 2400):
            break
    return ctx.finish("proof", "C09_*: ADD restrict/sum/modelcount semantics (proved for every diagram) composed into the statement that the oracle's dictionary is the "
                      "by-definition coalition count; construction invariants of compile (LocSpec/WF) are checked per generated case. This run compared every query "
                      "of every case with the definition and the model.", RULE)
