"""C08 — scores are linear in the utility; JointUtility is the weighted sum of its parts."""
from fractions import Fraction
import numpy as np
import gen
import spec
from props.common import load_impl, exc_name, conj_prov, make_prov
from props import datasets as dsm
from props import tables
from props.c01 import additive_utility

RULE = ("JointUtility(u1..uk; weights incl. negative, zero, non-normalised, k = 1-3, handed over as list / tuple / ndarray / dict values view / generator expression / "
        "map object / list iterator / zip-derived iterator, i.e. re-iterable and one-shot Iterable[float]; the scalar API is also compared across ALL these forms) with components accuracy / ROC-AUC (binary) / random additive table utilities: "
        "(a) its score, null_score, mean_score, elementwise_score, elementwise_null_score vs the weighted sums of the components' (and vs the Lean model Ds.Util.joint*); "
        "(b) neighbor scores (K=1 default and map/fork provenance; K=2 and conjunctive provenance through the ADD path) under the joint utility vs the weighted sum of the "
        "scores under each component, and vs the model; (c) bruteforce with table utilities (no failing coalition) likewise; (d) scaling a utility by a constant scales "
        "the scores, adding a constant to utility and null changes nothing. Non-trivial = >= 2 components with different score vectors and a weight outside {0,1}; "
        "distinct = distinct (dataset, utilities, weights).")


WEIGHT_FORMS = ("list", "tuple", "ndarray", "dict-values", "generator", "map", "iter-list", "zip-derived")


def weights_as(rng, ws, form=None):
    """the same weights in one of the forms the parameter (Optional[Iterable[float]]) admits: re-iterable containers (list, tuple, ndarray, dict values view)
    and ONE-SHOT iterables (generator expression, map object, list iterator, iterator derived from zip); returns (object, form name)"""
    fl = [float(w) for w in ws]
    form = form or rng.choice(WEIGHT_FORMS)
    if form == "list":
        return list(fl), form
    if form == "tuple":
        return tuple(fl), form
    if form == "ndarray":
        return np.array(fl, dtype=float), form
    if form == "dict-values":
        return {("w%d" % i): x for i, x in enumerate(fl)}.values(), form
    if form == "generator":
        return (x for x in fl), form
    if form == "map":
        return map(float, list(ws)), form
    if form == "iter-list":
        return iter(list(fl)), form
    return (x for _, x in zip(range(len(fl)), fl)), form


def run(ctx):
    I = load_impl(ctx)
    U = I["utility"]
    from sklearn.neighbors import KNeighborsClassifier
    rng = ctx.rng
    q = ctx.tier == "quick"
    n_cases = 40 if q else 300
    for it in range(n_cases):
        part = ["joint-api", "neighbor", "neighbor", "addpath", "brute", "scale-shift"][it % 6]
        k = rng.randint(1, 3)
        ws = [Fraction(rng.randrange(-12, 13), 4) for _ in range(k)]
        if it % 3 == 0 and k >= 2:
            ws[rng.randrange(k)] = Fraction(0)          # exact zeros at every position: a skipped component must not shift the others
        # --- scalar API of the joint utility on stub components (score / null_score / mean_score) ---------------
        stub_vals = [(Fraction(rng.randrange(-20, 21), 4), Fraction(rng.randrange(-20, 21), 4), Fraction(rng.randrange(-20, 21), 4)) for _ in range(k)]

        def stub(vals):
            # every value also depends on the TRAINING labels handed in (their sum), so that reusing one JointUtility object on another
            # training set with the same validation objects must give the new weighted sums, not remembered ones
            # ... and on every other argument a component may be handed (metadata, seed, resampling budget), each with its own weight, so that
            # a joint utility that drops or swaps one of them on the way to its components no longer returns the weighted sum
            def extra(metadata_train=None, metadata_test=None, seed=7, maxiter=100, **_):
                return ((0.0 if metadata_train is None else 0.5 * float(np.sum(metadata_train)))
                        + (0.0 if metadata_test is None else 0.125 * float(np.sum(metadata_test))) + 0.25 * (seed - 7) + 0.0625 * (maxiter - 100))

            class Stub(U.Utility):
                def __call__(self, X_train, y_train, X_test, y_test, metadata_train=None, metadata_test=None, null_score=None, seed=7):
                    return U.UtilityResult(score=float(vals[0]) + float(np.sum(y_train)) + extra(metadata_train, metadata_test, seed))

                def null_score(self, X_train, y_train, X_test, y_test, metadata_train=None, metadata_test=None):
                    return float(vals[1]) + float(np.sum(y_train)) + extra(metadata_train, metadata_test)

                def mean_score(self, X_train, y_train, X_test, y_test, metadata_train=None, metadata_test=None, maxiter=100, seed=7):
                    return float(vals[2]) + float(np.sum(y_train)) + extra(metadata_train, metadata_test, seed, maxiter)
            Stub.extra = staticmethod(extra)
            return Stub()
        stubs = [stub(v) for v in stub_vals]
        # the weights are handed over in every form an Iterable[float] may take (cycled here so that each form occurs; drawn at random in the other parts)
        wobj, wform = weights_as(rng, ws, WEIGHT_FORMS[it % len(WEIGHT_FORMS)])
        Xs = np.zeros((2, 1))
        ys = np.zeros(2, dtype=int)
        scase = dict(part="joint-scalar", weights=[str(w) for w in ws], weights_form=wform, components=[[str(x) for x in v] for v in stub_vals])
        try:
            js = U.JointUtility(*stubs, weights=wobj)
            got3 = (float(js(Xs, ys, Xs, ys, null_score=123.0).score), float(js.null_score(Xs, ys, Xs, ys)), float(js.mean_score(Xs, ys, Xs, ys)))
            want3 = tuple(float(sum(w * v[t] for w, v in zip(ws, stub_vals))) for t in range(3))
            # second training set (labels sum to 3), SAME validation objects, SAME JointUtility object
            ys2 = np.array([1, 2])
            got3b = (float(js(Xs, ys2, Xs, ys, null_score=123.0).score), float(js.null_score(Xs, ys2, Xs, ys)), float(js.mean_score(Xs, ys2, Xs, ys)))
            want3b = tuple(float(sum(w * (v[t] + 3) for w, v in zip(ws, stub_vals))) for t in range(3))
            if any(abs(a - b) > 1e-9 for a, b in zip(got3b, want3b)):
                ctx.mismatch("JointUtility reused on another training set (same validation objects) does not return the weighted sums of its components'", scase,
                             impl=dict(first=got3, second=got3b), spec=dict(first=want3, second=want3b))
            ctx.case(scase, nontrivial=(k >= 2 and any(w not in (0, 1) for w in ws)), sample=scase, part="joint-scalar", k=k, zero_weight=any(w == 0 for w in ws))
            if any(abs(a - b) > 1e-9 for a, b in zip(got3, want3)):
                ctx.mismatch("JointUtility score / null_score / mean_score is not the weighted sum of the components'", scase, impl=got3, spec=want3)
            # the same weights in every other form: same weighted sums
            for f in WEIGHT_FORMS:
                if f == wform:
                    continue
                jf = U.JointUtility(*stubs, weights=weights_as(rng, ws, f)[0])
                gotf = (float(jf(Xs, ys, Xs, ys, null_score=123.0).score), float(jf.null_score(Xs, ys, Xs, ys)), float(jf.mean_score(Xs, ys, Xs, ys)))
                if any(abs(a - b) > 1e-9 for a, b in zip(gotf, want3)):
                    ctx.mismatch("JointUtility score / null_score / mean_score depends on the form in which the weights are passed", dict(scase, weights_form=f),
                                 impl=gotf, spec=want3)
                    break
            # non-default metadata / seed / maxiter must reach every component
            mt, mv = np.array([rng.randrange(1, 5), rng.randrange(1, 5)]), np.array([rng.randrange(1, 5), rng.randrange(1, 5)])
            sd, mi = rng.choice([0, 1, 3, 11, 12345]), rng.choice([1, 25, 40, 250])
            scase4 = dict(scase, metadata_train=mt.tolist(), metadata_test=mv.tolist(), seed=sd, maxiter=mi)
            comp0 = stubs[0]
            ex = [comp0.extra(mt, mv, sd), comp0.extra(mt, mv), comp0.extra(mt, mv, sd, mi)]
            got4 = (float(js(Xs, ys, Xs, ys, metadata_train=mt, metadata_test=mv, null_score=123.0, seed=sd).score),
                    float(js.null_score(Xs, ys, Xs, ys, metadata_train=mt, metadata_test=mv)),
                    float(js.mean_score(Xs, ys, Xs, ys, metadata_train=mt, metadata_test=mv, maxiter=mi, seed=sd)))
            want4 = tuple(float(sum(w * (v[t] + Fraction(ex[t])) for w, v in zip(ws, stub_vals))) for t in range(3))
            if any(abs(a - b) > 1e-9 for a, b in zip(got4, want4)):
                ctx.mismatch("JointUtility with non-default metadata / seed / maxiter is not the weighted sum of its components called with the same arguments",
                             scase4, impl=got4, spec=want4)
            ansj = ctx.model({"op": "joint", "weights": [str(w) for w in ws], "scalars": [str(v[0]) for v in stub_vals],
                              "results": [str(v[0]) for v in stub_vals], "null": "123"})
            if ansj is not None and (abs(float(Fraction(ansj["ok"]["scalar"])) - want3[0]) > 1e-9 or abs(float(Fraction(ansj["ok"]["call"])) - want3[0]) > 1e-9):
                ctx.mismatch("model Ds.Util.jointScalar/jointCall differs", scase, model=ansj, spec=want3, failing_input=False, broken="corr:Ds.Util.jointScalar")
        except Exception as e:  # noqa
            ctx.mismatch("joint scalar API raised", scase, impl=exc_name(e) + repr(e))
        if part in ("neighbor", "joint-api", "scale-shift"):
            binary = rng.random() < 0.4
            ds = dsm.rand_dataset(rng, max_units=6, classes_max=(2 if binary else 4))
            prov, preq, simple = dsm.prov_arg(I, ds)
            m = ds["m"]
            comps, specs = [], []
            for _ in range(k):
                r = rng.random()
                if r < 0.35:
                    comps.append(U.SklearnModelAccuracy(KNeighborsClassifier(1)))
                    specs.append({"utility": "accuracy"})
                elif r < 0.55 and len(ds["classes"]) == 2 and len(set(ds["y_test"])) == 2:
                    comps.append(U.SklearnModelRocAuc(KNeighborsClassifier(1)))
                    specs.append({"utility": "rocauc"})
                else:
                    Um = [[rng.randrange(-8, 9) for _ in range(m)] for _ in ds["classes"]]
                    nl = [rng.randrange(-8, 9) for _ in range(m)]
                    kept = rng.random() < 0.5          # a component that keeps its tables and hands out the same arrays on every call
                    comps.append(additive_utility(I, Um, nl, keep=kept))
                    specs.append({"utility": "custom", "util": Um, "nulls": nl, **({"keeps_tables": True} if kept else {})})
            wobj, wform = weights_as(rng, ws)
            case = dict(part=part, weights=[str(w) for w in ws], weights_form=wform, comps=[s["utility"] for s in specs], groups=ds["groups"], mode=ds["mode"],
                        y_train=ds["y_train"], y_test=ds["y_test"], dist=ds["dist"].tolist())
            try:
                joint = U.JointUtility(*comps, weights=wobj)
                if part == "joint-api":
                    X = np.arange(ds["n_rows"], dtype=float).reshape(-1, 1)
                    Xv = np.arange(m, dtype=float).reshape(-1, 1)
                    # element-wise API needs encoded labels as the neighbor method passes them
                    enc = {c: i for i, c in enumerate(ds["classes"])}
                    ytr = np.array([enc[y] for y in ds["y_train"]])
                    yte = np.array([enc[y] for y in ds["y_test"]])
                    Ej = np.asarray(joint.elementwise_score(X, ytr, Xv, yte), dtype=float)
                    Nj = np.asarray(joint.elementwise_null_score(X, ytr, Xv, yte), dtype=float)
                    Es = [np.asarray(cmp.elementwise_score(X, ytr, Xv, yte), dtype=float) for cmp in comps]
                    Ns = [np.asarray(cmp.elementwise_null_score(X, ytr, Xv, yte), dtype=float) for cmp in comps]
                    wantE = sum(float(w) * E for w, E in zip(ws, Es))
                    wantN = sum(float(w) * N for w, N in zip(ws, Ns))
                    ok = np.allclose(Ej, wantE, atol=1e-9) and np.allclose(Nj, wantN, atol=1e-9)
                    ctx.case(case, nontrivial=(k >= 2), sample=case, part=part, k=k)
                    if not ok:
                        ctx.mismatch("JointUtility element-wise (null) scores are not the weighted sums of the components'", case, impl=dict(E=Ej.tolist(), N=Nj.tolist()),
                                     spec=dict(E=np.asarray(wantE).tolist(), N=np.asarray(wantN).tolist()))
                    ans = ctx.model({"op": "joint", "weights": [str(w) for w in ws],
                                     "matrices": [[[str(Fraction(float(x)).limit_denominator(10 ** 9)) for x in row] for row in E.tolist()] for E in Es]})
                    if ans is not None and ok:
                        me = [[float(Fraction(x)) for x in row] for row in ans["ok"]["elem"]]
                        if not np.allclose(me, Ej, atol=1e-7):
                            ctx.mismatch("model Ds.Util.jointElem differs from implementation", case, impl=Ej.tolist(), model=me, failing_input=False, broken="corr:Ds.Util.jointElem")
                    continue
                K = 1
                sj = dsm.neighbor_scores(I, ds, joint, K=K)
                ss = [dsm.neighbor_scores(I, ds, cmp, K=K) for cmp in comps]
                want = [sum(float(w) * s[i] for w, s in zip(ws, ss)) for i in range(len(sj))]
                distinct_comp = len({tuple(round(x, 9) for x in s) for s in ss}) >= 2
                ctx.case(case, nontrivial=(k >= 2 and distinct_comp and any(w not in (0, 1) for w in ws)), sample=case, part=part, k=k)
                ctx.maxi(units=ds["n_units"], components=k)
                if any(abs(a - b) > 1e-9 * (1 + 100) for a, b in zip(sj, want)):
                    ctx.mismatch("neighbor scores under the joint utility are not the weighted sum of the component scores", case, impl=sj, spec=want)
                    continue
                if part == "scale-shift":
                    Um = [[rng.randrange(-8, 9) for _ in range(m)] for _ in ds["classes"]]
                    nl = [rng.randrange(-8, 9) for _ in range(m)]
                    a = Fraction(rng.randrange(-12, 13), 4)
                    b = rng.randrange(-5, 6)
                    s0 = dsm.neighbor_scores(I, ds, additive_utility(I, Um, nl))
                    s1 = dsm.neighbor_scores(I, ds, additive_utility(I, [[float(a) * x for x in row] for row in Um], [float(a) * x for x in nl]))
                    s2 = dsm.neighbor_scores(I, ds, additive_utility(I, [[x + b for x in row] for row in Um], [x + b for x in nl]))
                    if any(abs(float(a) * x - y) > 1e-9 * 100 for x, y in zip(s0, s1)) or any(abs(x - y) > 1e-9 * 100 for x, y in zip(s0, s2)):
                        ctx.mismatch("scaling/shifting a utility does not scale/preserve the scores", dict(case, util=Um, nulls=nl, a=str(a), b=b), impl=dict(base=s0, scaled=s1, shifted=s2))
                # the model on the joint utility given as the weighted matrices
                if all(s["utility"] == "custom" for s in specs):
                    Uj = [[sum(w * sp["util"][c][j] for w, sp in zip(ws, specs)) for j in range(m)] for c in range(len(ds["classes"]))]
                    nj = [sum(w * sp["nulls"][j] for w, sp in zip(ws, specs)) for j in range(m)]
                    ans = ctx.model(dsm.model_req(ds, preq, simple, {"utility": "custom", "util": [[str(x) for x in r] for r in Uj], "nulls": [str(x) for x in nj]}))
                    if ans is not None and ("err" in ans or not ctx.vec_close(sj, [Fraction(x) for x in ans["ok"]], 100)):
                        ctx.mismatch("model differs from implementation under the joint utility", case, impl=sj, model=ans)
            except Exception as e:  # noqa
                ctx.mismatch("joint utility run raised", case, impl=exc_name(e) + repr(e))
        elif part == "addpath":
            n_units = rng.randint(2, 4)
            n_rows = rng.randint(2, 4)
            rows = gen.rand_hypergraph(rng, n_units, n_rows, 2)
            K = rng.randint(1, 2)
            classes = [0, 1]
            y_train = [rng.randrange(2) for _ in range(n_rows)]
            y_train[0], y_train[-1] = 0, 1
            m = 1
            y_test = [rng.randrange(2)]
            dist = np.array(gen.distinct_distances(rng, n_rows, m), dtype=float)
            prov, _, _ = conj_prov(I, rows, n_units)
            k = 2
            ws = ws[:2] if len(ws) >= 2 else ws + [Fraction(3, 2)]
            tabs = [([[rng.randrange(-8, 9)] for _ in classes], [rng.randrange(-8, 9)]) for _ in range(k)]
            comps = [additive_utility(I, Um, nl) for Um, nl in tabs]
            wobj, wform = weights_as(rng, ws)
            ds = dict(dist=dist, y_train=y_train, y_test=y_test)
            case = dict(part=part, weights=[str(w) for w in ws], weights_form=wform, rows=rows, nUnits=n_units, K=K, y_train=y_train, y_test=y_test, dist=dist.tolist(), tables=tabs)
            try:
                joint = U.JointUtility(*comps, weights=wobj)
                sj = dsm.neighbor_scores(I, ds, joint, K=K, provenance=prov)
                ss = [dsm.neighbor_scores(I, ds, cmp, K=K, provenance=prov) for cmp in comps]
            except Exception as e:  # noqa
                ctx.mismatch("ADD-path run raised", case, impl=exc_name(e) + repr(e))
                continue
            want = [sum(float(w) * s[i] for w, s in zip(ws, ss)) for i in range(len(sj))]
            ctx.case(case, nontrivial=len({tuple(round(x, 9) for x in s) for s in ss}) >= 2, sample=case, part=part, k=k)
            if any(abs(a - b) > 1e-7 for a, b in zip(sj, want)):
                ctx.mismatch("ADD-path scores under the joint utility are not the weighted sum of the component scores", case, impl=sj, spec=want)
        else:  # brute
            n_units = rng.randint(1, 4)
            exprs = [gen.rand_expr_flat(rng, n_units, 2, 2, 2) for _ in range(rng.randint(1, 4))]
            prov, _, _ = make_prov(I, exprs, n_units)
            tabs = [tables.rand_table(rng, exprs, n_units, p_fail=0.0) for _ in range(k)]
            nulls = [Fraction(rng.randrange(-8, 9), 2) for _ in range(k)]
            comps = [tables.make_table_utility(I, t, nl, mean=0) for t, nl in zip(tabs, nulls)]
            wobj, wform = weights_as(rng, ws)
            X = np.arange(len(exprs), dtype=float).reshape(-1, 1)
            y = np.zeros(len(exprs), dtype=int)
            case = dict(part=part, weights=[str(w) for w in ws], weights_form=wform, nUnits=n_units, exprs=exprs, tables=[tables.table_json(t) for t in tabs], nulls=[str(x) for x in nulls])

            def bf(u):
                return list(np.asarray(I["imp"].ShapleyImportance(method="bruteforce", utility=u).fit(X, y, provenance=prov).score(np.zeros((1, 1)), np.zeros(1, dtype=int)), dtype=float))
            try:
                joint = U.JointUtility(*comps, weights=wobj)
                sj = bf(joint)
                ss = [bf(cmp) for cmp in comps]
            except Exception as e:  # noqa
                ctx.mismatch("bruteforce run raised", case, impl=exc_name(e) + repr(e))
                continue
            want = [sum(float(w) * s[i] for w, s in zip(ws, ss)) for i in range(len(sj))]
            sp = spec.shapley(n_units, lambda S: sum(w * tables.value_of(t, tables.rows_present(exprs, [1 if u in S else 0 for u in range(n_units)]), 0) for w, t in zip(ws, tabs)))
            ctx.case(case, nontrivial=(k >= 2 and n_units >= 2), sample=case, part=part, k=k)
            if any(abs(a - b) > 1e-7 for a, b in zip(sj, want)) or not ctx.vec_close(sj, sp, 200):
                ctx.mismatch("bruteforce scores under the joint utility are not the weighted sum of the component scores", case, impl=sj, spec=dict(weighted=want, shapley=[str(x) for x in sp]))
        if ctx.elapsed() > (400 if q else 1800):
            break
    return ctx.finish("proof", "C08_kernel_linear, C08_kernel_shift, C08_brute_linear, C08_brute_shift(_null), C08_joint_*: linearity of the modelled kernel and enumeration "
                      "in the utility and the JointUtility model as plain weighted sums (no normalisation); this run compared joint-utility runs of the implementation with "
                      "the weighted component runs and with the model.", RULE)
