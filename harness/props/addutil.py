"""helpers for the decision-diagram family (C10, C09, C02)"""
import copy
import itertools
import numpy as np
from props.common import exc_name


def atype_of(I, dom):
    if "box" in dom:
        return I["add"].AValue[tuple(dom["box"])]
    n, K, c = dom["tally"]
    return I["oracle"].ATally[n, K, c]


def to_av(atype, v):
    """JSON value (list of ints or None) -> AValue of atype"""
    if v is None:
        return atype(None)
    return atype(tuple(int(x) for x in v))


def av_json(a):
    v = a.value
    return None if v is None else [int(x) for x in v]


def eval_all(d):
    out = []
    for args in itertools.product(range(d.num_candidates), repeat=len(d.units)):
        try:
            out.append(av_json(d(*args)))
        except Exception as e:  # noqa
            out.append(exc_name(e))
    return out


def dom_vectors(dom):
    """valid vectors in domain() order"""
    if "box" in dom:
        return [list(x) for x in itertools.product(*[range(m + 1) for m in dom["box"]])]
    n, K, c = dom["tally"]
    singles = [list(x) for x in itertools.product(range(K + 1), repeat=c) if sum(x) <= K]
    return [[t] + w + wo for t in range(n + 1) for w in singles for wo in singles]


def dom_ok(dom, x):
    if any(v < 0 for v in x):
        return False
    if "box" in dom:
        return all(v <= m for v, m in zip(x, dom["box"]))
    n, K, c = dom["tally"]
    return x[0] <= n and sum(x[1:1 + c]) <= K and sum(x[1 + c:1 + 2 * c]) <= K


def sat_add(dom, a, b):
    if a is None or b is None:
        return None
    s = [x + y for x, y in zip(a, b)]
    return s if dom_ok(dom, s) else None


def rand_value(rng, dom, p_inf=0.08, small=True):
    if rng.random() < p_inf:
        return None
    if "box" in dom:
        return [rng.randrange(0, (min(m, 2) if small else m) + 1) for m in dom["box"]]
    n, K, c = dom["tally"]
    v = [0] * (1 + 2 * c)
    r = rng.random()
    if r < 0.3:
        v[0] = 1
    elif r < 0.65:
        v[1 + rng.randrange(c)] = 1
    elif r < 0.9:
        v[1 + c + rng.randrange(c)] = 1
    return v
