"""C11 — expression operators (&, |) and the array encoding preserve logic."""
import copy
import numpy as np
import gen
import spec
from props.common import load_impl, exc_name, rand_keys, UView

RULE = ("random nested &/| trees (depth <= 3/4) over equality / conjunction / disjunction leaves (all nine operand-shape pairs occur), "
        "built with the library's own operators; truth table over ALL assignments compared with structural evaluation and with the Lean "
        "model Ds.Prov.Expr.and/or/eval/data3; operands' data compared before/after each operator; ragged lists stored in a Provenance and "
        "read back row by row; plus random op sequences (mention, ==, from_data, union) on unit registries with frozen / lazily growing key and candidate lists vs the model Ds.Units. Non-trivial = tree contains both operators or a disjunction operand; distinct = distinct trees.")


def kind(e):
    return "eq" if "eq" in e else "conj" if "conj" in e else "disj" if "disj" in e else "tree"


def has(e, op):
    if op in e:
        return True
    return any(has(x, op) for k in ("and", "or") if k in e for x in e[k])


def data3(d):
    d = np.asarray(d)
    if d.ndim == 1:
        d = d.reshape(1, 1, 2)
    elif d.ndim == 2:
        d = d.reshape(1, d.shape[0], 2)
    return d.tolist()


def run(ctx):
    I = load_impl(ctx)
    P = I["provenance"]
    rng = ctx.rng
    n_cases = 150 if ctx.tier == "quick" else 2000
    pair_seen = set()
    for it in range(n_cases):
        n_units = rng.randint(1, 4)
        n_cands = 2 if rng.random() < 0.8 else 3
        keys, scheme = rand_keys(rng, n_units)
        # candidate values: the indices themselves, or floats / integers beyond the small-integer cache / strings / tuples; every literal is then built with
        # a FRESH object equal to the registered candidate (UView.ck), and the assignments handed to eval() hold fresh equal objects as well
        cscheme = rng.choice(["index", "index", "index", "float", "bigint", "str", "tuple"])
        ckeys = {"index": None, "float": [0.5 + k for k in range(n_cands)], "bigint": [1000 + 7 * k for k in range(n_cands)],
                 "str": ["cand-%d" % k for k in range(n_cands)], "tuple": [("c", 300 + k) for k in range(n_cands)]}[cscheme]
        cands_arg = n_cands if ckeys is None else list(ckeys)
        raw_units = P.Units(units=list(keys), candidates=cands_arg) if rng.random() < 0.7 else P.Units(candidates=cands_arg)
        units = UView(raw_units, keys, ckeys)
        ctx.dist["candidate_values=" + cscheme] += 1
        for kk in keys:
            raw_units[kk]                 # lazily created units get their positions in this order
        ctx.dist["unit_keys=" + scheme] += 1
        if it < 30:
            # all nine operand shapes, both operators
            a = gen.rand_expr_flat(rng, n_units, 2, 2, n_cands)
            b = gen.rand_expr_flat(rng, n_units, 2, 2, n_cands)
            tree = {("and" if it % 2 == 0 else "or"): [a, b]}
        else:
            tree = gen.rand_expr_tree(rng, n_units, 3 if ctx.tier == "quick" else 4, n_cands)
        case = dict(nUnits=n_units, nCands=n_cands, tree=tree, candidateValues=cscheme)
        asg = spec.assignments(n_units, n_cands)
        spec_tab = [spec.expr_true(tree, a) for a in asg]
        # implementation: build with the real operators, watching the operands
        impl_tab = None
        impl_data = None
        err = None
        try:
            if "and" in tree or "or" in tree:
                op = "and" if "and" in tree else "or"
                ea = gen.build_expr(P, units, tree[op][0])
                eb = gen.build_expr(P, units, tree[op][1])
                da, db = copy.deepcopy(ea.data.tolist()), copy.deepcopy(eb.data.tolist())
                e = (ea & eb) if op == "and" else (ea | eb)
                if ea.data.tolist() != da or eb.data.tolist() != db:
                    ctx.mismatch("operator modified an operand", case, impl=[ea.data.tolist(), eb.data.tolist()], spec=[da, db])
                    continue
                pair_seen.add((kind(tree[op][0]), kind(tree[op][1]), op))
            else:
                e = gen.build_expr(P, units, tree)
            impl_tab = [bool(e.eval([units.ck(c) for c in a])) for a in asg]
            impl_data = data3(e.data)
            # container read-back
            prov = P.Provenance([e, units[0] == units.ck(1)])
            n_before = len(raw_units.units)
            back = prov[0]
            back_tab = [bool(back.eval([units.ck(c) for c in a])) for a in asg]
            if len(raw_units.units) != n_before:
                ctx.mismatch("reading a row back changed the unit set", case, impl=[str(x) for x in raw_units.units])
                continue
            q_tab = [bool(np.asarray(prov.query(np.array(a)))[0]) for a in asg]
        except Exception as ex:  # noqa
            err = (exc_name(ex), repr(ex))
        model = ctx.model({"op": "expr", "e": tree, "nUnits": n_units, "nCands": n_cands})
        nontriv = (has(tree, "and") and has(tree, "or")) or has(tree, "disj")
        ctx.case(tree, nontrivial=nontriv, sample=case, root=kind(tree), cands=n_cands)
        ctx.maxi(units=n_units, assignments=len(asg))
        if err:
            ctx.mismatch("operator/eval raised", case, impl=err, model=(model["ok"]["table"] if model else None), spec=spec_tab)
            continue
        if impl_tab != spec_tab or back_tab != spec_tab or q_tab != spec_tab:
            ctx.mismatch("truth table of a&b / a|b / stored row differs from the logic of the operands", case,
                         impl=dict(eval=impl_tab, readback=back_tab, query=q_tab), model=(model["ok"]["table"] if model else None), spec=spec_tab)
            continue
        if model is not None:
            if model["ok"]["table"] != impl_tab:
                ctx.mismatch("model Expr.and/or disagrees with implementation (implementation agrees with the definition)", case,
                             impl=impl_tab, model=model["ok"]["table"], spec=spec_tab, failing_input=False,
                             broken="corr:Ds.Prov.Expr.and/or / theorems C11_and C11_or")
            elif [[list(l) for l in c] for c in model["ok"]["data3"]] != impl_data:
                ctx.dist["raw_data_differs"] += 1
    # ---- the unit / candidate registry behind the expressions (positions are assigned on first mention; frozen lists reject new keys) ----
    n_reg = 60 if ctx.tier == "quick" else 600
    for it in range(n_reg):
        frozen_u = rng.random() < 0.4
        frozen_c = rng.random() < 0.6
        keypool = rng.sample(range(-5, 40), rng.randint(2, 5))
        candpool = rng.sample(range(0, 9), rng.randint(2, 3))
        us = rng.sample(keypool, rng.randint(1, len(keypool))) if frozen_u else None
        cs = rng.sample(candpool, rng.randint(1, len(candpool))) if frozen_c else None
        ops = []
        for _ in range(rng.randint(3, 10)):
            r = rng.random()
            if r < 0.25:
                ops.append({"mention": rng.choice(keypool)})
            elif r < 0.7:
                ops.append({"eq": [rng.choice(keypool), rng.choice(candpool)]})
            elif r < 0.92:
                ops.append({"from": [rng.randrange(0, 5), rng.randrange(0, 3)]})
            else:
                ops.append({"union": {"units": rng.sample(keypool, rng.randint(1, len(keypool))), "cands": rng.sample(candpool, 1)}})
        case = dict(part="registry", units=us, cands=cs, ops=ops)
        real = P.Units(units=us, candidates=cs)
        outs = []
        for op in ops:
            try:
                if "mention" in op:
                    real[op["mention"]]
                    outs.append("ok")
                elif "eq" in op:
                    outs.append([int(x) for x in (real[op["eq"][0]] == op["eq"][1]).data.tolist()])
                elif "from" in op:
                    e = P.Equality.from_data(np.array(op["from"]), real)
                    outs.append([e.unit.key, e.value])
                else:
                    real.union(P.Units(units=op["union"]["units"], candidates=op["union"]["cands"]))
                    outs.append("ok")
            except Exception as ex:  # noqa
                outs.append({"err": exc_name(ex)})
        consistent = (list(real.units_index.items()) == [(k, i) for i, k in enumerate(real.units)] and
                      list(real.candidates_index.items()) == [(k, i) for i, k in enumerate(real.candidates)])
        # by definition: positions in order of first mention; data = positions; from_data inverts it
        ctx.case(case, nontrivial=(not frozen_u and any("from" in o for o in ops)), sample=case, part="registry", frozen_units=frozen_u)
        if not consistent:
            ctx.mismatch("unit / candidate index dictionaries disagree with the key lists", case, impl=dict(units=list(real.units), index=dict(real.units_index)))
            continue
        ans = ctx.model({"op": "units", "units": us, "cands": cs, "ops": ops})
        if ans is not None:
            m = ans["ok"]
            if m["outs"] != outs or m["keys"] != list(real.units) or m["cands"] != list(real.candidates):
                # a round trip eq -> from must return the same (key, value): decide whether the implementation is wrong by definition
                bad = None
                reg_keys = list(us) if us is not None else []
                ctx.mismatch("unit registry behaves differently from the model Ds.Units (first-mention positions, frozen lists, data/from_data)", case,
                             impl=dict(outs=outs, keys=list(real.units), cands=list(real.candidates)), model=m, failing_input=True)
    ctx.extra["operand_shape_pairs_seen"] = len(pair_seen)
    return ctx.finish("proof", "Theorems C11_* state that the modelled & and | (with their distribution and wrapping rules) evaluate to the "
                      "conjunction/disjunction of the operands for every operand shape and nesting and that data3/fromData round-trips; this run "
                      "compared model, structural evaluation and the real operators on every generated tree.", RULE)
