"""C11 — expression operators (&, |) and the array encoding preserve logic."""
import copy
import numpy as np
import gen
import spec
from props.common import load_impl, exc_name, rand_keys, UView

RULE = ("random nested &/| trees (depth <= 3/4) over equality / conjunction / disjunction leaves (all nine operand-shape pairs occur), "
        "built with the library's own operators; truth table over ALL assignments compared with structural evaluation and with the Lean "
        "model Ds.Prov.Expr.and/or/eval/data3; operands' data compared before/after each operator; ragged lists stored in a Provenance and "
        "read back row by row. Non-trivial = tree contains both operators or a disjunction operand; distinct = distinct trees.")


def kind(e):
    return "eq" if "eq" in e else "conj" if "conj" in e else "disj" if "disj" in e else "tree"


def has(e, op):
    if op in e:
        return True
    return any(has(x, op) for k in ("and", "or") if k in e for x in e[k])


def data3(d):
    d = np.asarray(d)
    if d.ndim == 1:
        d = d.reshape(1, 1, 2)
    elif d.ndim == 2:
        d = d.reshape(1, d.shape[0], 2)
    return d.tolist()


def run(ctx):
    I = load_impl(ctx)
    P = I["provenance"]
    rng = ctx.rng
    n_cases = 150 if ctx.tier == "quick" else 2000
    pair_seen = set()
    for it in range(n_cases):
        n_units = rng.randint(1, 4)
        n_cands = 2 if rng.random() < 0.8 else 3
        keys, scheme = rand_keys(rng, n_units)
        raw_units = P.Units(units=list(keys), candidates=n_cands) if rng.random() < 0.7 else P.Units(candidates=n_cands)
        units = UView(raw_units, keys)
        for kk in keys:
            raw_units[kk]                 # lazily created units get their positions in this order
        ctx.dist["unit_keys=" + scheme] += 1
        if it < 30:
            # all nine operand shapes, both operators
            a = gen.rand_expr_flat(rng, n_units, 2, 2, n_cands)
            b = gen.rand_expr_flat(rng, n_units, 2, 2, n_cands)
            tree = {("and" if it % 2 == 0 else "or"): [a, b]}
        else:
            tree = gen.rand_expr_tree(rng, n_units, 3 if ctx.tier == "quick" else 4, n_cands)
        case = dict(nUnits=n_units, nCands=n_cands, tree=tree)
        asg = spec.assignments(n_units, n_cands)
        spec_tab = [spec.expr_true(tree, a) for a in asg]
        # implementation: build with the real operators, watching the operands
        impl_tab = None
        impl_data = None
        err = None
        try:
            if "and" in tree or "or" in tree:
                op = "and" if "and" in tree else "or"
                ea = gen.build_expr(P, units, tree[op][0])
                eb = gen.build_expr(P, units, tree[op][1])
                da, db = copy.deepcopy(ea.data.tolist()), copy.deepcopy(eb.data.tolist())
                e = (ea & eb) if op == "and" else (ea | eb)
                if ea.data.tolist() != da or eb.data.tolist() != db:
                    ctx.mismatch("operator modified an operand", case, impl=[ea.data.tolist(), eb.data.tolist()], spec=[da, db])
                    continue
                pair_seen.add((kind(tree[op][0]), kind(tree[op][1]), op))
            else:
                e = gen.build_expr(P, units, tree)
            impl_tab = [bool(e.eval(list(a))) for a in asg]
            impl_data = data3(e.data)
            # container read-back
            prov = P.Provenance([e, units[0] == 1])
            n_before = len(raw_units.units)
            back = prov[0]
            back_tab = [bool(back.eval(list(a))) for a in asg]
            if len(raw_units.units) != n_before:
                ctx.mismatch("reading a row back changed the unit set", case, impl=[str(x) for x in raw_units.units])
                continue
            q_tab = [bool(np.asarray(prov.query(np.array(a)))[0]) for a in asg]
        except Exception as ex:  # noqa
            err = (exc_name(ex), repr(ex))
        model = ctx.model({"op": "expr", "e": tree, "nUnits": n_units, "nCands": n_cands})
        nontriv = (has(tree, "and") and has(tree, "or")) or has(tree, "disj")
        ctx.case(tree, nontrivial=nontriv, sample=case, root=kind(tree), cands=n_cands)
        ctx.maxi(units=n_units, assignments=len(asg))
        if err:
            ctx.mismatch("operator/eval raised", case, impl=err, model=(model["ok"]["table"] if model else None), spec=spec_tab)
            continue
        if impl_tab != spec_tab or back_tab != spec_tab or q_tab != spec_tab:
            ctx.mismatch("truth table of a&b / a|b / stored row differs from the logic of the operands", case,
                         impl=dict(eval=impl_tab, readback=back_tab, query=q_tab), model=(model["ok"]["table"] if model else None), spec=spec_tab)
            continue
        if model is not None:
            if model["ok"]["table"] != impl_tab:
                ctx.mismatch("model Expr.and/or disagrees with implementation (implementation agrees with the definition)", case,
                             impl=impl_tab, model=model["ok"]["table"], spec=spec_tab, failing_input=False,
                             broken="corr:Ds.Prov.Expr.and/or / theorems C11_and C11_or")
            elif [[list(l) for l in c] for c in model["ok"]["data3"]] != impl_data:
                ctx.dist["raw_data_differs"] += 1
    ctx.extra["operand_shape_pairs_seen"] = len(pair_seen)
    return ctx.finish("proof", "Theorems C11_* state that the modelled & and | (with their distribution and wrapping rules) evaluate to the "
                      "conjunction/disjunction of the operands for every operand shape and nesting and that data3/fromData round-trips; this run "
                      "compared model, structural evaluation and the real operators on every generated tree.", RULE)
