"""helpers for the kernel family (C01, C06, C07, C08, C13)"""
import contextlib
import struct
from fractions import Fraction
import numpy as np
import spec


@contextlib.contextmanager
def record_argsort(store):
    """record every order np.argsort returns while active (both kernels look np.argsort up at call time)"""
    orig = np.argsort

    def wrapped(a, *args, **kw):
        r = orig(a, *args, **kw)
        try:
            store.append((np.array(a, dtype=float, copy=True), np.array(r, copy=True), kw.get("axis", args[0] if args else -1)))
        except Exception:
            pass
        return r
    np.argsort = wrapped
    try:
        yield
    finally:
        np.argsort = orig


def orders_from(store, n, m):
    """turn the recorded argsort results into one order per validation point (None if not recoverable)"""
    for a, r, axis in store:
        if r.shape == (n, m):
            return [r[:, j].tolist() for j in range(m)]
    cols = [r.tolist() for a, r, axis in store if r.shape == (n,)]
    if len(cols) == m:
        return cols
    return None


def bits(x):
    return struct.unpack("<Q", struct.pack("<d", float(x)))[0]


def frs(x):
    """exact rational string of a float / int; +-inf is rendered as +-10^30 (above every finite value generated; equal infinities stay tied)"""
    if isinstance(x, float) and x in (float("inf"), float("-inf")):
        return ("-" if x < 0 else "") + "1" + "0" * 30
    return str(Fraction(x))


def extend_distances(rng, dist, ties):
    """any distance callable is allowed: shift some matrices below zero, put real rows at an infinite distance (one per column when the distances are
    meant to be distinct, several - hence tied - otherwise).  In place; returns a tag for the input distribution."""
    tag = []
    n, m = dist.shape
    if rng.random() < 0.3:
        dist -= float(rng.randrange(1, 8 * n + 8))
        tag.append("negative")
    if rng.random() < 0.3 and n >= 2:
        for j in range(m):
            k = 1 if not ties else rng.randint(1, min(3, n))
            for i in rng.sample(range(n), k):
                dist[i, j] = float("inf")
        tag.append("infinite")
    return "+".join(tag) or "plain"


def kernel_case(rng, n, m, c, ties=False, util_kind="acc", big=False):
    # in about a third of the cases the top class(es) of the utility table are carried by NO unit (a class of y_train whose rows are never their unit's nearest row)
    top = c if rng.random() < 0.65 else max(1, c - rng.randint(1, 2))
    labels = np.array([[rng.randrange(top) for _ in range(m)] for _ in range(n)], dtype=np.int64)
    if ties:
        dist = np.array([[float(rng.randrange(1, 4)) for _ in range(m)] for _ in range(n)], dtype=np.float64)
    else:
        dist = np.array([rng.sample(range(1, 8 * n + 8), n) for _ in range(m)], dtype=np.float64).T.copy()
    extend_distances(rng, dist, ties)
    if util_kind == "acc":
        yv = [rng.randrange(c) for _ in range(m)]
        util = np.array([[1.0 if k == yv[j] else 0.0 for j in range(m)] for k in range(c)], dtype=np.float64)
        nulls = np.array([float(rng.randrange(2)) for _ in range(m)], dtype=np.float64)
    else:
        s = 10 ** 6 if big else 1
        util = np.array([[float(rng.randrange(-8, 9) * s) + (rng.randrange(8) / 8.0) for _ in range(m)] for _ in range(c)], dtype=np.float64)
        nulls = np.array([float(rng.randrange(-8, 9) * s) for _ in range(m)], dtype=np.float64)
    return labels, dist, util, nulls


def model_kernel_req(labels, orders, util, nulls, dist=None, op="kernel"):
    n, m = labels.shape
    req = {"op": op, "n": n, "labels": [labels[:, j].tolist() for j in range(m)], "orders": orders}
    if op == "kernel":
        req["utils"] = [[frs(util[k, j]) for k in range(util.shape[0])] for j in range(m)]
        req["nulls"] = [frs(x) for x in nulls]
        if dist is not None:
            req["dists"] = [[frs(dist[i, j]) for i in range(n)] for j in range(m)]
    else:
        req["utils"] = [[bits(util[k, j]) for k in range(util.shape[0])] for j in range(m)]
        req["nulls"] = [bits(x) for x in nulls]
    return req


def shapley_kernel_spec(labels, orders, util, nulls):
    """Fraction Shapley value of the mean 1-NN game (small n only)"""
    n, m = labels.shape
    games = [spec.nn1_game(orders[j], labels[:, j].tolist(), [Fraction(util[k, j]) for k in range(util.shape[0])], Fraction(nulls[j]))
             for j in range(m)]
    return spec.shapley(n, lambda S: sum(g(S) for g in games) / m)


def consistent_orders(dcol, limit=24):
    """all orders consistent with the distances (tie groups permuted), up to `limit`"""
    from itertools import permutations, product
    groups = {}
    for i, d in enumerate(dcol):
        groups.setdefault(d, []).append(i)
    keys = sorted(groups)
    per = [list(permutations(groups[k])) for k in keys]
    total = 1
    for p in per:
        total *= len(p)
    if total > limit:
        return None
    return [[u for grp in combo for u in grp] for combo in product(*per)]


def gen_req(which, scalar, labels, dist, util, nulls, orders):
    """request for the TRANSLATED kernel (lean/Gen via gendriver): arrays row-major, argsort results per validation point"""
    n, m = labels.shape
    enc = bits if scalar == "float" else frs
    return {"which": which, "scalar": scalar, "n": n, "m": m, "c": int(util.shape[0]), "L": labels.tolist(),
            "D": [[enc(dist[i, j]) for j in range(m)] for i in range(n)], "U": [[enc(util[k, j]) for j in range(m)] for k in range(util.shape[0])],
            "nulls": [enc(x) for x in nulls], "orders": orders}


def check_translated(ctx, which, out, labels, dist, util, nulls, orders, case, bound, stats):
    """the translated source (regenerated from the repository this run) against the implementation it was translated from:
    Float instance bit for bit (recorded) and within the proved rounding bound (required); Rat instance against the hand-written model (exact)."""
    if ctx.gendriver is None or orders is None:
        return
    ans = ctx.gen(gen_req(which, "float", labels, dist, util, nulls, orders))
    if ans is None or "ok" not in ans:
        ctx.mismatch("translated kernel %s could not be run" % which, case, model=ans, failing_input=False, broken="corr:Gen.compute_all_importances%s" % ("_cy" if which == "cy" else ""))
        return
    got = [struct.unpack("<d", struct.pack("<Q", b))[0] for b in ans["ok"]]
    stats["total"] = stats.get("total", 0) + 1
    if ans["ok"] == [bits(x) for x in out.tolist()]:
        stats["same"] = stats.get("same", 0) + 1
    if len(got) != len(out) or any(not abs(a - b) <= bound for a, b in zip(got, out.tolist())):
        ctx.mismatch("the kernel translated from the source (harness/translate.py -> lean/Gen) does not reproduce the implementation %s: translator or Ds/Np.lean misrepresent the code" % which,
                     case, impl=out.tolist()[:8], model=got[:8], failing_input=False, broken="corr:Gen.compute_all_importances%s (translator / Ds.Np)" % ("_cy" if which == "cy" else ""))
