"""C10 — decision-diagram algebra agrees with pointwise semantics."""
import copy
import itertools
import numpy as np
from props.common import load_impl, exc_name
from props import addutil as au

RULE = ("random ADD programs on the real datascope.utility.ADD and on the Lean model Ds.Dd: leaves chain/tree, nesting by stack (2^k side-by-side elements under "
        "a header tree, k = 1-3 factor variables, i.e. up to 8 elements and two inner header levels) and concatenate, edge values set/incremented through "
        "get_update_location and on raw edges, then restrict (every variable incl. the first, "
        "both values), sum (of differently updated copies and of restrict results), evaluation at EVERY assignment and modelcount, <= 5 variables quick / <= 6 "
        "thorough; every third program is built around ONE stack over 1-3 factors (mostly 3) whose elements are separately built and pairwise different, evaluated "
        "bare, then given non-zero values on its header edges - always on the root edges (level 0) - by location x[factor]==c and on raw header edges, then its FIRST "
        "variable restricted to 0 AND to 1 with each half evaluated everywhere, restricted again and the two halves summed; value domains AValue[m], AValue[m1,m2], ATally[n,K,c] with invalid edge values; relations checked on the implementation itself: "
        "eval(restrict(d,u,c))(x) = eval(d)(x[u:=c]), eval(sum) = saturating pointwise sum, modelcount = histogram of eval; plus the full AValue/ATally operator "
        "tables (+, -, index, ==, hash) exhaustively for small domains. Non-trivial = program contains a stack or concatenate, an update and at least one of "
        "restrict/sum; distinct = distinct programs.")


class Machine:
    """runs a program on the real ADD class"""
    def __init__(self, I, dom):
        self.I = I
        self.dom = dom
        self.atype = au.atype_of(I, dom)
        self.regs = {}
        self.ADD = I["add"].ADD

    def step(self, op):
        k = op["op"]
        try:
            if k == "chain":
                self.regs[op["out"]] = self.ADD.construct_chain(list(op["units"]), op.get("C", 2), self.atype)
                return "ok"
            if k == "tree":
                self.regs[op["out"]] = self.ADD.construct_tree(list(op["units"]), op.get("C", 2), self.atype)
                return "ok"
            if k == "stack":
                els = [copy.deepcopy(self.regs[r]) for r in op["els"]]
                vals = list(itertools.product(range(2), repeat=len(op["factors"])))
                self.regs[op["out"]] = self.ADD.stack(list(op["factors"]), dict(zip(vals, els)))
                return "ok"
            if k == "concat":
                self.regs[op["out"]] = self.ADD.concatenate([copy.deepcopy(self.regs[r]) for r in op["els"]])
                return "ok"
            if k == "update":
                d = self.regs[op["d"]]
                loc = d.get_update_location([u for u, _ in op["asg"]], [v for _, v in op["asg"]])
                d.update(loc, au.to_av(self.atype, op["v"]), increment=op["inc"])
                return "ok"
            if k == "setedge":
                d = self.regs[op["d"]]
                # an edge is written [level, [node, value]] (the driver reads triples as nested pairs); flat [level, node, value] accepted too
                d.update([(e[0], e[1][0], e[1][1]) if isinstance(e[1], (list, tuple)) else tuple(e) for e in op["loc"]],
                         au.to_av(self.atype, op["v"]), increment=op["inc"])
                return "ok"
            if k == "location":
                d = self.regs[op["d"]]
                loc = d.get_update_location([u for u, _ in op["asg"]], [v for _, v in op["asg"]])
                return sorted([int(a), int(b), int(c)] for a, b, c in loc)
            if k == "restrict":
                self.regs[op["out"]] = self.regs[op["d"]].restrict(op["unit"], op["value"])
                return "ok"
            if k == "sum":
                self.regs[op["out"]] = self.regs[op["a"]].sum(self.regs[op["b"]])
                return "ok"
            if k == "evalall":
                return au.eval_all(self.regs[op["d"]])
            if k == "modelcount":
                return [int(x) for x in self.regs[op["d"]].modelcount()]
            if k == "dump":
                d = self.regs[op["d"]]
                return dict(units=[int(u) for u in d.units], root=int(d.root), diameter=int(d.diameter), nodes=d.nodes.tolist(), child=d.child.tolist(),
                            adder=[[[au.av_json(a) for a in nd] for nd in lv] for lv in d.adder.tolist()])
        except Exception as e:  # noqa
            return {"err": exc_name(e)}
        raise ValueError(k)


class Denot:
    """by-definition meaning of a program, independent of the diagram representation: every register denotes a function from assignments
    (tuples over its unit list) to values; None = not tracked (after an edge overwrite, whose meaning depends on the representation)"""
    def __init__(self, dom):
        self.dom = dom
        self.regs = {}
        self.zero = [0] * (len(dom["box"]) if "box" in dom else 1 + 2 * dom["tally"][2])

    def step(self, op):
        k = op["op"]
        R = self.regs
        try:
            if k in ("chain", "tree"):
                us = list(op["units"])
                R[op["out"]] = (us, {a: list(self.zero) for a in itertools.product(range(2), repeat=len(us))})
            elif k == "concat":
                parts = [R.get(r) for r in op["els"]]
                if any(p is None for p in parts):
                    R[op["out"]] = None
                    return
                us = [u for p in parts for u in p[0]]
                tab = {}
                for a in itertools.product(range(2), repeat=len(us)):
                    v, pos = list(self.zero), 0
                    for pu, pt in parts:
                        v = au.sat_add(self.dom, v, pt[a[pos:pos + len(pu)]])
                        pos += len(pu)
                    tab[a] = v
                R[op["out"]] = (us, tab)
            elif k == "stack":
                parts = [R.get(r) for r in op["els"]]
                if any(p is None for p in parts):
                    R[op["out"]] = None
                    return
                nf = len(op["factors"])
                us = list(op["factors"]) + parts[0][0]
                tab = {}
                for a in itertools.product(range(2), repeat=len(us)):
                    idx = int("".join(str(b) for b in a[:nf]), 2)
                    tab[a] = parts[idx][1][a[nf:]]
                R[op["out"]] = (us, tab)
            elif k == "update":
                d = R.get(op["d"])
                # only single-unit increments have a representation-independent meaning ("add v wherever x[u] == c"): a multi-unit location is
                # the set of edges of its LAST unit reached by consistent paths, which depends on how far the diagram separates the earlier units
                if d is None or not op["inc"] or len(op["asg"]) != 1:
                    R[op["d"]] = None
                    return
                us, tab = d
                for a in tab:
                    if all(a[us.index(u)] == v for u, v in op["asg"]):
                        tab[a] = au.sat_add(self.dom, tab[a], op["v"])
            elif k == "setedge":
                R[op["d"]] = None
            elif k == "restrict":
                d = R.get(op["d"])
                if d is None:
                    R[op["out"]] = None
                    return
                us, tab = d
                pos = us.index(op["unit"])
                R[op["out"]] = ([u for u in us if u != op["unit"]],
                                {a[:pos] + a[pos + 1:]: v for a, v in tab.items() if a[pos] == op["value"]})
            elif k == "sum":
                a, b = R.get(op["a"]), R.get(op["b"])
                if a is None or b is None:
                    R[op["out"]] = None
                    return
                R[op["out"]] = (a[0], {x: au.sat_add(self.dom, a[1][x], b[1][x]) for x in a[1]})
        except Exception:  # noqa  (ill-formed step: nothing to say)
            for key in ("out", "d"):
                if key in op:
                    R[op[key]] = None

    def evalall(self, r):
        d = self.regs.get(r)
        if d is None:
            return None
        us, tab = d
        return [tab[a] for a in itertools.product(range(2), repeat=len(us))]


def gen_program(rng, dom, max_units):
    """returns (ops, meta)"""
    ops = []
    nreg = [0]

    def new():
        nreg[0] += 1
        return nreg[0]
    n = rng.randint(1, max_units)
    units = rng.sample(range(0, 12), n)
    kinds = set()
    diam = {}          # register -> diameter of the diagram it will hold (products/sums of diameters bound the cost of sum and modelcount)

    def leaf(us):
        r = new()
        if len(us) >= 1 and rng.random() < 0.35 and len(us) <= 3:
            ops.append({"op": "tree", "out": r, "units": us, "C": 2})
            diam[r] = 2 ** (len(us) - 1)
        else:
            ops.append({"op": "chain", "out": r, "units": us, "C": 2})
            diam[r] = 1
        return r

    def updates(r, us, k):
        for _ in range(k):
            w = 1 if rng.random() < 0.5 else rng.randint(1, min(3, len(us)))
            asg = [[u, rng.randrange(2)] for u in rng.sample(us, w)]
            ops.append({"op": "update", "d": r, "asg": asg, "v": au.rand_value(rng, dom), "inc": rng.random() < 0.7})
            kinds.add("update")

    def build(us, depth):
        if len(us) >= 2 and depth > 0 and rng.random() < 0.75:
            if rng.random() < 0.5:
                # stack: k factors on top of 2^k elements over the rest
                k = rng.randint(1, min(3 if rng.random() < 0.3 else 2, len(us) - 1))      # 3 factors: the header tree has a second level
                factors, rest = us[:k], us[k:]
                base = build(rest, depth - 1)
                els = []
                hetero = rng.random() < 0.5          # elements of different shapes/diameters over the same units (chain, tree, nested) vs copies of one
                for _ in range(2 ** k):
                    r = new()
                    if hetero:
                        src = build(rest, depth - 1) if rng.random() < 0.5 else leaf(rest)
                    else:
                        src = base
                    # concat of a single element = a copy with its own registers
                    ops.append({"op": "concat", "out": r, "els": [src]})
                    diam[r] = diam.get(src, 1)
                    updates(r, rest, rng.randint(0, 2))
                    els.append(r)
                out = new()
                ops.append({"op": "stack", "out": out, "factors": factors, "els": els})
                diam[out] = sum(diam.get(e, 1) for e in els)
                kinds.add("stack")
                return out
            cut = rng.randint(1, len(us) - 1)
            a = build(us[:cut], depth - 1)
            b = build(us[cut:], depth - 1)
            out = new()
            ops.append({"op": "concat", "out": out, "els": [a, b]})
            diam[out] = max(diam.get(a, 1), diam.get(b, 1))
            kinds.add("concat")
            return out
        return leaf(us)
    d = build(units, 2)
    updates(d, units, rng.randint(1, 4))
    ops.append({"op": "evalall", "d": d})
    ops.append({"op": "modelcount", "d": d})
    ops.append({"op": "dump", "d": d})
    checks = []
    cur = d
    cur_units = list(units)
    for _ in range(rng.randint(1, 3)):
        r = rng.random()
        if r < 0.55 and len(cur_units) >= 1:
            u = rng.choice(cur_units) if rng.random() < 0.7 else cur_units[0]
            v = rng.randrange(2)
            out = new()
            ops.append({"op": "restrict", "d": cur, "out": out, "unit": u, "value": v})
            ops.append({"op": "evalall", "d": out})
            ops.append({"op": "modelcount", "d": out})
            checks.append(("restrict", cur, out, cur_units.index(u), v, len(cur_units)))
            diam[out] = diam.get(cur, 1)
            kinds.add("restrict")
            cur, cur_units = out, [x for x in cur_units if x != u]
        else:
            if diam.get(cur, 1) > 12:
                continue                       # the product construction would square an already wide diagram
            if cur_units and len(cur_units) <= 4 and rng.random() < 0.5:
                # a freshly built diagram of a DIFFERENT shape over the same variables (paired node indices then diverge in the product)
                other = build(list(cur_units), 1)
                updates(other, cur_units, rng.randint(1, 3))
            else:
                other = new()
                ops.append({"op": "concat", "out": other, "els": [cur]})
                diam[other] = diam.get(cur, 1)
                updates(other, cur_units, rng.randint(1, 3)) if cur_units else None
            if diam.get(cur, 1) * diam.get(other, 1) > 64:
                continue
            out = new()
            ops.append({"op": "sum", "a": cur, "b": other, "out": out})
            ops.append({"op": "evalall", "d": other})
            ops.append({"op": "evalall", "d": out})
            ops.append({"op": "modelcount", "d": out})
            checks.append(("sum", cur, other, out))
            diam[out] = diam.get(cur, 1) * diam.get(other, 1)
            kinds.add("sum")
            cur = out
    return ops, dict(units=units, kinds=sorted(kinds), checks=checks)


def gen_stack_program(rng, dom, max_units):
    """programs around ONE stack with 1-3 factor variables (3 factors = 8 elements and a header tree with two inner levels; header node j, value c ->
    node 2j+c, so the element reached for (f0, f1, f2) is elements[(f0, f1, f2)]): the 2^k elements are separately built chains/trees made pairwise
    different by their own updates, the header edges (root edge included) get non-zero values by location (`x[factor] == c`) and on raw level-0 / inner
    header edges, the stack is evaluated everywhere, then the FIRST variable is restricted to 0 and to 1 (root case of restrict on a diagram whose
    root edges carry values and whose root has two different children), each result evaluated everywhere, optionally restricted again (new first
    variable or a random one) and the two halves summed."""
    ops = []
    nreg = [0]

    def new():
        nreg[0] += 1
        return nreg[0]
    n = rng.randint(2, max_units)
    units = rng.sample(range(0, 12), n)
    k = min(n - 1, rng.choice([1, 2, 2, 3, 3, 3]))
    factors, rest = units[:k], units[k:]
    kinds = {"stack", "update", "restrict"}
    els, diam = [], 0
    for _ in range(2 ** k):
        r = new()
        if len(rest) <= 2 and rng.random() < 0.3:
            ops.append({"op": "tree", "out": r, "units": rest, "C": 2})
            diam += 2 ** (len(rest) - 1)
        else:
            ops.append({"op": "chain", "out": r, "units": rest, "C": 2})
            diam += 1
        for _ in range(rng.randint(1, 2)):
            # single-unit increments (tracked by the by-definition evaluator) with values from the whole domain: the elements differ from each other
            ops.append({"op": "update", "d": r, "asg": [[rng.choice(rest), rng.randrange(2)]], "v": au.rand_value(rng, dom, p_inf=0.03, small=False), "inc": True})
        els.append(r)
    d = new()
    ops.append({"op": "stack", "out": d, "factors": factors, "els": els})
    ops.append({"op": "evalall", "d": d})           # the bare stack, before any raw-edge write: always comparable with its by-definition meaning
    # values on the header edges; the first one always on the root edges (level 0)
    for j in range(rng.randint(1, 3)):
        lvl = 0 if j == 0 else rng.randrange(k)
        v = au.rand_value(rng, dom, p_inf=0.03, small=(rng.random() < 0.5))
        if rng.random() < 0.6:
            ops.append({"op": "update", "d": d, "asg": [[factors[lvl], rng.randrange(2)]], "v": v, "inc": True})
        else:
            ops.append({"op": "setedge", "d": d, "loc": [[lvl, [rng.randrange(2 ** lvl), rng.randrange(2)]]], "v": v, "inc": rng.random() < 0.7})
    ops.append({"op": "evalall", "d": d})
    ops.append({"op": "modelcount", "d": d})
    ops.append({"op": "dump", "d": d})
    checks = []
    halves = []
    for v in (0, 1):
        out = new()
        ops.append({"op": "restrict", "d": d, "out": out, "unit": units[0], "value": v})
        ops.append({"op": "evalall", "d": out})
        ops.append({"op": "modelcount", "d": out})
        checks.append(("restrict", d, out, 0, v, n))
        halves.append(out)
    if n >= 3 and rng.random() < 0.6:
        # once more on a half: its first variable (the next header level, or the first element variable) or any variable
        src = rng.choice(halves)
        left = units[1:]
        u = left[0] if rng.random() < 0.5 else rng.choice(left)
        v = rng.randrange(2)
        out = new()
        ops.append({"op": "restrict", "d": src, "out": out, "unit": u, "value": v})
        ops.append({"op": "evalall", "d": out})
        ops.append({"op": "modelcount", "d": out})
        checks.append(("restrict", src, out, left.index(u), v, n - 1))
    if rng.random() < 0.7:
        # a restricted diagram as an OPERAND of concatenate: restricting the first variable moved the root of a half off slot 0 (for value 1: the second node
        # of the next level), and concatenate must enter / leave each element through the element's own root, whichever side it stands on
        ounits = rng.sample(range(12, 20), rng.randint(1, 2))
        o = new()
        ops.append({"op": ("tree" if len(ounits) == 2 and rng.random() < 0.5 else "chain"), "out": o, "units": ounits, "C": 2})
        ops.append({"op": "update", "d": o, "asg": [[rng.choice(ounits), rng.randrange(2)]], "v": au.rand_value(rng, dom, p_inf=0.03, small=False), "inc": True})
        ops.append({"op": "evalall", "d": o})
        for h in (halves if rng.random() < 0.5 else [halves[1]]):
            for order in ([h, o], [o, h]):
                out = new()
                ops.append({"op": "concat", "out": out, "els": order})
                ops.append({"op": "evalall", "d": out})
                ops.append({"op": "modelcount", "d": out})
                checks.append(("concat", order[0], order[1], out))
        kinds.add("concat")
    if diam * diam <= 64 and rng.random() < 0.5:
        # the two halves share all arrays but the root (and the values pushed below it)
        out = new()
        ops.append({"op": "sum", "a": halves[0], "b": halves[1], "out": out})
        ops.append({"op": "evalall", "d": out})
        ops.append({"op": "modelcount", "d": out})
        checks.append(("sum", halves[0], halves[1], out))
        kinds.add("sum")
    return ops, dict(units=units, kinds=sorted(kinds), checks=checks, factors=k)


def value_tables(ctx, I):
    """exhaustive operator tables for small domains"""
    doms = [{"box": [2]}, {"box": [1, 2]}, {"tally": [1, 1, 2]}, {"tally": [2, 2, 1]}]
    if ctx.tier != "quick":
        doms += [{"box": [3, 1, 1]}, {"tally": [1, 2, 2]}]
    for dom in doms:
        atype = au.atype_of(I, dom)
        vecs = au.dom_vectors(dom) + [None]
        ans = ctx.model({"op": "domain", "dom": dom})
        impl_dom = [au.av_json(a) for a in atype.domain()]
        ctx.case(("domain", dom), nontrivial=True, sample=dict(dom=dom, size=len(vecs)))
        if impl_dom != vecs or int(atype.domainsize) != len(vecs):
            ctx.mismatch("domain() / domainsize do not enumerate the valid values followed by the invalid one", dict(dom=dom), impl=dict(domain=impl_dom[:10], size=int(atype.domainsize)),
                         spec=dict(domain=vecs[:10], size=len(vecs)))
        if ans is not None and (ans["ok"]["domain"] != vecs or ans["ok"]["domainsize"] != len(vecs)):
            ctx.mismatch("model domain differs", dict(dom=dom), model=ans["ok"]["domainsize"], spec=len(vecs), failing_input=False, broken="corr:Ds.Dom.domain")
        from operator import index
        idx = [index(au.to_av(atype, v)) for v in vecs]
        if idx != list(range(len(vecs))):
            ctx.mismatch("value indices do not enumerate the domain bijectively", dict(dom=dom), impl=idx[:20], spec=list(range(len(vecs)))[:20])
        for a in vecs:
            for b in vecs:
                A, B = au.to_av(atype, a), au.to_av(atype, b)
                s = au.av_json(A + B)
                want_s = au.sat_add(dom, a, b)
                eq = (A == B)
                hs = (hash(A) == hash(B))
                ok = (s == want_s) and (eq == (a == b)) and (not eq or hs) and ((index(A) == index(B)) == (a == b))
                want_d = "unchecked"
                if a is not None:
                    d = au.av_json(A - B)
                    want_d = None if b is None else ([x - y for x, y in zip(a, b)] if all(x >= y for x, y in zip(a, b)) else None)
                    ok = ok and d == want_d
                ctx.evaluations += 1
                if not ok:
                    ctx.mismatch("AValue/ATally operator table differs from component-wise saturating arithmetic", dict(dom=dom, a=a, b=b),
                                 impl=dict(add=s, sub=(au.av_json(A - B) if a is not None else None), eq=eq), spec=dict(add=want_s, sub=want_d, eq=(a == b)))
                    return
                if ctx.driver is not None and (len(vecs) <= 40 or (hash((str(a), str(b))) % 7 == 0)):
                    m = ctx.model({"op": "aval", "dom": dom, "a": a, "b": b})["ok"]
                    if m["add"] != s or (a is not None and m["sub"] != au.av_json(A - B)) or m["indexA"] != index(A) or m["eq"] != eq:
                        ctx.mismatch("model value arithmetic differs from implementation", dict(dom=dom, a=a, b=b), impl=dict(add=s), model=m, failing_input=False,
                                     broken="corr:Ds.AVal.add/sub/index")
                        return


def run(ctx):
    I = load_impl(ctx)
    rng = ctx.rng
    q = ctx.tier == "quick"
    value_tables(ctx, I)
    n_prog = 70 if q else 600
    doms = [{"box": [3]}, {"box": [2, 2]}, {"tally": [2, 1, 2]}, {"tally": [3, 2, 2]}, {"box": [6]}]
    for it in range(n_prog):
        dom = doms[it % len(doms)]
        # every third program is built around one stack with up to three factor variables and restricts its first variable both ways
        ops, meta = (gen_stack_program if it % 3 == 1 else gen_program)(rng, dom, 5 if q else 6)
        case = dict(dom=dom, ops=ops)
        mach = Machine(I, dom)
        outs = [mach.step(op) for op in ops]
        den = Denot(dom)
        den_bad = None
        for kk, (op, o) in enumerate(zip(ops, outs)):
            if isinstance(o, dict) and "err" in o:
                break                      # after a failing step registers diverge; the relations below still apply
            den.step(op)
            if op["op"] == "evalall" and isinstance(o, list):
                want_ev = den.evalall(op["d"])
                if want_ev is not None:
                    ctx.dist["denotation_checked"] += 1
                    if want_ev != o:
                        den_bad = (kk, o, want_ev)
                        break
        ans = ctx.model({"op": "addprog", "dom": dom, "ops": ops})
        nontriv = ({"stack", "concat"} & set(meta["kinds"])) and "update" in meta["kinds"] and ({"restrict", "sum"} & set(meta["kinds"]))
        ctx.case(ops, nontrivial=bool(nontriv), sample=(case if len(ops) <= 12 else None), dom=str(dom), **{("has_" + k): True for k in meta["kinds"]})
        ctx.maxi(variables=len(meta["units"]), ops=len(ops), stack_factors=max([len(o["factors"]) for o in ops if o["op"] == "stack"] or [0]))
        if "factors" in meta:
            ctx.dist["first_variable_of_stack_restricted_both_ways_factors_%d" % meta["factors"]] += 1
        if den_bad is not None:
            ctx.mismatch("evaluation differs from the meaning of the construction (chain/tree = 0, stack selects the element by the factor bits, concatenate adds "
                         "the elements on their argument slices, update adds on the matching assignments, restrict fixes, sum adds) at step %d" % den_bad[0],
                         case, impl=den_bad[1], spec=den_bad[2])
            continue
        # 1. relations on the implementation itself (the definition)
        obs = {}
        for op, out in zip(ops, outs):
            if op["op"] in ("evalall", "modelcount"):
                obs[(op["op"], op["d"])] = out
        vecs = au.dom_vectors(dom)
        failed = False
        for (kind, d), out in obs.items():
            if kind == "modelcount" and ("evalall", d) in obs and isinstance(out, list) and isinstance(obs[("evalall", d)], list):
                ev = obs[("evalall", d)]
                hist = [sum(1 for e in ev if e == v) for v in vecs] + [sum(1 for e in ev if e is None)]
                if out != hist:
                    ctx.mismatch("modelcount() is not the histogram of the evaluated value over all assignments", case, impl=out, spec=hist)
                    failed = True
                    break
        if failed:
            continue
        for chk in meta["checks"]:
            if chk[0] == "restrict":
                _, src, dst, pos, v, nvars = chk
                a, b = obs.get(("evalall", src)), obs.get(("evalall", dst))
                res = outs[[i for i, o in enumerate(ops) if o["op"] == "restrict" and o["out"] == dst][0]]
                if isinstance(res, dict):
                    tag = "F3b-single-variable-restrict" if (nvars == 1 and res.get("err") == "IndexError") else None
                    ctx.mismatch("restrict raised", case, impl=res, tag=tag)
                    failed = True
                    break
                if isinstance(a, list) and isinstance(b, list):
                    asg = list(itertools.product(range(2), repeat=nvars))
                    want = [a[asg.index(x[:pos] + (v,) + x[pos:])] for x in itertools.product(range(2), repeat=nvars - 1)]
                    if b != want:
                        ctx.mismatch("restrict() does not evaluate to the original with the variable fixed", case, impl=b, spec=want)
                        failed = True
                        break
            elif chk[0] == "concat":
                # eval(concatenate([x, y]))(a ++ b) = eval(x)(a) + eval(y)(b), from the implementation's own evaluations of the two operands
                _, x, y, out = chk
                a, b, c = obs.get(("evalall", x)), obs.get(("evalall", y)), obs.get(("evalall", out))
                if isinstance(a, list) and isinstance(b, list):
                    want = [au.sat_add(dom, p, r) for p in a for r in b]
                    if c != want:
                        ctx.mismatch("concatenate() does not evaluate to the sum of its operands on their argument slices (an operand whose root is not node 0: a restricted diagram)",
                                     case, impl=c, spec=want)
                        failed = True
                        break
            else:
                _, x, y, out = chk
                a, b, c = obs.get(("evalall", x)), obs.get(("evalall", y)), obs.get(("evalall", out))
                if isinstance(a, list) and isinstance(b, list):
                    want = [au.sat_add(dom, p, r) for p, r in zip(a, b)]
                    if c != want:
                        ctx.mismatch("sum() does not evaluate to the pointwise saturating sum", case, impl=c, spec=want)
                        failed = True
                        break
        if failed:
            continue
        # 2. model vs implementation on every observation
        if ans is not None:
            mouts = ans["ok"]
            for k, (op, o, mo) in enumerate(zip(ops, outs, mouts)):
                if op["op"] == "dump":
                    if o != mo:
                        ctx.dist["raw_arrays_differ"] += 1
                    continue
                if o != mo:
                    tag = None
                    ctx.mismatch("model Ds.Dd disagrees with the implementation at step %d (%s); the implementation satisfies the pointwise relations" % (k, op["op"]),
                                 case, impl=o, model=mo, failing_input=False, broken="corr:Ds.Dd.%s / theorems C10_*" % op["op"], tag=tag)
                    break
        if ctx.elapsed() > (440 if q else 1800):
            break
    return ctx.finish("proof", "C10_*: evaluation = saturating path sum; restrict of a non-first variable = fixing it; sum = pointwise sum; modelcount = histogram; "
                      "value-domain monoid/subtraction/index laws - for every diagram, value type and operation sequence of the model. This run tied the model to the real "
                      "ADD/AValue/ATally classes on random programs and exhaustive operator tables.", RULE)
