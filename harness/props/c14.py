"""C14 — element-wise utilities decompose the metric they stand for."""
import itertools
import warnings
from fractions import Fraction
import numpy as np
from props.common import load_impl, exc_name

RULE = ("accuracy: ALL (validation label vector, prediction vector) pairs up to length 5 quick / 6 thorough over 1-3 classes (exhaustive) plus random longer "
        "vectors over up to 5 classes with integer, negative and unsorted class sets; ROC-AUC: all binary vectors with both classes present up to length 6/8 plus "
        "random longer ones; each compared three ways: datascope's elementwise_score / elementwise_null_score / null_score, scikit-learn's accuracy_score / "
        "roc_auc_score on the same predictions, and the Lean model Ds.Util. Non-trivial = >= 2 classes occur in the validation vector and predictions are "
        "neither all right nor all wrong; distinct = distinct (classes, labels, predictions).")


def frs(x):
    return str(Fraction(float(x)).limit_denominator(10 ** 6))


def run(ctx):
    I = load_impl(ctx)
    U = I["utility"]
    from sklearn.metrics import accuracy_score, roc_auc_score
    from sklearn.neighbors import KNeighborsClassifier
    rng = ctx.rng
    q = ctx.tier == "quick"
    acc = U.SklearnModelAccuracy(KNeighborsClassifier(1))
    auc = U.SklearnModelRocAuc(KNeighborsClassifier(1))
    X1 = np.zeros((1, 1))

    def cases_acc():
        L = 4 if q else 5
        for n in range(1, L + 1):
            for c in (1, 2, 3):
                for yv in itertools.product(range(c), repeat=n):
                    for pred in itertools.product(range(c), repeat=n):
                        yield list(range(c)), list(yv), list(pred)
        for _ in range(150 if q else 1500):
            c = rng.randint(1, 5)
            classes = sorted(rng.sample(range(-9, 30), c))
            n = rng.randint(1, 12)
            yv = [rng.choice(classes) for _ in range(n)]
            if rng.random() < 0.4:
                # validation labels that no training class has (below, between, above the classes): never predicted correctly
                for k in rng.sample(range(n), rng.randint(1, max(1, n // 2))):
                    yv[k] = rng.choice([classes[0] - 2, classes[-1] + 3] + [c + 1 for c in classes if c + 1 not in classes])
            pred = [rng.choice(classes) for _ in range(n)]
            yield classes, yv, pred

    budget = 400 if q else 2400
    for classes, yv, pred in cases_acc():
        y_train = np.array(classes)
        yva = np.array(yv)
        case = dict(metric="accuracy", classes=classes, y_val=yv, pred=pred)
        try:
            E = acc.elementwise_score(X1, y_train, X1, yva)
            N = acc.elementwise_null_score(X1, y_train, X1, yva)
            null = acc.null_score(X1, y_train, X1, yva)
        except Exception as e:  # noqa
            ctx.mismatch("element-wise accuracy raised", case, impl=exc_name(e) + repr(e))
            continue
        n = len(yv)
        got = Fraction(sum(Fraction(float(E[classes.index(p), j])) for j, p in enumerate(pred)), n)
        want = Fraction(sum(1 for a, b in zip(yv, pred) if a == b), n)
        sk = Fraction(float(accuracy_score(yva, np.array(pred)))).limit_denominator(1000)
        accs = [Fraction(sum(1 for y in yv if y == c), n) for c in classes]
        want_null = min(accs)
        got_nullmean = Fraction(sum(Fraction(float(x)) for x in N), n)
        nontriv = len(set(yv)) >= 2 and 0 < want < 1
        ctx.case((tuple(classes), tuple(yv), tuple(pred)), nontrivial=nontriv, sample=case, metric="accuracy", n=n)
        ctx.maxi(length=n, classes=len(classes))
        if got != want or sk != want:
            ctx.mismatch("mean element-wise accuracy score != accuracy of the predictions", case, impl=str(got), spec=str(want))
            continue
        if got_nullmean != want_null or abs(Fraction(float(null)) - want_null) > Fraction(1, 10 ** 9):
            ctx.mismatch("mean element-wise null score / null score != lowest accuracy of a constant training class", case,
                         impl=dict(elementwise_mean=str(got_nullmean), null_score=float(null)), spec=str(want_null))
            continue
        if ctx.driver is not None and (n >= 4 or rng.random() < 0.1):
            m = ctx.model({"op": "util", "classes": classes, "yTest": yv, "pred": pred})["ok"]
            mE = [[Fraction(x) for x in row] for row in m["accElem"]]
            if mE != [[Fraction(float(x)) for x in row] for row in E.tolist()] or [Fraction(x) for x in m["accNullElem"]] != [Fraction(float(x)) for x in N.tolist()] \
                    or Fraction(m["accNull"]) != want_null or Fraction(m["accuracy"]) != want:
                ctx.mismatch("model Ds.Util accuracy functions differ from implementation", case, impl=dict(E=E.tolist(), N=N.tolist()), model=m, failing_input=False,
                             broken="corr:Ds.Util.accElem/accNullElem/accNull")
        if ctx.elapsed() > budget:
            break

    def cases_auc():
        L = 6 if q else 8
        for n in range(2, L + 1):
            for yv in itertools.product(range(2), repeat=n):
                if len(set(yv)) < 2:
                    continue
                for pred in itertools.product(range(2), repeat=n):
                    if rng.random() < (0.25 if n >= 6 else 1.0):
                        yield [0, 1], list(yv), list(pred)
        for _ in range(100 if q else 1000):
            a, b = sorted(rng.sample(range(-5, 20), 2))
            n = rng.randint(2, 14)
            yv = [rng.choice([a, b]) for _ in range(n)]
            if len(set(yv)) < 2:
                yv[0], yv[1] = a, b
            pred = [rng.choice([a, b]) for _ in range(n)]
            yield [a, b], yv, pred

    budget2 = budget + (400 if q else 2400)
    for classes, yv, pred in cases_auc():
        y_train = np.array(classes)
        yva = np.array(yv)
        case = dict(metric="rocauc", classes=classes, y_val=yv, pred=pred)
        try:
            with warnings.catch_warnings():
                warnings.simplefilter("error")
                E = auc.elementwise_score(X1, y_train, X1, yva)
                N = auc.elementwise_null_score(X1, y_train, X1, yva)
                null = auc.null_score(X1, y_train, X1, yva)
        except Exception as e:  # noqa
            ctx.mismatch("element-wise ROC-AUC raised", case, impl=exc_name(e) + repr(e))
            continue
        n = len(yv)
        got = sum(Fraction(float(E[classes.index(p), j])).limit_denominator(10 ** 9) for j, p in enumerate(pred))
        pos = classes[1]
        P = sum(1 for y in yv if y == pos)
        Nn = n - P
        tp = sum(1 for y, p in zip(yv, pred) if y == pos and p == pos)
        tn = sum(1 for y, p in zip(yv, pred) if y != pos and p != pos)
        want = (Fraction(tp, P) + Fraction(tn, Nn)) / 2
        sk = Fraction(float(roc_auc_score(yva, (np.array(pred) == pos).astype(float)))).limit_denominator(10 ** 6)
        got_null = sum(Fraction(float(x)).limit_denominator(10 ** 9) for x in N)
        nontriv = 0 < tp + tn < n
        ctx.case((tuple(classes), tuple(yv), tuple(pred)), nontrivial=nontriv, sample=case, metric="rocauc", n=n)
        if abs(got - want) > Fraction(1, 10 ** 8) or abs(sk - want) > Fraction(1, 10 ** 5):
            ctx.mismatch("element-wise ROC-AUC scores do not sum to the ROC-AUC of the hard predictions", case, impl=str(got), spec=dict(formula=str(want), sklearn=str(sk)))
            continue
        if abs(got_null - Fraction(float(null))) > Fraction(1, 10 ** 8) or abs(got_null - Fraction(1, 2)) > Fraction(1, 10 ** 8):
            ctx.mismatch("element-wise ROC-AUC null scores do not sum to the null score", case, impl=dict(sum=str(got_null), null_score=float(null)), spec="1/2")
            continue
        if ctx.driver is not None and (n >= 5 or rng.random() < 0.1):
            m = ctx.model({"op": "util", "classes": classes, "yTest": yv, "pred": pred})["ok"]
            ok = m["aucElem"] is not None and m["aucNullElem"] is not None and m["aucHard"] is not None
            if ok:
                mE = [[Fraction(x) for x in row] for row in m["aucElem"]]
                ok = all(abs(a - Fraction(float(b))) < Fraction(1, 10 ** 9) for ra, rb in zip(mE, E.tolist()) for a, b in zip(ra, rb)) \
                    and all(abs(Fraction(a) - Fraction(float(b))) < Fraction(1, 10 ** 9) for a, b in zip(m["aucNullElem"], N.tolist())) and Fraction(m["aucHard"]) == want
            if not ok:
                ctx.mismatch("model Ds.Util ROC-AUC functions differ from implementation", case, impl=dict(E=E.tolist(), N=N.tolist()), model=m, failing_input=False,
                             broken="corr:Ds.Util.aucElem/aucNullElem/aucHard")
        if ctx.elapsed() > budget2:
            break
    return ctx.finish("proof", "C14_acc, C14_acc_null, C14_auc, C14_auc_null: for every class set, label vector and prediction vector the modelled element-wise scores "
                      "average/sum to the metric and the element-wise null scores to the null score. roc_auc_score(hard predictions) = (TPR+TNR)/2 is a trusted contract, "
                      "validated here against scikit-learn. This run tied the model to the real utility classes.", RULE)
