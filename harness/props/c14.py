"""C14 — element-wise utilities decompose the metric they stand for."""
import itertools
import warnings
from fractions import Fraction
import numpy as np
from props.common import load_impl, exc_name

RULE = ("accuracy: ALL (validation label vector, prediction vector) pairs up to length 5 quick / 6 thorough over 1-3 classes (exhaustive) plus random longer "
        "vectors over up to 5 classes with integer, negative and unsorted class sets; ROC-AUC: all binary validation vectors with both classes present up to length 6/8 (training classes = both "
        "classes with all/sampled prediction vectors, and = each single class with its constant prediction) plus random longer ones whose training label vector "
        "(with repetitions, unsorted) holds both classes or only ONE of the two validation classes; each compared three ways: datascope's elementwise_score / elementwise_null_score / null_score, scikit-learn's accuracy_score / "
        "roc_auc_score on the same predictions, and the Lean model Ds.Util. Non-trivial = >= 2 classes occur in the validation vector and predictions are "
        "neither all right nor all wrong; distinct = distinct (classes, labels, predictions).")


def frs(x):
    return str(Fraction(float(x)).limit_denominator(10 ** 6))


def run(ctx):
    I = load_impl(ctx)
    U = I["utility"]
    from sklearn.metrics import accuracy_score, roc_auc_score
    from sklearn.neighbors import KNeighborsClassifier
    rng = ctx.rng
    q = ctx.tier == "quick"
    acc = U.SklearnModelAccuracy(KNeighborsClassifier(1))
    auc = U.SklearnModelRocAuc(KNeighborsClassifier(1))
    X1 = np.zeros((1, 1))

    def cases_acc():
        L = 4 if q else 5
        for n in range(1, L + 1):
            for c in (1, 2, 3):
                for yv in itertools.product(range(c), repeat=n):
                    for pred in itertools.product(range(c), repeat=n):
                        yield list(range(c)), list(yv), list(pred)
        for _ in range(150 if q else 1500):
            c = rng.randint(1, 5)
            classes = sorted(rng.sample(range(-9, 30), c))
            n = rng.randint(1, 12)
            yv = [rng.choice(classes) for _ in range(n)]
            if rng.random() < 0.4:
                # validation labels that no training class has (below, between, above the classes): never predicted correctly
                for k in rng.sample(range(n), rng.randint(1, max(1, n // 2))):
                    yv[k] = rng.choice([classes[0] - 2, classes[-1] + 3] + [c + 1 for c in classes if c + 1 not in classes])
            pred = [rng.choice(classes) for _ in range(n)]
            yield classes, yv, pred

    budget = 400 if q else 2400
    for classes, yv, pred in cases_acc():
        y_train = np.array(classes)
        yva = np.array(yv)
        case = dict(metric="accuracy", classes=classes, y_val=yv, pred=pred)
        try:
            E = acc.elementwise_score(X1, y_train, X1, yva)
            N = acc.elementwise_null_score(X1, y_train, X1, yva)
            null = acc.null_score(X1, y_train, X1, yva)
        except Exception as e:  # noqa
            ctx.mismatch("element-wise accuracy raised", case, impl=exc_name(e) + repr(e))
            continue
        n = len(yv)
        got = Fraction(sum(Fraction(float(E[classes.index(p), j])) for j, p in enumerate(pred)), n)
        want = Fraction(sum(1 for a, b in zip(yv, pred) if a == b), n)
        sk = Fraction(float(accuracy_score(yva, np.array(pred)))).limit_denominator(1000)
        accs = [Fraction(sum(1 for y in yv if y == c), n) for c in classes]
        want_null = min(accs)
        got_nullmean = Fraction(sum(Fraction(float(x)) for x in N), n)
        nontriv = len(set(yv)) >= 2 and 0 < want < 1
        ctx.case((tuple(classes), tuple(yv), tuple(pred)), nontrivial=nontriv, sample=case, metric="accuracy", n=n)
        ctx.maxi(length=n, classes=len(classes))
        if got != want or sk != want:
            ctx.mismatch("mean element-wise accuracy score != accuracy of the predictions", case, impl=str(got), spec=str(want))
            continue
        if got_nullmean != want_null or abs(Fraction(float(null)) - want_null) > Fraction(1, 10 ** 9):
            ctx.mismatch("mean element-wise null score / null score != lowest accuracy of a constant training class", case,
                         impl=dict(elementwise_mean=str(got_nullmean), null_score=float(null)), spec=str(want_null))
            continue
        if ctx.driver is not None and (n >= 4 or rng.random() < 0.1):
            m = ctx.model({"op": "util", "classes": classes, "yTest": yv, "pred": pred})["ok"]
            mE = [[Fraction(x) for x in row] for row in m["accElem"]]
            if mE != [[Fraction(float(x)) for x in row] for row in E.tolist()] or [Fraction(x) for x in m["accNullElem"]] != [Fraction(float(x)) for x in N.tolist()] \
                    or Fraction(m["accNull"]) != want_null or Fraction(m["accuracy"]) != want:
                ctx.mismatch("model Ds.Util accuracy functions differ from implementation", case, impl=dict(E=E.tolist(), N=N.tolist()), model=m, failing_input=False,
                             broken="corr:Ds.Util.accElem/accNullElem/accNull")
        if ctx.elapsed() > budget:
            break

    def cases_auc():
        # yields (training label vector, validation labels, predictions); predictions take training classes only (a model cannot predict anything else);
        # the training classes are a non-empty SUBSET of the two validation classes: both, or only one of them (a coalition / training set in which
        # one class does not occur is what the neighbor method hands over all the time). Training classes that do NOT occur among the validation
        # labels are outside the property (the per-class TPR/TNR shares divide by that class's validation count: the metric needs every class there).
        L = 6 if q else 8
        for n in range(2, L + 1):
            for yv in itertools.product(range(2), repeat=n):
                if len(set(yv)) < 2:
                    continue
                for pred in itertools.product(range(2), repeat=n):
                    if rng.random() < (0.25 if n >= 6 else 1.0):
                        yield [0, 1], list(yv), list(pred)
                for c in (0, 1):
                    yield [c], list(yv), [c] * n
        for _ in range(140 if q else 1400):
            a, b = sorted(rng.sample(range(-5, 20), 2))
            n = rng.randint(2, 14)
            yv = [rng.choice([a, b]) for _ in range(n)]
            if len(set(yv)) < 2:
                yv[0], yv[1] = a, b
            r = rng.random()
            tcl = [a, b] if r < 0.6 else ([a] if r < 0.8 else [b])
            if rng.random() < 0.5:
                y_train = list(tcl)
            else:
                # a training label vector with repetitions, in any order, every training class present
                y_train = tcl + [rng.choice(tcl) for _ in range(rng.randint(0, 5))]
                rng.shuffle(y_train)
            pred = [rng.choice(tcl) for _ in range(n)]
            yield y_train, yv, pred

    budget2 = budget + (400 if q else 2400)
    for ytr, yv, pred in cases_auc():
        y_train = np.array(ytr)
        classes = sorted(set(ytr))                    # row order of the element-wise table = np.unique(y_train)
        vclasses = sorted(set(yv))
        yva = np.array(yv)
        case = dict(metric="rocauc", y_train=ytr, classes=classes, y_val=yv, pred=pred)
        try:
            with warnings.catch_warnings():
                warnings.simplefilter("error")
                E = auc.elementwise_score(X1, y_train, X1, yva)
                N = auc.elementwise_null_score(X1, y_train, X1, yva)
                null = auc.null_score(X1, y_train, X1, yva)
        except Exception as e:  # noqa
            ctx.mismatch("element-wise ROC-AUC raised", case, impl=exc_name(e) + repr(e))
            continue
        if np.asarray(E).shape != (len(classes), len(yv)):
            ctx.mismatch("element-wise ROC-AUC table is not (training classes) x (validation points)", case, impl=list(np.asarray(E).shape), spec=[len(classes), len(yv)])
            continue
        n = len(yv)
        got = sum(Fraction(float(E[classes.index(p), j])).limit_denominator(10 ** 9) for j, p in enumerate(pred))
        pos = vclasses[1]
        P = sum(1 for y in yv if y == pos)
        Nn = n - P
        tp = sum(1 for y, p in zip(yv, pred) if y == pos and p == pos)
        tn = sum(1 for y, p in zip(yv, pred) if y != pos and p != pos)
        want = (Fraction(tp, P) + Fraction(tn, Nn)) / 2
        sk = Fraction(float(roc_auc_score(yva, (np.array(pred) == pos).astype(float)))).limit_denominator(10 ** 6)
        got_null = sum(Fraction(float(x)).limit_denominator(10 ** 9) for x in N)
        nontriv = 0 < tp + tn < n
        ctx.case((tuple(ytr), tuple(yv), tuple(pred)), nontrivial=nontriv, sample=case, metric="rocauc", n=n, train_classes=len(classes))
        if abs(got - want) > Fraction(1, 10 ** 8) or abs(sk - want) > Fraction(1, 10 ** 5):
            ctx.mismatch("element-wise ROC-AUC scores do not sum to the ROC-AUC of the hard predictions", case, impl=str(got), spec=dict(formula=str(want), sklearn=str(sk)))
            continue
        if abs(got_null - Fraction(float(null))) > Fraction(1, 10 ** 8) or abs(got_null - Fraction(1, 2)) > Fraction(1, 10 ** 8):
            ctx.mismatch("element-wise ROC-AUC null scores do not sum to the null score", case, impl=dict(sum=str(got_null), null_score=float(null)), spec="1/2")
            continue
        if ctx.driver is not None and (n >= 5 or rng.random() < 0.1):
            m = ctx.model({"op": "util", "classes": classes, "yTest": yv, "pred": pred})["ok"]
            if classes != vclasses:
                # the driver takes the positive class of aucHard from its "classes" argument: ask for it with the validation classes
                m["aucHard"] = ctx.model({"op": "util", "classes": vclasses, "yTest": yv, "pred": pred})["ok"]["aucHard"]
            ok = m["aucElem"] is not None and m["aucNullElem"] is not None and m["aucHard"] is not None
            if ok:
                mE = [[Fraction(x) for x in row] for row in m["aucElem"]]
                ok = all(abs(a - Fraction(float(b))) < Fraction(1, 10 ** 9) for ra, rb in zip(mE, E.tolist()) for a, b in zip(ra, rb)) \
                    and all(abs(Fraction(a) - Fraction(float(b))) < Fraction(1, 10 ** 9) for a, b in zip(m["aucNullElem"], N.tolist())) and Fraction(m["aucHard"]) == want
            if not ok:
                ctx.mismatch("model Ds.Util ROC-AUC functions differ from implementation", case, impl=dict(E=E.tolist(), N=N.tolist()), model=m, failing_input=False,
                             broken="corr:Ds.Util.aucElem/aucNullElem/aucHard")
        if ctx.elapsed() > budget2:
            break
    return ctx.finish("proof", "C14_acc, C14_acc_null, C14_auc, C14_auc_null: for every class set, label vector and prediction vector the modelled element-wise scores "
                      "average/sum to the metric and the element-wise null scores to the null score. roc_auc_score(hard predictions) = (TPR+TNR)/2 is a trusted contract, "
                      "validated here against scikit-learn. This run tied the model to the real utility classes.", RULE)
