"""C14 — element-wise utilities decompose the metric they stand for."""
import itertools
import warnings
from fractions import Fraction
import numpy as np
from props.common import load_impl, exc_name

RULE = ("accuracy: ALL (validation label vector, prediction vector) pairs up to length 4 quick / 5 thorough over 1-3 classes (exhaustive) plus random longer "
        "vectors over up to 5 classes with integer, negative and unsorted class sets and validation labels no training class has; PLUS label REPRESENTATIONS in which the training and the "
        "validation label arrays have DIFFERENT dtypes (finding F19: the null scores built the constant prediction in the validation labels' dtype): strings of different widths where a training "
        "class properly EXTENDS a validation label ('cat' / 'catfish': every validation / prediction vector up to length 3 over the classes a < ab < b, prefix-chain vocabularies, random words "
        "over a two-letter alphabet, <U / wider <U / object arrays on either side), int64 / int32 training labels against int8 / uint8 / int16 / uint16 / int32 / uint32 validation labels with "
        "training classes that WRAP onto a validation label in the validation dtype (v + k * 2^bits, -1 against uint8 255), integral float64 / float32 training labels (also wrapping ones) against "
        "int8 / int16 / int32 / int64 validation labels and int64 training labels against integral float validation labels; training label vectors with repetitions, unsorted. Expected values by "
        "definition on the label VALUES (accuracy of predicting class c everywhere = fraction of validation labels equal to c, no truncation; null score = the minimum over the training classes; "
        "element-wise null row = indicator row of the first minimising class in sorted order; element-wise table = indicator [class == label]); for the Lean model the labels are coded as integers "
        "preserving their sorted order. NOT covered: fractional float classes against integer labels and bytes labels (scikit-learn rejects the targets), labels of different kinds (str against int: numpy "
        "cannot compare them), pandas label containers (C18). "
        "ROC-AUC: all binary validation vectors with both classes present up to length 6/8 (training classes = both "
        "classes with all/sampled prediction vectors, and = each single class with its constant prediction) plus random longer ones whose training label vector "
        "(with repetitions, unsorted) holds both classes or only ONE of the two validation classes; each compared three ways: datascope's elementwise_score / elementwise_null_score / null_score, scikit-learn's accuracy_score "
        "(of the predictions in the training dtype and of every constant training-class prediction) / "
        "roc_auc_score on the same predictions, and the Lean model Ds.Util. Non-trivial = >= 2 classes occur in the validation vector and predictions are "
        "neither all right nor all wrong; distinct = distinct (representation, dtypes, training labels / classes, labels, predictions).")


def frs(x):
    return str(Fraction(float(x)).limit_denominator(10 ** 6))


def run(ctx):
    I = load_impl(ctx)
    U = I["utility"]
    from sklearn.metrics import accuracy_score, roc_auc_score
    from sklearn.neighbors import KNeighborsClassifier
    rng = ctx.rng
    q = ctx.tier == "quick"
    acc = U.SklearnModelAccuracy(KNeighborsClassifier(1))
    auc = U.SklearnModelRocAuc(KNeighborsClassifier(1))
    # the element-wise tables are functions of the label arrays of the call, whatever the utility's model object went through before: a never-fitted prototype,
    # estimators the caller fitted earlier on OTHER label sets (fewer / more / other classes, string labels), and the same with model_pretrained=True
    fitted_a = KNeighborsClassifier(1).fit(np.arange(3, dtype=float).reshape(-1, 1), np.array([0, 1, 2]))
    fitted_b = KNeighborsClassifier(1).fit(np.arange(2, dtype=float).reshape(-1, 1), np.array([0, 1]))
    fitted_c = KNeighborsClassifier(1).fit(np.arange(4, dtype=float).reshape(-1, 1), np.array(["u", "v", "w", "x"]))
    acc_variants = [("never fitted", acc), ("fitted on classes 0,1,2", U.SklearnModelAccuracy(fitted_a)), ("fitted on classes 0,1", U.SklearnModelAccuracy(fitted_b)),
                    ("fitted on string classes", U.SklearnModelAccuracy(fitted_c)), ("pretrained on classes 0,1,2", U.SklearnModelAccuracy(fitted_a)), ("pretrained on classes 0,1", U.SklearnModelAccuracy(fitted_b))]
    for nm_, u_ in acc_variants:
        if nm_.startswith("pretrained"):
            u_.model_pretrained = True          # the attribute SklearnModelUtility(model_pretrained=True) sets
    acc_k = 0
    X1 = np.zeros((1, 1))

    def cases_acc():
        L = 4 if q else 5
        for n in range(1, L + 1):
            for c in (1, 2, 3):
                for yv in itertools.product(range(c), repeat=n):
                    for pred in itertools.product(range(c), repeat=n):
                        yield list(range(c)), list(yv), list(pred)
        for _ in range(150 if q else 1500):
            c = rng.randint(1, 5)
            classes = sorted(rng.sample(range(-9, 30), c))
            n = rng.randint(1, 12)
            yv = [rng.choice(classes) for _ in range(n)]
            if rng.random() < 0.4:
                # validation labels that no training class has (below, between, above the classes): never predicted correctly
                for k in rng.sample(range(n), rng.randint(1, max(1, n // 2))):
                    yv[k] = rng.choice([classes[0] - 2, classes[-1] + 3] + [c + 1 for c in classes if c + 1 not in classes])
            pred = [rng.choice(classes) for _ in range(n)]
            yield classes, yv, pred

    # ---- label REPRESENTATIONS: the same labels rendered so that the training and the validation label arrays have DIFFERENT dtypes -------------
    # A representation is (y_train array, y_val array, predictions as Python values).  Expectations are by definition on the label VALUES
    # (Python ==: 'cat' != 'catfish', 1 != 257, 1.0 == 1); for the Lean model the labels are coded as integers preserving their sorted order.
    CHAINS = [["a", "ab", "abc", "abcd"], ["cat", "catfish", "cats"], ["dog", "dogma", "dogmatic"], ["no", "nor", "north", "northern"],
              ["b", "ba", "bat", "bath"], ["x", "xy", "xyz"], ["1", "10", "100", "11"], ["yes", "yesterday"]]
    VOCAB = sorted({w for ch in CHAINS for w in ch})
    INTW = [("int8", 8, True), ("uint8", 8, False), ("int16", 16, True), ("uint16", 16, False), ("int32", 32, True), ("uint32", 32, False)]

    def train_vector(tcl):
        ytr = list(tcl)
        if rng.random() < 0.5:
            ytr += [rng.choice(tcl) for _ in range(rng.randint(0, 4))]
        rng.shuffle(ytr)
        return ytr

    def rep_strings():
        if rng.random() < 0.5:
            # a vocabulary of prefix chains: validation labels are short words, training classes are validation labels and proper EXTENSIONS of them
            V = rng.sample(VOCAB, rng.randint(1, 3))
            ext = [w for w in VOCAB if any(w != v and w.startswith(v) for v in V) and w not in V]
            tcl = [v for v in V if rng.random() < 0.8]
            tcl += rng.sample(ext, min(len(ext), rng.choice([0, 1, 1, 2])))
            if rng.random() < 0.25:
                tcl += [w for w in rng.sample(VOCAB, 1) if w not in tcl]
            if not tcl:
                tcl = [rng.choice(V)]
        else:
            # random words over a tiny alphabet: prefixes of each other all the time
            words = sorted({"".join(rng.choice("ab") for _ in range(rng.randint(1, 4))) for _ in range(6)})
            V = rng.sample(words, rng.randint(1, min(3, len(words))))
            tcl = rng.sample(words, rng.randint(1, min(4, len(words))))
        n = rng.randint(1, 10)
        yv = [rng.choice(V) for _ in range(n)]
        ytr = train_vector(tcl)
        r = rng.random()
        tr = np.array(ytr, dtype=object) if r < 0.15 else np.array(ytr)                        # natural width = the longest training class
        r = rng.random()
        va = np.array(yv, dtype=object) if r < 0.15 else (np.array(yv).astype("<U12") if r < 0.3 else np.array(yv))   # natural width = the longest validation label
        return "str", tr, va

    def rep_intwidth():
        name, bits, signed = rng.choice(INTW)
        lo, hi = (-(1 << (bits - 1)), (1 << (bits - 1)) - 1) if signed else (0, (1 << bits) - 1)
        pool = [v for v in list(range(-4, 6)) + [lo, lo + 1, hi - 1, hi] if lo <= v <= hi]
        V = rng.sample(pool, rng.randint(1, 3))
        wide = rng.choice(["int64", "int64", "int32"] if bits < 32 else ["int64"])
        wlo, whi = (-(1 << 63), (1 << 63) - 1) if wide == "int64" else (-(1 << 31), (1 << 31) - 1)
        # training classes: validation labels and values that WRAP onto a validation label in the validation dtype (v + k * 2^bits)
        wraps = [v + k * (1 << bits) for v in V for k in (-2, -1, 1, 2, 3) if wlo <= v + k * (1 << bits) <= whi]
        tcl = [v for v in V if rng.random() < 0.8]
        tcl += rng.sample(wraps, min(len(wraps), rng.choice([0, 1, 1, 2])))
        if rng.random() < 0.25:
            tcl += [w for w in [rng.randint(-300, 300)] if w not in tcl]
        if not tcl:
            tcl = [rng.choice(V)]
        n = rng.randint(1, 10)
        yv = [rng.choice(V) for _ in range(n)]
        return "int", np.array(train_vector(tcl), dtype=wide), np.array(yv, dtype=name)

    def rep_floatint():
        # integral floating-point labels on one side, integer labels on the other (fractional classes make scikit-learn reject the targets: outside)
        V = rng.sample(range(-3, 6), rng.randint(1, 3))
        tcl = [v for v in V if rng.random() < 0.8] + [w for w in rng.sample(range(-3, 8), rng.choice([0, 0, 1])) if w not in V]
        idt = rng.choice(["int64", "int32", "int8", "int16"])
        if rng.random() < 0.4 and idt in ("int8", "int16"):
            tcl += [rng.choice(V) + rng.choice([1, -1, 2]) * (1 << int(idt[3:]))]      # float class that would wrap onto a validation label
        tcl = sorted(set(tcl)) or [V[0]]
        n = rng.randint(1, 10)
        yv = [rng.choice(V) for _ in range(n)]
        fdt = rng.choice(["float64", "float64", "float32"])
        if rng.random() < 0.75:
            return "float/int", np.array(train_vector(tcl), dtype=fdt), np.array(yv, dtype=idt)
        tcl = [c for c in tcl if -100 <= c <= 100] or [V[0]]
        return "int/float", np.array(train_vector(tcl), dtype="int64"), np.array(yv, dtype=fdt)

    def cases_rep():
        # (a) EVERY validation / prediction vector up to length 3 over the string classes a < ab < b (a class that properly extends a validation label)
        names = ["a", "ab", "b"]
        for n in range(1, 4):
            for c in (2, 3):
                for yv in itertools.product(range(c), repeat=n):
                    for pred in itertools.product(range(c), repeat=n):
                        yield "str", np.array(names[:c]), np.array([names[v] for v in yv]), [names[v] for v in pred]
        # (b) corpus
        yield "str", np.array(["cat", "dog", "catfish"]), np.array(["cat", "dog", "dog"]), ["cat", "catfish", "dog"]
        yield "int", np.array([1, 257, 2], dtype="int64"), np.array([1, 1, 2], dtype="int8"), [1, 257, 2]
        yield "int", np.array([-1, 3], dtype="int64"), np.array([255, 255, 3], dtype="uint8"), [-1, 3, 3]
        yield "int", np.array([1, (1 << 32) + 1], dtype="int64"), np.array([1, 1, 1], dtype="int32"), [1, 1, (1 << 32) + 1]
        yield "float/int", np.array([1.0, 2.0]), np.array([1, 1, 2]), [1.0, 2.0, 2.0]
        yield "float/int", np.array([1.0, 257.0], dtype="float32"), np.array([1, 1, 1], dtype="int8"), [1.0, 257.0, 1.0]
        # signed against unsigned 64-bit labels beyond 2^53: the class fits the validation dtype exactly, which therefore must be kept (their common dtype,
        # float64, could not tell 2^53 from 2^53 + 1)
        yield "int", np.array([(1 << 53) + 1, 1], dtype="int64"), np.array([1 << 53, 1, 1], dtype="uint64"), [1, 1, 1]
        yield "int", np.array([(1 << 63) - 1, 1], dtype="int64"), np.array([1, 1, 2], dtype="uint64"), [1, 1, 1]
        # (c) random
        for _ in range(240 if q else 2400):
            rep, tr, va = rng.choice([rep_strings, rep_strings, rep_intwidth, rep_intwidth, rep_floatint])()
            tcl = sorted(set(tr.tolist()))
            yield rep, tr, va, [rng.choice(tcl) for _ in range(len(va))]

    def all_acc_cases():
        for classes, yv, pred in cases_acc():
            yield None, np.array(classes), np.array(yv), pred
        for x in cases_rep():
            yield x

    budget = 400 if q else 2400
    n_plain = 0
    for rep, y_train, yva, pred in all_acc_cases():
        ytr = y_train.tolist()
        classes = sorted(set(ytr))                    # Python values; row order of the element-wise table = np.unique(y_train)
        yv = yva.tolist()
        n = len(yv)
        if rep is None:
            case = dict(metric="accuracy", classes=classes, y_val=yv, pred=pred)
            mcl, myv, mpred = classes, yv, pred
            n_plain += 1
        else:
            case = dict(metric="accuracy", representation=rep, y_train=ytr, train_dtype=str(y_train.dtype), classes=classes, y_val=yv, val_dtype=str(yva.dtype), pred=pred)
            code = {v: i for i, v in enumerate(sorted(set(classes) | set(yv)))}          # order-preserving integer codes (1.0 and 1 are one label)
            mcl, myv, mpred = [code[c] for c in classes], [code[y] for y in yv], [code[p] for p in pred]
        acc_k += 1
        acc_name, acc_u = acc_variants[acc_k % len(acc_variants)]
        case["utility_model"] = acc_name
        ctx.dist["utility_model=" + acc_name] += 1
        try:
            E = acc_u.elementwise_score(X1, y_train, X1, yva)
            N = acc_u.elementwise_null_score(X1, y_train, X1, yva)
            null = acc_u.null_score(X1, y_train, X1, yva)
        except Exception as e:  # noqa
            ctx.mismatch("element-wise accuracy raised", case, impl=exc_name(e) + repr(e))
            continue
        if np.asarray(E).shape != (len(classes), n) or np.asarray(N).shape != (n,):
            ctx.mismatch("element-wise accuracy table is not (training classes) x (validation points) / null row not (validation points)", case,
                         impl=[list(np.asarray(E).shape), list(np.asarray(N).shape)], spec=[[len(classes), n], [n]])
            continue
        got = Fraction(sum(Fraction(float(E[classes.index(p), j])) for j, p in enumerate(pred)), n)
        want = Fraction(sum(1 for a, b in zip(yv, pred) if a == b), n)
        pred_arr = np.array(pred, dtype=y_train.dtype)             # a fitted model predicts entries of its classes_ (= np.unique(y_train)): the training dtype
        sk = Fraction(float(accuracy_score(yva, pred_arr))).limit_denominator(1000)
        accs = [Fraction(sum(1 for y in yv if y == c), n) for c in classes]
        want_null = min(accs)
        want_nullrow = [Fraction(int(y == classes[accs.index(want_null)])) for y in yv]        # the FIRST minimising class in sorted order
        got_nullmean = Fraction(sum(Fraction(float(x)) for x in N), n)
        nontriv = len(set(yv)) >= 2 and 0 < want < 1
        key = (tuple(classes), tuple(yv), tuple(pred)) if rep is None else (rep, str(y_train.dtype), str(yva.dtype), tuple(ytr), tuple(yv), tuple(pred))
        ctx.case(key, nontrivial=nontriv, sample=case, metric="accuracy", n=n, representation=rep or "same dtype")
        ctx.maxi(length=n, classes=len(classes))
        if got != want or sk != want:
            ctx.mismatch("mean element-wise accuracy score != accuracy of the predictions", case, impl=str(got), spec=dict(by_definition=str(want), sklearn=str(sk)))
            continue
        if got_nullmean != want_null or abs(Fraction(float(null)) - want_null) > Fraction(1, 10 ** 9):
            ctx.mismatch("mean element-wise null score / null score != lowest accuracy of a constant training class", case,
                         impl=dict(elementwise_mean=str(got_nullmean), null_score=float(null)), spec=str(want_null))
            continue
        if rep is not None or n_plain % 7 == 0 or n > 4:
            # the tables themselves, by definition on the label VALUES, and scikit-learn's accuracy of every constant prediction (for the exhaustive
            # same-dtype part every constant prediction vector is enumerated above as `pred` anyway)
            if [[Fraction(float(x)) for x in row] for row in np.asarray(E).tolist()] != [[Fraction(int(y == c)) for y in yv] for c in classes] \
                    or [Fraction(float(x)) for x in np.asarray(N).tolist()] != want_nullrow:
                ctx.mismatch("element-wise accuracy table != indicator [class == label] / element-wise null row != indicator row of the first lowest-accuracy class", case,
                             impl=dict(E=np.asarray(E).tolist(), N=np.asarray(N).tolist()), spec=dict(null_row=want_nullrow))
                continue
            sk_const = [Fraction(float(accuracy_score(yva, np.full(n, c, dtype=y_train.dtype)))).limit_denominator(1000) for c in classes]
            if sk_const != accs:
                ctx.mismatch("scikit-learn's accuracy of the constant predictions != fraction of validation labels equal to the class (trusted contract)", case,
                             impl=[str(x) for x in sk_const], spec=[str(x) for x in accs], failing_input=False, broken="contract:accuracy_score")
                continue
        if ctx.driver is not None and (n >= 4 or rng.random() < (0.1 if rep is None else 0.5)):
            m = ctx.model({"op": "util", "classes": mcl, "yTest": myv, "pred": mpred})["ok"]
            mE = [[Fraction(x) for x in row] for row in m["accElem"]]
            if mE != [[Fraction(float(x)) for x in row] for row in E.tolist()] or [Fraction(x) for x in m["accNullElem"]] != [Fraction(float(x)) for x in N.tolist()] \
                    or Fraction(m["accNull"]) != want_null or Fraction(m["accuracy"]) != want:
                ctx.mismatch("model Ds.Util accuracy functions differ from implementation", case, impl=dict(E=E.tolist(), N=N.tolist()), model=m, failing_input=False,
                             broken="corr:Ds.Util.accElem/accNullElem/accNull")
        if ctx.elapsed() > budget:
            break

    def cases_auc():
        # yields (training label vector, validation labels, predictions); predictions take training classes only (a model cannot predict anything else);
        # the training classes are a non-empty SUBSET of the two validation classes: both, or only one of them (a coalition / training set in which
        # one class does not occur is what the neighbor method hands over all the time). Training classes that do NOT occur among the validation
        # labels are outside the property (the per-class TPR/TNR shares divide by that class's validation count: the metric needs every class there).
        L = 6 if q else 8
        for n in range(2, L + 1):
            for yv in itertools.product(range(2), repeat=n):
                if len(set(yv)) < 2:
                    continue
                for pred in itertools.product(range(2), repeat=n):
                    if rng.random() < (0.25 if n >= 6 else 1.0):
                        yield [0, 1], list(yv), list(pred)
                for c in (0, 1):
                    yield [c], list(yv), [c] * n
        for _ in range(140 if q else 1400):
            a, b = sorted(rng.sample(range(-5, 20), 2))
            n = rng.randint(2, 14)
            yv = [rng.choice([a, b]) for _ in range(n)]
            if len(set(yv)) < 2:
                yv[0], yv[1] = a, b
            r = rng.random()
            tcl = [a, b] if r < 0.6 else ([a] if r < 0.8 else [b])
            if rng.random() < 0.5:
                y_train = list(tcl)
            else:
                # a training label vector with repetitions, in any order, every training class present
                y_train = tcl + [rng.choice(tcl) for _ in range(rng.randint(0, 5))]
                rng.shuffle(y_train)
            pred = [rng.choice(tcl) for _ in range(n)]
            yield y_train, yv, pred

    budget2 = budget + (400 if q else 2400)
    for ytr, yv, pred in cases_auc():
        y_train = np.array(ytr)
        classes = sorted(set(ytr))                    # row order of the element-wise table = np.unique(y_train)
        vclasses = sorted(set(yv))
        yva = np.array(yv)
        case = dict(metric="rocauc", y_train=ytr, classes=classes, y_val=yv, pred=pred)
        try:
            with warnings.catch_warnings():
                warnings.simplefilter("error")
                E = auc.elementwise_score(X1, y_train, X1, yva)
                N = auc.elementwise_null_score(X1, y_train, X1, yva)
                null = auc.null_score(X1, y_train, X1, yva)
        except Exception as e:  # noqa
            ctx.mismatch("element-wise ROC-AUC raised", case, impl=exc_name(e) + repr(e))
            continue
        if np.asarray(E).shape != (len(classes), len(yv)):
            ctx.mismatch("element-wise ROC-AUC table is not (training classes) x (validation points)", case, impl=list(np.asarray(E).shape), spec=[len(classes), len(yv)])
            continue
        n = len(yv)
        got = sum(Fraction(float(E[classes.index(p), j])).limit_denominator(10 ** 9) for j, p in enumerate(pred))
        pos = vclasses[1]
        P = sum(1 for y in yv if y == pos)
        Nn = n - P
        tp = sum(1 for y, p in zip(yv, pred) if y == pos and p == pos)
        tn = sum(1 for y, p in zip(yv, pred) if y != pos and p != pos)
        want = (Fraction(tp, P) + Fraction(tn, Nn)) / 2
        sk = Fraction(float(roc_auc_score(yva, (np.array(pred) == pos).astype(float)))).limit_denominator(10 ** 6)
        got_null = sum(Fraction(float(x)).limit_denominator(10 ** 9) for x in N)
        nontriv = 0 < tp + tn < n
        ctx.case((tuple(ytr), tuple(yv), tuple(pred)), nontrivial=nontriv, sample=case, metric="rocauc", n=n, train_classes=len(classes))
        if abs(got - want) > Fraction(1, 10 ** 8) or abs(sk - want) > Fraction(1, 10 ** 5):
            ctx.mismatch("element-wise ROC-AUC scores do not sum to the ROC-AUC of the hard predictions", case, impl=str(got), spec=dict(formula=str(want), sklearn=str(sk)))
            continue
        if abs(got_null - Fraction(float(null))) > Fraction(1, 10 ** 8) or abs(got_null - Fraction(1, 2)) > Fraction(1, 10 ** 8):
            ctx.mismatch("element-wise ROC-AUC null scores do not sum to the null score", case, impl=dict(sum=str(got_null), null_score=float(null)), spec="1/2")
            continue
        if ctx.driver is not None and (n >= 5 or rng.random() < 0.1):
            m = ctx.model({"op": "util", "classes": classes, "yTest": yv, "pred": pred})["ok"]
            if classes != vclasses:
                # the driver takes the positive class of aucHard from its "classes" argument: ask for it with the validation classes
                m["aucHard"] = ctx.model({"op": "util", "classes": vclasses, "yTest": yv, "pred": pred})["ok"]["aucHard"]
            ok = m["aucElem"] is not None and m["aucNullElem"] is not None and m["aucHard"] is not None
            if ok:
                mE = [[Fraction(x) for x in row] for row in m["aucElem"]]
                ok = all(abs(a - Fraction(float(b))) < Fraction(1, 10 ** 9) for ra, rb in zip(mE, E.tolist()) for a, b in zip(ra, rb)) \
                    and all(abs(Fraction(a) - Fraction(float(b))) < Fraction(1, 10 ** 9) for a, b in zip(m["aucNullElem"], N.tolist())) and Fraction(m["aucHard"]) == want
            if not ok:
                ctx.mismatch("model Ds.Util ROC-AUC functions differ from implementation", case, impl=dict(E=E.tolist(), N=N.tolist()), model=m, failing_input=False,
                             broken="corr:Ds.Util.aucElem/aucNullElem/aucHard")
        if ctx.elapsed() > budget2:
            break
    return ctx.finish("proof", "C14_acc, C14_acc_null, C14_auc, C14_auc_null: for every class set, label vector and prediction vector the modelled element-wise scores "
                      "average/sum to the metric and the element-wise null scores to the null score. roc_auc_score(hard predictions) = (TPR+TNR)/2 is a trusted contract, "
                      "validated here against scikit-learn. This run tied the model to the real utility classes.", RULE)
