"""Monte-Carlo instrumentation: recorded permutations, injected clock"""
import contextlib
import numpy as np


class RecordingRandomState:
    """wraps the instance's own RandomState and records every permutation drawn"""
    def __init__(self, inner, forced=None):
        self.inner = inner
        self.perms = []
        self.forced = list(forced) if forced is not None else None
        self.other_calls = []

    def permutation(self, n):
        if self.forced is not None:
            p = np.array(self.forced.pop(0))
        else:
            p = self.inner.permutation(n)
        self.perms.append([int(x) for x in p])
        return p

    def __getattr__(self, name):
        self.other_calls.append(name)
        return getattr(self.inner, name)


class FakeTime:
    """replays a list of readings through time.time(); the last one repeats"""
    def __init__(self, readings):
        self.readings = list(readings)
        self.i = 0

    def time(self):
        r = self.readings[min(self.i, len(self.readings) - 1)]
        self.i += 1
        return r

    def __getattr__(self, name):
        import time as _t
        return getattr(_t, name)


@contextlib.contextmanager
def injected_clock(shapley_mod, readings):
    orig = shapley_mod.time
    ft = FakeTime(readings)
    shapley_mod.time = ft
    try:
        yield ft
    finally:
        shapley_mod.time = orig
