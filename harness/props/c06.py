"""C06 — efficiency: scores sum to full-data utility minus null utility, to floating-point accuracy at any size."""
from fractions import Fraction
import numpy as np
import gen
import spec
from props.common import load_impl, exc_name, make_prov
from props import tables

RULE = ("(a) neighbor at scale: score() on 200-2000 rows quick / 2000-65536 thorough x 20-300 validation points, 2-5 classes, default and map/fork "
        "groupings (<= 400 units when grouped), accuracy utility, real-valued features through a recorded distance matrix; the exact right-hand side "
        "(mean utility of each validation point's nearest row's label minus mean element-wise null) is computed with integers/Fractions from an "
        "independent argmin; requirement |sum(scores) - exact| <= 1e-9*(1+scale); (b) bruteforce and (c) untruncated montecarlo with arbitrary table "
        "utilities on random DNF provenances (n <= 7): sum = v(all units) - v(no unit); (d) neighbor (K=1) on EXPLICIT map/fork provenances with 3-4 candidates "
        "(Provenance(units=n, candidates=C, data=[[unit, candidate], ...]), 6-1500 rows, 2-300 units, units owning rows under several candidate values or none), in the "
        "default world (every unit takes candidate 1) and in explicit worlds passed to score() as a key list or an index array: the full training set of a world is the "
        "rows whose candidate is the world's candidate of their unit; right-hand side = mean utility of the nearest such row's label minus the null utility, from an "
        "independent argmin over exactly those rows; (e) neighbor (K=1) on EXPLICIT single-literal groupings in which some units own NO training row "
        "(Provenance(units=n, data=[unit of row 0, unit of row 1, ...]) with n larger than the number of units that occur, or a provenance over n units filtered with "
        "provenance[boolean mask] so that all rows of some units are dropped while the unit set stays): the empty units stand in TRAILING (the last k units), leading, "
        "middle or mixed positions, 3-300 units quick / up to 400 units thorough, 4-1500 rows quick / up to 20000 rows thorough, rows stored sorted by unit or shuffled; "
        "one score per unit (empty ones included) and the sum must equal the mean utility of the nearest row's label (independent argmin over ALL rows) minus the null "
        "utility, compared with the by-definition Fraction right-hand side (no model request). Non-trivial = >= 2 classes present and the right-hand side non-zero; "
        "distinct = distinct generated datasets.")


def neighbor_scale(ctx, I, sizes, budget):
    rng = ctx.rng
    from sklearn.neighbors import KNeighborsClassifier
    errs = []
    for n_rows, m in sizes:
        c = rng.randint(2, 5)
        mode = rng.choice(["default", "groups"]) if n_rows <= 16384 else "default"          # beyond 2^14 rows: one unit per row, so that there are > 2^14 UNITS
        nprng = np.random.RandomState(rng.randrange(2 ** 31))
        X = nprng.rand(n_rows, 3)
        Xv = nprng.rand(m, 3)
        y = nprng.randint(0, c, n_rows)
        y[:c] = np.arange(c)
        yv = nprng.randint(0, c, m)
        absent = rng.random() < 0.5
        if absent:
            yv = yv % (c - 1)            # one training class never occurs among the validation labels: the null utility is then exactly 0
        D = np.sqrt(((X[:, None, :] - Xv[None, :, :]) ** 2).sum(axis=2))
        if mode == "groups":
            n_units = min(400, max(2, n_rows // rng.randint(2, 20)))
            groups = nprng.randint(0, n_units, n_rows)
            groups[:n_units] = np.arange(n_units)
            prov = groups.copy()
        else:
            prov = None
        util = I["utility"].SklearnModelAccuracy(KNeighborsClassifier(n_neighbors=1))
        sh = I["shapley"]
        old_B = sh.BATCH_DISTANCE_MATRIX_SIZE
        small_B = rng.random() < 0.34
        if small_B:
            sh.BATCH_DISTANCE_MATRIX_SIZE = n_rows * max(m // 4, 1)     # would give ~4 validation batches if batching were live
        Xv_idx = np.hstack([np.arange(m, dtype=float).reshape(-1, 1), Xv])      # validation rows carry their index for the distance callable
        try:
            imp = I["imp"].ShapleyImportance(method="neighbor", utility=util,
                                             nn_distance=lambda A, B, D=D: D[:, np.asarray(B)[:, 0].astype(int)].copy())
            scores = np.asarray(imp.fit(X, y, provenance=prov).score(Xv_idx, yv), dtype=float)
        except Exception as e:  # noqa
            ctx.mismatch("score() raised at scale", dict(n_rows=n_rows, m=m, mode=mode), impl=exc_name(e) + repr(e))
            continue
        finally:
            sh.BATCH_DISTANCE_MATRIX_SIZE = old_B
        nearest = np.argmin(D, axis=0)
        hits = int(np.sum(y[nearest] == yv))
        classes = sorted(set(y.tolist()))
        accs = [Fraction(int(np.sum(yv == cl)), m) for cl in classes]
        null = min(accs)
        exact = Fraction(hits, m) - null
        total = Fraction(float(np.sum(scores)))
        err = abs(total - exact)
        errs.append((n_rows, float(err)))
        ctx.case(("scale", n_rows, m, mode, hits), nontrivial=(exact != 0), sample=dict(n_rows=n_rows, m=m, classes=c, mode=mode, exact=str(exact), got=float(total)),
                 part="neighbor-scale", mode=mode, class_absent_from_validation=absent, small_batch_constant=small_B)
        ctx.maxi(rows=n_rows, val_points=m, classes=c)
        if not np.all(np.isfinite(scores)) or err > Fraction(1, 10 ** 9) * 2:
            ctx.mismatch("neighbor scores do not sum to full-data utility minus null utility", dict(n_rows=n_rows, m=m, classes=c, mode=mode, rng="np.RandomState from VERIF_SEED"),
                         impl=float(total), spec=str(exact))
        if ctx.elapsed() > budget:
            break
    ctx.extra["efficiency_error_by_rows"] = errs


def multicand_efficiency(ctx, I, sizes):
    """(d) several candidate values per unit: only the rows whose literal (unit == candidate) holds in the world are part of the training set"""
    rng = ctx.rng
    from sklearn.neighbors import KNeighborsClassifier
    from props import datasets as dsm
    for n_units, m in sizes:
        c = rng.randint(2, 4)
        mc = dsm.rand_multicand(rng, n_units=n_units)
        n_rows = mc["n_rows"]
        y = np.array(dsm.multicand_labels(rng, mc, list(range(c))))
        nprng = np.random.RandomState(rng.randrange(2 ** 31))
        X = nprng.rand(n_rows, 3)
        Xv = nprng.rand(m, 3)
        classes = sorted(set(y.tolist()))
        yv = np.array([rng.choice(classes) for _ in range(m)])
        if len(classes) > 1 and rng.random() < 0.4:
            yv = np.array([cl if cl != classes[-1] else classes[0] for cl in yv.tolist()])      # a training class absent from validation: null utility 0
        D = np.sqrt(((X[:, None, :] - Xv[None, :, :]) ** 2).sum(axis=2))
        prov, _ = dsm.multicand_prov(I, mc)
        kw = dsm.world_arg(rng, mc)
        util = I["utility"].SklearnModelAccuracy(KNeighborsClassifier(n_neighbors=1))
        small = n_rows <= 40
        case = dict(part="multi-candidate", nUnits=n_units, nCands=mc["n_cands"], world=mc["world"], world_as=(type(kw["world"]).__name__ if kw else "default"),
                    n_rows=n_rows, m=m, lits=(mc["lits"] if small else mc["lits"][:20]), rng="np.RandomState from VERIF_SEED")
        if small:
            case.update(y_train=y.tolist(), y_val=yv.tolist(), dist=D.tolist())
        Xv_idx = np.hstack([np.arange(m, dtype=float).reshape(-1, 1), Xv])
        try:
            imp = I["imp"].ShapleyImportance(method="neighbor", utility=util, nn_k=1,
                                             nn_distance=lambda A, B, D=D: D[:, np.asarray(B)[:, 0].astype(int)].copy())
            scores = np.asarray(imp.fit(X, y, provenance=prov).score(Xv_idx, yv, **kw), dtype=float)
        except Exception as e:  # noqa
            ctx.mismatch("score() raised on a multi-candidate map/fork provenance", case, impl=exc_name(e) + repr(e))
            continue
        # right-hand side, independently: the rows of the world's full training set, their nearest one per validation point
        rows = [r for r, (u, cand) in enumerate(mc["lits"]) if cand == mc["wvals"][u]]
        null = min(Fraction(int(np.sum(yv == cl)), m) for cl in classes)
        hits = 0
        for j in range(m):
            best = min(rows, key=lambda r: (D[r, j], r))
            hits += int(y[best] == yv[j])
        exact = Fraction(hits, m) - null
        total = Fraction(float(np.sum(scores)))
        ctx.case(("multicand", n_units, m, n_rows, hits, str(mc["world"])[:60]), nontrivial=(exact != 0 and len(classes) >= 2), sample=dict(case, exact=str(exact), got=float(total)),
                 part="neighbor-multi-candidate", world=("default" if not kw else "explicit-" + type(kw["world"]).__name__), candidates=mc["n_cands"])
        ctx.maxi(rows=n_rows, units=n_units)
        if len(scores) != n_units or not np.all(np.isfinite(scores)) or abs(total - exact) > Fraction(1, 10 ** 9) * 2:
            ctx.mismatch("neighbor scores on a multi-candidate map/fork provenance do not sum to the utility of the world's full training set minus the null utility",
                         case, impl=float(total), spec=str(exact))


def empty_units_efficiency(ctx, I, sizes):
    """(e) explicit single-literal groupings with units that own no training row (trailing / leading / middle / mixed positions): such a unit is in no
    coalition's training set, so the full training set is ALL rows and the scores (one per unit, the empty ones included) sum to its utility minus null"""
    rng = ctx.rng
    from sklearn.neighbors import KNeighborsClassifier
    from props import datasets as dsm
    for k_case, (n_units, n_rows, m) in enumerate(sizes):
        c = rng.randint(2, 4)
        where = ["trailing", "leading", "middle", "mixed", "trailing"][k_case % 5] if rng.random() < 0.7 else None
        groups, empties, where = dsm.rand_groups_empty(rng, n_rows, n_units, where)
        form = rng.choice(["explicit", "explicit", "filtered"])
        nprng = np.random.RandomState(rng.randrange(2 ** 31))
        y = nprng.randint(0, c, n_rows)
        first = nprng.permutation(n_rows)[:c]
        y[first[:min(c, n_rows)]] = np.arange(min(c, n_rows))
        classes = sorted(set(y.tolist()))
        yv = np.array([rng.choice(classes) for _ in range(m)])
        absent = len(classes) > 1 and rng.random() < 0.4
        if absent:
            gone = rng.choice(classes)
            yv = np.array([cl if cl != gone else rng.choice([x for x in classes if x != gone]) for cl in yv.tolist()])     # null utility 0
        small = n_rows <= 40
        if small and rng.random() < 0.5:
            X = np.array([[float(v)] for v in rng.sample(range(0, 8 * n_rows), n_rows)])          # integer coordinates (ties between rows possible)
            Xv = np.array([[float(rng.randrange(0, 8 * n_rows)) + rng.choice([0.0, 0.25, 0.5])] for _ in range(m)])
            D = np.abs(X - Xv.T)
        else:
            X = nprng.rand(n_rows, 3)
            Xv = nprng.rand(m, 3)
            D = np.sqrt(((X[:, None, :] - Xv[None, :, :]) ** 2).sum(axis=2))
        case = dict(part="empty-units", nUnits=n_units, groups=(groups if small else groups[:40]), empty_units=(empties if small else empties[:40]), where=where,
                    form=form, n_rows=n_rows, m=m, rng="np.RandomState from VERIF_SEED")
        if small:
            case.update(y_train=y.tolist(), y_val=yv.tolist(), dist=D.tolist())
        util = I["utility"].SklearnModelAccuracy(KNeighborsClassifier(n_neighbors=1))
        Xv_idx = np.hstack([np.arange(m, dtype=float).reshape(-1, 1), Xv])
        try:
            prov = dsm.empty_units_prov(I, rng, groups, n_units, form)
            imp = I["imp"].ShapleyImportance(method="neighbor", utility=util, nn_k=1,
                                             nn_distance=lambda A, B, D=D: D[:, np.asarray(B)[:, 0].astype(int)].copy())
            scores = np.asarray(imp.fit(X, y, provenance=prov).score(Xv_idx, yv), dtype=float)
        except Exception as e:  # noqa
            ctx.mismatch("score() raised on an explicit grouping with units that own no row", case, impl=exc_name(e) + repr(e))
            continue
        # right-hand side, independently: every row is in the full training set; a tie between the nearest rows matters only if their labels differ
        null = min(Fraction(int(np.sum(yv == cl)), m) for cl in classes)
        hits, ambiguous = 0, False
        for j in range(m):
            col = D[:, j]
            near = np.flatnonzero(col == col.min())
            labs = set(y[near].tolist())
            if len(labs) > 1:
                ambiguous = True            # (the property does not say which of two equally near rows with different labels is THE nearest one)
                break
            hits += int(labs.pop() == yv[j])
        if ambiguous:
            continue
        exact = Fraction(hits, m) - null
        total = Fraction(float(np.sum(scores)))
        ctx.case(("empty-units", n_units, n_rows, m, hits, where, form, str(groups[:30])), nontrivial=(exact != 0 and len(classes) >= 2),
                 sample=dict(case, exact=str(exact), got=float(total)), part="neighbor-empty-units", empty_units_at=where, empty_form=form,
                 last_unit_empty=((n_units - 1) in empties), class_absent_from_validation=absent)
        ctx.maxi(rows=n_rows, units=n_units)
        if len(scores) != n_units or not np.all(np.isfinite(scores)) or abs(total - exact) > Fraction(1, 10 ** 9) * 2:
            ctx.mismatch("neighbor scores on an explicit grouping with units that own no row do not sum to full-data utility minus null utility",
                         dict(case, n_scores=int(len(scores))), impl=float(total), spec=str(exact))


def default_distance_offset(ctx, I, n_cases):
    """the DEFAULT nn_distance on un-centred integer-valued features (timestamps ~1.7e9 with gaps of a few units): exact nearest rows by
    integer arithmetic; the scores must still sum to full-data utility minus null utility"""
    rng = ctx.rng
    from sklearn.neighbors import KNeighborsClassifier
    for it in range(n_cases):
        n_rows, m, c = rng.randint(20, 120), rng.randint(5, 30), rng.randint(2, 4)
        base = 1_700_000_000
        ts = rng.sample(range(0, 40 * n_rows), n_rows)
        X = np.array([[base + t, rng.randrange(0, 50)] for t in ts], dtype=float)
        y = np.array([i % c for i in range(n_rows)])
        Xv = np.array([[base + rng.randrange(0, 40 * n_rows), rng.randrange(0, 50)] for _ in range(m)], dtype=float)
        yv = np.array([rng.randrange(c) for _ in range(m)])

        def d2(a, b):
            return (int(a[0]) - int(b[0])) ** 2 + (int(a[1]) - int(b[1])) ** 2
        nearest, ok = [], True
        for j in range(m):
            ds = sorted((d2(X[i], Xv[j]), i) for i in range(n_rows))
            if ds[0][0] == ds[1][0]:
                ok = False
            nearest.append(ds[0][1])
        if not ok:
            continue
        util = I["utility"].SklearnModelAccuracy(KNeighborsClassifier(n_neighbors=1))
        case = dict(part="default-distance-offset", X=X.tolist()[:5], n_rows=n_rows, m=m, seed=ctx.seed)
        try:
            scores = np.asarray(I["imp"].ShapleyImportance(method="neighbor", utility=util).fit(X, y).score(Xv, yv), dtype=float)
        except Exception as e:  # noqa
            ctx.mismatch("score() raised with the default distance", case, impl=exc_name(e) + repr(e))
            continue
        hits = sum(1 for j in range(m) if y[nearest[j]] == yv[j])
        null = min(Fraction(int(np.sum(yv == cl)), m) for cl in sorted(set(y.tolist())))
        exact = Fraction(hits, m) - null
        got = Fraction(float(np.sum(scores)))
        ctx.case(("offset", it, n_rows, m), nontrivial=(exact != 0), sample=dict(case, exact=str(exact), got=float(got)), part="default-distance-offset")
        if abs(got - exact) > Fraction(1, 10 ** 9):
            ctx.mismatch("with the default distance on features far from the origin the scores do not sum to full-data utility minus null utility",
                         case, impl=float(got), spec=str(exact))


def small_games(ctx, I, n_cases, budget):
    rng = ctx.rng
    for it in range(n_cases):
        n_units = rng.randint(1, 6)
        exprs = [gen.rand_expr_flat(rng, n_units, 2, 2, 2, p_zero=0.25) for _ in range(rng.randint(1, 5))]
        if it % 5 == 3:
            exprs = [{"eq": [rng.randrange(n_units), (0 if rng.random() < 0.4 else 1)]} for _ in range(rng.randint(2, 6))]
            exprs[0] = {"eq": [exprs[0]["eq"][0], 0]}
        table = tables.rand_table(rng, exprs, n_units, p_fail=0.2)
        mean = Fraction(1000)
        if it % 5 == 1:
            # every coalition scores inside the truncation band of the mean score, over more units than the default number of truncation steps: the runs below
            # are configured as untruncated, so the identity must still hold (a silently truncated walk loses the later units' marginals)
            import spec as _spec
            n_units = rng.randint(7, 8)
            exprs = [{"eq": [u, 1]} for u in range(n_units)]
            mean = Fraction(10)
            table = {tables.rows_present(exprs, a): mean + Fraction(rng.randrange(-12, 13), 16) for a in _spec.assignments(n_units)}
        null = Fraction(rng.randrange(-16, 17), 4)
        prov, _, _ = make_prov(I, exprs, n_units)
        n_rows = len(exprs)
        X = np.arange(n_rows, dtype=float).reshape(-1, 1)
        y = np.zeros(n_rows, dtype=int)
        Xv = np.zeros((1, 1))
        yv = np.zeros(1, dtype=int)
        v_all = tables.value_of(table, tables.rows_present(exprs, [1] * n_units), null)
        v_none = tables.value_of(table, tables.rows_present(exprs, [0] * n_units), null)
        for method in (("bruteforce", "montecarlo", "montecarlo+budget") if n_units <= 6 else ("montecarlo", "montecarlo+budget")):
            util = tables.make_table_utility(I, table, null, mean=mean)
            kw = dict(mc_iterations=rng.randint(1, 12), mc_timeout=0, mc_truncation_steps=0, seed=rng.randrange(1000)) if method != "bruteforce" else {}
            clock = None
            if method == "montecarlo+budget":
                # untruncated, but the time budget ends the run early (injected clock; expiry possibly before the first permutation has finished):
                # every completed permutation telescopes, so the identity must hold wherever the run stops
                from props.mcutil import injected_clock
                kw["mc_timeout"] = 5
                expire_after = rng.randint(0, kw["mc_iterations"])
                clock = [100] + [100 + (6 if i >= expire_after else rng.choice([0, 1, 5])) for i in range(kw["mc_iterations"] + 2)]
            case = dict(method=method, nUnits=n_units, exprs=exprs, table=(tables.table_json(table) if n_units <= 6 else "2^%d values within 3/4 of the mean score" % n_units),
                        null=str(null), mean=str(mean), clock=clock, **kw)
            try:
                imp = I["imp"].ShapleyImportance(method=method.split("+")[0], utility=util, **kw)
                if clock is not None:
                    with injected_clock(I["shapley"], clock):
                        scores = list(np.asarray(imp.fit(X, y, provenance=prov).score(Xv, yv), dtype=float))
                else:
                    scores = list(np.asarray(imp.fit(X, y, provenance=prov).score(Xv, yv), dtype=float))
            except Exception as e:  # noqa
                ctx.mismatch("score() raised", case, impl=exc_name(e) + repr(e))
                continue
            want = v_all - v_none
            got = Fraction(float(sum(scores)))
            ctx.case(case, nontrivial=(want != 0 and n_units >= 2), sample=case, part=method)
            ctx.maxi(units=n_units)
            if abs(got - want) > Fraction(1, 10 ** 9) * 100:
                ctx.mismatch("%s scores do not sum to v(all units) - v(no unit)" % method, case, impl=float(got), spec=str(want))
        if ctx.elapsed() > budget:
            break


def model_utility_efficiency(ctx, I, n_cases):
    """`bruteforce` and untruncated `montecarlo` with a REAL model utility (`SklearnModelUtility` around a 1-NN classifier) whose metric is a negated loss (values <= 0) or a
    shifted accuracy: the scores sum to the utility of the whole training set minus the null utility = the WORST constant prediction of a training class, both recomputed here
    with fractions (own 1-NN rule, own metric, minimum over all training classes)."""
    from sklearn.neighbors import KNeighborsClassifier
    U = I["utility"]
    rng = ctx.rng
    for it in range(n_cases):
        n = rng.randint(3, 6)
        c = rng.randint(2, 4)
        pool = sorted(rng.sample(range(0, 9), c))
        y = [pool[i % c] for i in range(n)]
        rng.shuffle(y)
        m = rng.randint(2, 6)
        yv = [rng.choice(pool) for _ in range(m)]
        xs = rng.sample(range(-40, 41), n + m)            # pairwise distinct 1-D features: no distance ties
        X = np.array(xs[:n], dtype=float).reshape(-1, 1)
        Xv = np.array(xs[n:], dtype=float).reshape(-1, 1)
        kind = ["neg_mae", "neg_zero_one", "accuracy_minus_half"][it % 3]

        def metric_f(yt, yp):          # exact
            yt, yp = [int(a) for a in yt], [int(a) for a in yp]
            if kind == "neg_mae":
                return -Fraction(sum(abs(a - b) for a, b in zip(yt, yp)), len(yt))
            if kind == "neg_zero_one":
                return -Fraction(sum(1 for a, b in zip(yt, yp) if a != b), len(yt))
            return Fraction(sum(1 for a, b in zip(yt, yp) if a == b), len(yt)) - Fraction(1, 2)

        def metric(y_true, y_pred, **kw):
            return float(metric_f(np.asarray(y_true).tolist(), np.asarray(y_pred).tolist()))
        pred = [y[min(range(n), key=lambda i: abs(xs[i] - xs[n + j]))] for j in range(m)]
        full = metric_f(yv, pred)
        null = min(metric_f(yv, [cl] * m) for cl in sorted(set(y)))
        for method in ("bruteforce", "montecarlo"):
            kw = dict(mc_iterations=rng.randint(1, 6), mc_timeout=0, mc_truncation_steps=0, seed=rng.randrange(1000)) if method == "montecarlo" else {}
            case = dict(kind="model utility", metric=kind, method=method, X=xs[:n], y=y, Xv=xs[n:], yv=yv, kw=kw, full=str(full), null=str(null))
            ctx.case(case, nontrivial=(len(set(y)) >= 2 and full != null), sample=(case if it < 3 else None), kind="model_utility", metric=kind, method=method)
            try:
                util = U.SklearnModelUtility(KNeighborsClassifier(1), metric)
                imp = I["imp"].ShapleyImportance(method=method, utility=util, **kw)
                res = [float(v) for v in imp.fit(X, np.array(y)).score(Xv, np.array(yv))]
            except Exception as e:  # noqa
                ctx.mismatch("score() raised", case, impl=exc_name(e) + repr(e))
                continue
            if abs(Fraction(sum(res)) - (full - null)) > Fraction(1, 10 ** 9):
                ctx.mismatch("%s scores under a model utility do not sum to full-data utility minus null utility (worst constant prediction of a training class)" % method, case,
                             impl=sum(res), spec=str(full - null))


def run(ctx):
    I = load_impl(ctx)
    q = ctx.tier == "quick"
    model_utility_efficiency(ctx, I, 9 if q else 60)
    if q:
        sizes = [(200, 20), (300, 25), (500, 30), (800, 40), (1000, 50), (2000, 50), (16385 + ctx.rng.randrange(1, 5000), 12)]      # the last one: beyond 2^14 rows
    else:
        sizes = [(2000, 100), (5000, 100), (10000, 200), (20000, 300), (40000, 100), (65536, 50)]
    neighbor_scale(ctx, I, sizes, 400 if q else 2400)
    default_distance_offset(ctx, I, 4 if q else 30)
    mc_sizes = [(2, 3), (3, 4), (4, 5), (5, 6), (6, 8), (8, 10), (12, 10), (25, 15), (60, 20), (150, 20)] + ([] if q else [(rng_n, 30) for rng_n in (3, 5, 7, 40, 100, 200, 300)] * 4)
    multicand_efficiency(ctx, I, mc_sizes)
    eu_sizes = [(3, 4, 3), (4, 6, 4), (7, 8, 7), (5, 8, 5), (6, 10, 6), (8, 14, 8), (3, 5, 4), (5, 6, 6), (9, 12, 5), (6, 9, 8),
                (12, 30, 10), (30, 120, 15), (60, 300, 20), (100, 500, 20), (300, 1500, 20)]
    if not q:
        eu_sizes = eu_sizes * 6 + [(u, r, 40) for u, r in ((40, 2000), (150, 2000), (400, 5000), (400, 20000), (250, 10000))] * 2
    empty_units_efficiency(ctx, I, eu_sizes)
    small_games(ctx, I, 40 if q else 400, 800 if q else 3600)
    return ctx.finish("proof", "C06_neighbor(_point), C06_brute, C04_telescope: in exact arithmetic the modelled scores of each method sum to v(all) - v(none) at every size. "
                      "Floating-point accuracy: C13_round_kernel bounds every neighbor score's rounding error by ((1+2^-53)^(n+m+3)-1)*A_u under the standard model of binary64 arithmetic, at every size; the sum itself is measured here against exact integer right-hand sides on a size ladder.", RULE)
