"""By-definition evaluators with exact arithmetic (independent of the Lean model): used to triangulate
a model/implementation disagreement and as the search oracle when the model cannot be built."""
from fractions import Fraction
from itertools import combinations, product
from math import factorial


def shapley(n, v):
    """v: function frozenset(units) -> Fraction.  Textbook marginal form."""
    out = []
    cache = {}

    def val(S):
        if S not in cache:
            cache[S] = Fraction(v(S))
        return cache[S]
    for i in range(n):
        others = [u for u in range(n) if u != i]
        tot = Fraction(0)
        for k in range(n):
            w = Fraction(factorial(k) * factorial(n - k - 1), factorial(n))
            for S in combinations(others, k):
                S = frozenset(S)
                tot += w * (val(S | {i}) - val(S))
        out.append(tot)
    return out


def dnf_true(dnf, a):
    """dnf: list of conjunctions, each a list of (unit, cand); a: assignment list."""
    return any(all(a[u] == c for (u, c) in conj) for conj in dnf)


def expr_to_dnf(e):
    """JSON expression tree -> dnf (list of list of (u,c)) by the textbook distribution laws
    (independent of the library's operator code)."""
    if "eq" in e:
        return [[tuple(e["eq"])]]
    if "conj" in e:
        return [[tuple(x) for x in e["conj"]]]
    if "disj" in e:
        return [[tuple(x) for x in c] for c in e["disj"]]
    if "and" in e:
        a, b = (expr_to_dnf(x) for x in e["and"])
        return [x + y for x in a for y in b]
    if "or" in e:
        a, b = (expr_to_dnf(x) for x in e["or"])
        return a + b
    raise ValueError(e)


def expr_true(e, a):
    """truth value of a JSON expression tree by structural recursion (no normal form)."""
    if "eq" in e:
        u, c = e["eq"]
        return a[u] == c
    if "conj" in e:
        return all(a[u] == c for u, c in e["conj"])
    if "disj" in e:
        return any(all(a[u] == c for u, c in cj) for cj in e["disj"])
    if "and" in e:
        return all(expr_true(x, a) for x in e["and"])
    if "or" in e:
        return any(expr_true(x, a) for x in e["or"])
    raise ValueError(e)


def assignments(n, C=2):
    return list(product(range(C), repeat=n))


def nn1_game(order, labels, util, null):
    """1-NN game over units for one validation point: order = units by increasing distance."""
    rank = {u: r for r, u in enumerate(order)}

    def v(S):
        if not S:
            return null
        u = min(S, key=lambda x: rank[x])
        return util[labels[u]]
    return v


def knn_value(rows_present, order, labels, util, null, K, c):
    near = [r for r in order if r in rows_present][:K]
    if len(near) < K:
        return null
    tally = [sum(1 for r in near if labels[r] == k) for k in range(c)]
    return util[tally.index(max(tally))]
