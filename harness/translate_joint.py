#!/venv/bin/python
"""translate_joint.py — regenerate lean/GenJ/Joint.lean from /repo's datascope/importance/utility.py: the methods of `JointUtility`
(`null_score`, `mean_score`, `elementwise_score`, `elementwise_null_score`, `__call__`).

These methods are comprehensions over `zip(self._weights, self._utilities)` around calls into the component utilities.  The component
calls are opaque: `u.m(a, b, k=v)` becomes `(call_m u [("0", a), ("1", b), ("k", v)])` with `call_m : υ → List (String × Arg) → R_m` a
parameter, so WHICH arguments are forwarded under which names is part of the generated text (and of the theorems); `x.score` becomes
`(score_of x)`; `np.isnan` a parameter `isnan`; `np.nan` and other non-name arguments are constants of the opaque type `Arg`.
Translated: the pairing of weights with components, the weighted sums (`sum(generator)` = left fold from Python's integer 0; `np.sum(np.stack([...]),
axis=0)` = element-wise sum of the list), the NaN test and the branches of `__call__`.
Anything else raises Untranslatable (the TieJ proofs then no longer build and the check searches for a failing input).
"""
import ast
import os
import sys

HERE = os.path.dirname(os.path.abspath(__file__))
sys.path.insert(0, HERE)
from translate import Untranslatable, REPO, VERIF  # noqa: E402

OUT = os.path.join(VERIF, "lean", "GenJ", "Joint.lean")

SCAL, VEC, MAT, RES, ARG = "α", "(List α)", "(List (List α))", "R", "Arg"
# result type of the component methods the joint utility calls, and of calling a component
METHOD_TYPES = {"null_score": SCAL, "mean_score": SCAL, "elementwise_score": MAT, "elementwise_null_score": VEC, "__call__": RES}


def lst(t):
    return "(List %s)" % t


class J:
    def __init__(self, node):
        self.node = node
        self.params = [a.arg for a in node.args.args if a.arg != "self"]
        self.env = {}                 # local name -> type
        self.calls = {}               # lean param name -> signature text
        self.consts = []              # Arg constants
        self.uses = set()
        self.opt_params = {"null_score"} if node.name == "__call__" else set()
        for p in self.params:
            self.env[p] = ("(Option α)" if p in self.opt_params else ARG)

    def attr_path(self, e):
        if isinstance(e, ast.Attribute) and isinstance(e.value, ast.Name):
            return "%s.%s" % (e.value.id, e.attr)
        return None

    def arg_value(self, e):
        """an argument handed to a component: an opaque value"""
        if isinstance(e, ast.Name) and e.id in self.env and self.env[e.id] == ARG:
            return e.id
        if self.attr_path(e) == "np.nan":
            if "const_nan" not in self.consts:
                self.consts.append("const_nan")
            return "const_nan"
        raise Untranslatable("argument %s" % ast.dump(e)[:80])

    def arglist(self, call):
        items = ['("%d", %s)' % (k, self.arg_value(a)) for k, a in enumerate(call.args)]
        for kw in call.keywords:
            if kw.arg is None:
                raise Untranslatable("**kwargs")
            items.append('("%s", %s)' % (kw.arg, self.arg_value(kw.value)))
        return "[" + ", ".join(items) + "]"

    def comp_source(self, gens):
        """(binder text, list expression, bound names with types) for a comprehension's single generator"""
        if len(gens) != 1 or gens[0].ifs or gens[0].is_async:
            raise Untranslatable("comprehension shape")
        g = gens[0]
        it = g.iter
        if isinstance(it, ast.Call) and isinstance(it.func, ast.Name) and it.func.id == "zip" and len(it.args) == 2 and not it.keywords \
                and isinstance(g.target, ast.Tuple) and len(g.target.elts) == 2 and all(isinstance(x, ast.Name) for x in g.target.elts):
            (a, ta), (b, tb) = self.seq(it.args[0]), self.seq(it.args[1])
            na, nb = g.target.elts[0].id, g.target.elts[1].id
            return "List.zipWith (fun (%s : %s) (%s : %s) => " % (na, ta, nb, tb), ") %s %s" % (a, b), {na: ta, nb: tb}
        if isinstance(g.target, ast.Name):
            a, ta = self.seq(it)
            return "List.map (fun (%s : %s) => " % (g.target.id, ta), ") %s" % a, {g.target.id: ta}
        raise Untranslatable("comprehension source")

    def seq(self, e):
        """a list-valued expression and its ELEMENT type"""
        p = self.attr_path(e)
        if p == "self._weights":
            self.uses.add("self_weights")
            return "self_weights", SCAL
        if p == "self._utilities":
            self.uses.add("self_utilities")
            return "self_utilities", "υ"
        if p is not None and p.replace(".", "_") in self.env:
            t = self.env[p.replace(".", "_")]
            if t.startswith("(List "):
                return p.replace(".", "_"), t[6:-1]
        if isinstance(e, ast.Name) and e.id in self.env and self.env[e.id].startswith("(List "):
            return e.id, self.env[e.id][6:-1]
        raise Untranslatable("sequence %s" % ast.dump(e)[:80])

    def expr(self, e, scope):
        """(lean text, type)"""
        if isinstance(e, ast.Name):
            if e.id in scope:
                return e.id, scope[e.id]
            if e.id in self.env:
                return e.id, self.env[e.id]
            raise Untranslatable("name %s" % e.id)
        if isinstance(e, ast.Attribute):
            p = self.attr_path(e)
            if p is not None and p.replace(".", "_") in self.env:
                return p.replace(".", "_"), self.env[p.replace(".", "_")]
            if e.attr == "score" and isinstance(e.value, ast.Name):
                x, t = self.expr(e.value, scope)
                if t == RES:
                    self.calls["score_of"] = "R → α"
                    return "(score_of %s)" % x, SCAL
            raise Untranslatable("attribute %s" % ast.dump(e)[:80])
        if isinstance(e, ast.BinOp) and isinstance(e.op, ast.Mult):
            a, ta = self.expr(e.left, scope)
            b, tb = self.expr(e.right, scope)
            if ta == SCAL and tb == SCAL:
                return "(%s * %s)" % (a, b), SCAL
            if ta == SCAL and tb == VEC:
                return "(Np.smul1 %s %s)" % (a, b), VEC
            if ta == SCAL and tb == MAT:
                return "(Np.smul2 %s %s)" % (a, b), MAT
            raise Untranslatable("product of %s and %s" % (ta, tb))
        if isinstance(e, ast.Call):
            f = e.func
            # component method call  u.m(...)  /  component call  u(...)
            if isinstance(f, ast.Attribute) and isinstance(f.value, ast.Name) and f.value.id in scope and scope[f.value.id] == "υ" and f.attr in METHOD_TYPES:
                rt = METHOD_TYPES[f.attr]
                self.calls["call_" + f.attr] = "υ → List (String × Arg) → %s" % rt
                return "(call_%s %s %s)" % (f.attr, f.value.id, self.arglist(e)), rt
            if isinstance(f, ast.Name) and f.id in scope and scope[f.id] == "υ":
                self.calls["call_component"] = "υ → List (String × Arg) → R"
                return "(call_component %s %s)" % (f.id, self.arglist(e)), RES
            if isinstance(f, ast.Attribute) and isinstance(f.value, ast.Name) and f.value.id == "self" and f.attr in METHOD_TYPES:
                rt = METHOD_TYPES[f.attr]
                self.calls["self_" + f.attr] = "List (String × Arg) → %s" % rt
                return "(self_%s %s)" % (f.attr, self.arglist(e)), rt
            if isinstance(f, ast.Name) and f.id == "sum" and len(e.args) == 1 and isinstance(e.args[0], ast.GeneratorExp) and not e.keywords:
                pre, post, bound = self.comp_source(e.args[0].generators)
                x, t = self.expr(e.args[0].elt, dict(scope, **bound))
                if t != SCAL:
                    raise Untranslatable("sum of %s" % t)
                return "(Np.sumGen (%s%s%s))" % (pre, x, post), SCAL
            if isinstance(f, ast.Name) and f.id == "any" and len(e.args) == 1 and isinstance(e.args[0], ast.GeneratorExp) and not e.keywords:
                pre, post, bound = self.comp_source(e.args[0].generators)
                x, t = self.expr(e.args[0].elt, dict(scope, **bound))
                if t != "Bool":
                    raise Untranslatable("any of %s" % t)
                return "(List.any (%s%s%s) id)" % (pre, x, post), "Bool"
            if self.attr_path(f) == "np.isnan" and len(e.args) == 1 and not e.keywords:
                x, t = self.expr(e.args[0], scope)
                if t != SCAL:
                    raise Untranslatable("isnan of %s" % t)
                self.calls["isnan"] = "α → Bool"
                return "(isnan %s)" % x, "Bool"
            if self.attr_path(f) == "np.stack" and len(e.args) == 1 and isinstance(e.args[0], ast.ListComp) and not e.keywords:
                return self.expr(e.args[0], scope)
            if self.attr_path(f) == "np.sum" and len(e.args) == 1 and len(e.keywords) == 1 and e.keywords[0].arg == "axis" \
                    and isinstance(e.keywords[0].value, ast.Constant) and e.keywords[0].value.value == 0:
                x, t = self.expr(e.args[0], scope)
                if t == lst(MAT):
                    return "(Np.sumAxis0M %s)" % x, MAT
                if t == lst(VEC):
                    return "(Np.sumAxis0V %s)" % x, VEC
                raise Untranslatable("np.sum(axis=0) of %s" % t)
            raise Untranslatable("call %s" % ast.dump(e)[:100])
        if isinstance(e, ast.ListComp):
            pre, post, bound = self.comp_source(e.generators)
            x, t = self.expr(e.elt, dict(scope, **bound))
            return "(%s%s%s)" % (pre, x, post), lst(t)
        raise Untranslatable("expression %s" % type(e).__name__)

    # ---- statements: returns lean text of an expression of the function's result type
    def block(self, stmts, ind):
        if not stmts:
            raise Untranslatable("fell off the end")
        s, rest = stmts[0], stmts[1:]
        if isinstance(s, ast.Expr) and isinstance(s.value, ast.Constant):
            return self.block(rest, ind)
        if isinstance(s, ast.Return):
            if isinstance(s.value, ast.Name) and s.value.id == "result" and "result_score" in self.env:
                return ind + "result_score\n", SCAL
            x, t = self.expr(s.value, {})
            return ind + x + "\n", t
        if isinstance(s, ast.Assign) and len(s.targets) == 1:
            tg = s.targets[0]
            if isinstance(tg, ast.Name) and isinstance(s.value, ast.Call) and isinstance(s.value.func, ast.Name) and s.value.func.id == "JointUtilityResult" \
                    and not s.value.args and not s.value.keywords:
                self.env[tg.id] = "RESULTOBJ"
                return self.block(rest, ind)
            name = tg.id if isinstance(tg, ast.Name) else (self.attr_path(tg) or "").replace(".", "_")
            if not name:
                raise Untranslatable("assignment target")
            if isinstance(tg, ast.Attribute) and self.env.get(tg.value.id) != "RESULTOBJ":
                raise Untranslatable("attribute store on %s" % tg.value.id)
            x, t = self.expr(s.value, {})
            self.env[name] = t
            body, rt = self.block(rest, ind)
            return "%slet %s : %s := %s\n%s" % (ind, name, t, x, body), rt
        if isinstance(s, ast.If):
            # if/else assigning the same single name in every branch (nested ifs allowed), then the rest
            val, t, name = self.branch_value(s)
            self.env[name] = t
            body, rt = self.block(rest, ind)
            return "%slet %s : %s :=\n%s\n%s" % (ind, name, t, self.indent(val, ind + "  "), body), rt
        raise Untranslatable("statement %s" % type(s).__name__)

    def indent(self, txt, ind):
        return "\n".join(ind + l for l in txt.splitlines())

    def test(self, e):
        if isinstance(e, ast.Compare) and len(e.ops) == 1 and isinstance(e.ops[0], ast.IsNot) and isinstance(e.comparators[0], ast.Constant) \
                and e.comparators[0].value is None and isinstance(e.left, ast.Name) and e.left.id in self.opt_params:
            return ("opt", e.left.id)
        x, t = self.expr(e, {})
        if t != "Bool":
            raise Untranslatable("test of type %s" % t)
        return ("bool", x)

    def branch_value(self, s):
        def one(stmts):
            if len(stmts) == 1 and isinstance(stmts[0], ast.If):
                return self.branch_value(stmts[0])
            if len(stmts) == 1 and isinstance(stmts[0], ast.Assign) and len(stmts[0].targets) == 1:
                tg = stmts[0].targets[0]
                name = tg.id if isinstance(tg, ast.Name) else (self.attr_path(tg) or "").replace(".", "_")
                if isinstance(tg, ast.Attribute) and self.env.get(tg.value.id) != "RESULTOBJ":
                    raise Untranslatable("attribute store")
                v = stmts[0].value
                if isinstance(v, ast.Name) and v.id in self.opt_params and self.narrowed.get(v.id):
                    return self.narrowed[v.id], SCAL, name
                x, t = self.expr(v, {})
                return x, t, name
            raise Untranslatable("branch shape")
        if not s.orelse:
            raise Untranslatable("if without else")
        kind, c = self.test(s.test)
        self.narrowed = getattr(self, "narrowed", {})
        if kind == "opt":
            self.narrowed[c] = c + "_v"
            a, ta, na = one(s.body)
            self.narrowed.pop(c)
            b, tb, nb = one(s.orelse)
            if ta != tb or na != nb:
                raise Untranslatable("branches disagree")
            return "(match %s with\n  | some %s_v => %s\n  | none => %s)" % (c, c, a, b), ta, na
        a, ta, na = one(s.body)
        b, tb, nb = one(s.orelse)
        if ta != tb or na != nb:
            raise Untranslatable("branches disagree")
        return "(if %s then\n  %s\nelse\n  %s)" % (c, a.replace("\n", "\n  "), b.replace("\n", "\n  ")), ta, na

    def emit(self, lean_name):
        body, rt = self.block(self.node.body, "  ")
        ps = []
        for u in ("self_weights", "self_utilities"):
            if u in self.uses:
                ps.append("(%s : %s)" % (u, "List α" if u == "self_weights" else "List υ"))
        for n, sig in self.calls.items():
            ps.append("(%s : %s)" % (n, sig))
        for c in self.consts:
            ps.append("(%s : Arg)" % c)
        for p in self.params:
            ps.append("(%s : %s)" % (p, self.env[p]))
        return "def %s {υ R Arg : Type} %s : %s :=\n%s" % (lean_name, " ".join(ps), rt, body)


HEADER = """import Ds.Np
/-!
# GenJ.Joint — GENERATED by harness/translate_joint.py from /repo's current source; do not edit.
The methods of `JointUtility`: component calls are parameters `call_* : υ → List (String × Arg) → _` (forwarded arguments by position / keyword).
-/
set_option linter.unusedVariables false
namespace GenJ
variable {α : Type} [Inhabited α] [Add α] [Sub α] [Mul α] [Div α] [Neg α] [NatCast α]

"""

METHODS = [("null_score", "null_score"), ("mean_score", "mean_score"), ("elementwise_score", "elementwise_score"),
           ("elementwise_null_score", "elementwise_null_score"), ("__call__", "call")]


def generate(repo=REPO):
    src = open(os.path.join(repo, "datascope/importance/utility.py")).read()
    report, parts = {}, []
    try:
        tree = ast.parse(src)
        cls = next((n for n in tree.body if isinstance(n, ast.ClassDef) and n.name == "JointUtility"), None)
    except SyntaxError as e:
        cls = None
        report["JointUtility"] = dict(ok=False, why="syntax: %s" % e)
    if cls is None:
        report.setdefault("JointUtility", dict(ok=False, why="class JointUtility not found"))
    else:
        for py, lean in METHODS:
            try:
                node = next((n for n in cls.body if isinstance(n, ast.FunctionDef) and n.name == py), None)
                if node is None:
                    raise Untranslatable("method %s not found" % py)
                parts.append("/-- translated from `JointUtility.%s` -/\n%s" % (py, J(node).emit(lean)))
                report["JointUtility." + py] = dict(ok=True)
            except Untranslatable as e:
                report["JointUtility." + py] = dict(ok=False, why=str(e))
    return HEADER + "\n".join(parts) + "\nend GenJ\n", report


def write(repo=REPO, out=OUT):
    text, report = generate(repo)
    os.makedirs(os.path.dirname(out), exist_ok=True)
    old = open(out).read() if os.path.exists(out) else None
    if old != text:
        with open(out + ".tmp", "w") as f:
            f.write(text)
        os.replace(out + ".tmp", out)
    report["_changed"] = old != text
    return report


if __name__ == "__main__":
    if "--print" in sys.argv:
        t, r = generate()
        print(t)
        print(r, file=sys.stderr)
    else:
        print(write())
