#!/venv/bin/python
"""translate_skel.py — regenerate lean/GenB/Brute.lean: the CONTROL SKELETON of ShapleyImportance._shapley_bruteforce.

The scoring loops of datascope call into scikit-learn, pandas and the utility objects; those calls cannot be translated.  What can be
translated, and what the properties C03 / C06 / C08 / C15 are about, is the skeleton around them: which coalitions are enumerated and in
which order, what is handed to `provenance.query`, where the score is reset to the null score, which exception classes the `try` catches and
which warnings are escalated, the per-size weights factor_0 / factor_1 and the accumulation into `importance`.

On top of the subset of translate.py (assignments, arithmetic, `for … in range`) this translator knows:
  * opaque values: a name assigned from an expression that mentions an opaque object (`self`, the data arguments, …) becomes a PARAMETER of
    the generated function if the translatable code reads it later (here: `null_score`), and is dropped otherwise; `if` statements whose test and
    body only concern opaque objects are dropped;
  * opaque calls listed in OPAQUE_CALLS (`provenance.query(iter)`) become function parameters;
  * `for x in product(*[<list display> for i in range(n)])`, `np.array(x, dtype=int)` of an integer list, `np.sum`, `len`, `comb`, element-wise
    arithmetic between lists and scalars;
  * `with warnings.catch_warnings(): simplefilter("error", category=W)…; try: BODY except (E1, E2, …): pass` where BODY is opaque: BODY becomes a
    parameter `try_body_k : <the translatable values it reads> → Np.Out α` (a value, an exception class, or a warning class followed by the
    value it would have produced), the statement becomes `Np.tryExcept [E…] [W…] (try_body_k …) old`, provided the only translatable name BODY
    assigns is assigned by its LAST statement (so that an exception leaves the old value) — otherwise Untranslatable;
  * the function returns `Except String _` (an uncaught exception class propagates).
"""
import ast
import os
import sys

HERE = os.path.dirname(os.path.abspath(__file__))
sys.path.insert(0, HERE)
from translate import Fn, Untranslatable, INT, FLT, A1, lean_ty, module_int_constants, REPO, VERIF  # noqa: E402

OUT = os.path.join(VERIF, "lean", "GenB", "Brute.lean")
ROWS = "rows"          # opaque type ρ: whatever `provenance.query` returns


def lty(t):
    return "ρ" if t == ROWS else lean_ty(t)


class SkelFn(Fn):
    def __init__(self, node, param_types, opaque_names, opaque_calls, opaque_defs, consts=None, lean_name=None):
        self.opaque_names = set(opaque_names)          # names of objects the translation knows nothing about
        self.opaque_calls = opaque_calls               # "a.b" -> (param name, [arg types], result type)
        self.opaque_defs = opaque_defs                 # name -> type: assigned from an opaque expression, read by translatable code => parameter
        self.extra_params = []                         # (name, lean type text)
        self.try_count = 0
        self.node = node
        self.env = dict(param_types)
        self.params = [a.arg for a in node.args.args if a.arg in param_types]
        self.decl = {}
        self.consts = consts or {}
        self.uses_sorter = False
        self.uses_narrow = False
        self.globals_used = []
        self.lean_name = lean_name or node.name
        self.ret = None
        self.scalar = True
        self.param_types0 = [(p, param_types[p]) for p in self.params]

    # ---- opacity
    def mentions_opaque(self, node):
        for n in ast.walk(node):
            if isinstance(n, ast.Name) and (n.id in self.opaque_names):
                return True
        return False

    def dotted(self, f):
        if isinstance(f, ast.Attribute) and isinstance(f.value, ast.Name):
            return "%s.%s" % (f.value.id, f.attr)
        return None

    def names_read(self, node):
        return [n.id for n in ast.walk(node) if isinstance(n, ast.Name) and isinstance(n.ctx, ast.Load)]

    # ---- expressions
    def coerce(self, txt, t, want):
        if t == want:
            return txt
        if t == INT and want == FLT:
            return "(Np.ofInt %s)" % txt
        raise Untranslatable("cannot use %r as %r" % (t, want))

    def expr(self, e):
        if isinstance(e, ast.Call):
            d = self.dotted(e.func)
            if d in self.opaque_calls:
                pname, argtys, rty = self.opaque_calls[d]
                if len(e.args) != len(argtys) or e.keywords:
                    raise Untranslatable("opaque call %s arity" % d)
                args = []
                for a, want in zip(e.args, argtys):
                    x, t = self.expr(a)
                    if t != want:
                        raise Untranslatable("opaque call %s argument %r" % (d, t))
                    args.append(x)
                sig = " → ".join([lty(t) for t in argtys] + [lty(rty)])
                if (pname, sig) not in self.extra_params:
                    self.extra_params.append((pname, sig))
                return "(%s %s)" % (pname, " ".join(args)), rty
            f = e.func
            name = f.id if isinstance(f, ast.Name) else (f.attr if isinstance(f, ast.Attribute) and isinstance(f.value, ast.Name) and f.value.id == "np" else None)
            is_np = isinstance(f, ast.Attribute)
            kws = {k.arg: k.value for k in e.keywords}
            if name == "len" and not is_np and len(e.args) == 1:
                x, t = self.expr(e.args[0])
                if t[0] == "arr1":
                    return "(Np.len1 %s)" % x, INT
            if name == "comb" and not is_np and len(e.args) == 2 and not kws:
                a, b = self.int_expr(e.args[0]), self.int_expr(e.args[1])
                return "(Np.comb %s %s : α)" % (a, b), FLT
            if is_np and name == "array" and len(e.args) == 1 and set(kws) <= {"dtype"}:
                x, t = self.expr(e.args[0])
                d = kws.get("dtype")
                if t == A1(INT) and (d is None or (isinstance(d, ast.Name) and d.id == "int")):
                    return x, t
            if is_np and name == "sum" and len(e.args) == 1 and not kws:
                x, t = self.expr(e.args[0])
                if t == A1(INT):
                    return "(Np.sumI %s)" % x, INT
            if is_np and name == "zeros" and len(e.args) == 1 and not kws:
                return "(Np.zeros1 %s)" % self.int_expr(e.args[0]), A1(FLT)
        if isinstance(e, ast.BinOp):
            a, ta = self.expr(e.left)
            b, tb = self.expr(e.right)
            op = {ast.Add: "+", ast.Sub: "-", ast.Mult: "*", ast.Div: "/"}.get(type(e.op))
            arr_a, arr_b = ta[0] == "arr1" if isinstance(ta, tuple) else False, tb[0] == "arr1" if isinstance(tb, tuple) else False
            if op and (arr_a or arr_b):
                ea, eb = (ta[1] if arr_a else ta), (tb[1] if arr_b else tb)
                if ea not in (INT, FLT) or eb not in (INT, FLT):
                    raise Untranslatable("element types %r %r" % (ea, eb))
                rt = FLT if (FLT in (ea, eb) or op == "/") else INT
                xa = self.coerce("x_" if arr_a else a, ea, rt)
                xb = self.coerce("y_" if arr_b else b, eb, rt)
                if arr_a and arr_b:
                    return "(List.zipWith (fun x_ y_ => %s %s %s) %s %s)" % (xa, op, xb, a, b), A1(rt)
                if arr_a:
                    return "(List.map (fun x_ => %s %s %s) %s)" % (xa, op, xb, a), A1(rt)
                return "(List.map (fun y_ => %s %s %s) %s)" % (xa, op, xb, b), A1(rt)
        if isinstance(e, ast.Attribute) and self.mentions_opaque(e):
            raise Untranslatable("opaque attribute")
        return Fn.expr(self, e)

    # ---- statements
    def bind(self, name, txt, t, ind):
        if name in self.env and self.env[name] != t:
            raise Untranslatable("%s changes type from %r to %r" % (name, self.env[name], t))
        self.env[name] = t
        return "%slet %s : %s := %s\n" % (ind, name, lty(t), txt)

    def is_opaque_stmt(self, s):
        """a statement that only concerns opaque objects: every name it assigns is (or becomes) opaque and it reads no carried translatable state it could change"""
        return self.mentions_opaque(s)

    def assigned_names(self, stmts):
        return self.assigned(stmts)

    def stmt(self, s, ind):
        if isinstance(s, ast.Return):
            x, t = self.expr(s.value)
            self.ret = t
            return "%spure %s\n" % (ind, x)
        if isinstance(s, ast.For):
            return self.loop(s, ind)
        if isinstance(s, ast.With):
            return self.with_try(s, ind)
        if isinstance(s, ast.AnnAssign) and s.value is None:
            return ""
        if isinstance(s, ast.Assign) and len(s.targets) == 1 and isinstance(s.targets[0], ast.Name) and self.mentions_opaque(s.value) \
                and not (isinstance(s.value, ast.Call) and self.dotted(s.value.func) in self.opaque_calls):
            name = s.targets[0].id
            if name in self.opaque_defs:
                # value computed by opaque code and read by the translated skeleton: a parameter
                t = self.opaque_defs[name]
                if name in self.env:
                    raise Untranslatable("opaque definition %s assigned twice" % name)
                self.env[name] = t
                self.extra_params.append((name, lty(t)))
                return ""
            if name in self.env:
                raise Untranslatable("translatable name %s assigned from an opaque expression" % name)
            self.opaque_names.add(name)
            return ""
        if isinstance(s, ast.If) and self.mentions_opaque(s.test):
            names = self.assigned(s.body + s.orelse)
            if any(n in self.env for n in names):
                raise Untranslatable("opaque `if` assigns translatable state")
            for n in names:
                self.opaque_names.add(n)
            return ""
        if isinstance(s, ast.Expr) and isinstance(s.value, ast.Call) and self.mentions_opaque(s.value):
            return ""
        return Fn.stmt(self, s, ind)

    def loop(self, s, ind):
        if s.orelse or not isinstance(s.target, ast.Name):
            raise Untranslatable("for/else or tuple loop target")
        it = s.iter
        var = s.target.id
        if isinstance(it, ast.Call) and isinstance(it.func, ast.Name) and it.func.id in ("range", "prange"):
            a = [self.int_expr(x) for x in it.args]
            rng = {1: "(Np.range (0 : Int) %s (1 : Int))", 2: "(Np.range %s %s (1 : Int))", 3: "(Np.range %s %s %s)"}[len(a)] % tuple(a)
            vt = INT
        elif isinstance(it, ast.Call) and isinstance(it.func, ast.Name) and it.func.id == "product" and len(it.args) == 1 and isinstance(it.args[0], ast.Starred) \
                and isinstance(it.args[0].value, ast.ListComp) and not it.keywords:
            lc = it.args[0].value
            if len(lc.generators) != 1 or lc.generators[0].ifs or not isinstance(lc.generators[0].target, ast.Name):
                raise Untranslatable("product comprehension")
            g = lc.generators[0]
            gi = g.iter
            if not (isinstance(gi, ast.Call) and isinstance(gi.func, ast.Name) and gi.func.id == "range" and len(gi.args) == 1):
                raise Untranslatable("product comprehension range")
            n = self.int_expr(gi.args[0])
            saved = dict(self.env)
            self.env[g.target.id] = INT
            elt, et = self.expr(lc.elt)
            self.env = saved
            if et != A1(INT):
                raise Untranslatable("product of %r" % (et,))
            rng = "(Np.product ((Np.range (0 : Int) %s (1 : Int)).map (fun (%s : Int) => %s)))" % (n, g.target.id, elt)
            vt = A1(INT)
        else:
            raise Untranslatable("loop iterable")
        carried = [n for n in self.assigned(s.body) if n in self.env and n != var and n not in self.opaque_names]
        if not carried:
            raise Untranslatable("loop without carried state")
        before = dict(self.env)
        opq_before = set(self.opaque_names)
        self.env[var] = vt
        tys = [self.env[n] for n in carried]
        st_ty = lty(("tuple", tys)) if len(carried) > 1 else lty(tys[0])

        def proj(k):
            if len(carried) == 1:
                return "st_"
            return "st_" + ".2" * k + ("" if k == len(carried) - 1 else ".1")
        ind2 = ind + "    "
        body = "".join("%slet %s : %s := %s\n" % (ind2, n, lty(self.env[n]), proj(k)) for k, n in enumerate(carried))
        body += self.block(s.body, ind2)
        tup = "(" + ", ".join(carried) + ")" if len(carried) > 1 else carried[0]
        out = "%slet st_ : %s ← %s.foldlM (fun (st_ : %s) (%s : %s) => do\n%s%spure %s) %s\n" % (ind, st_ty, rng, st_ty, var, lty(vt), body, ind2, tup, tup)
        self.env = dict(before)
        self.opaque_names = opq_before | (self.opaque_names - set(before))
        for k, n in enumerate(carried):
            out += "%slet %s : %s := %s\n" % (ind, n, lty(self.env[n]), proj(k))
        return out

    def with_try(self, s, ind):
        # with warnings.catch_warnings(): simplefilter(...)* ; try: BODY except (…): pass
        if len(s.items) != 1 or self.dotted(getattr(s.items[0].context_expr, "func", None)) != "warnings.catch_warnings":
            raise Untranslatable("with statement")
        escalated = []
        rest = list(s.body)
        while rest and isinstance(rest[0], ast.Expr) and isinstance(rest[0].value, ast.Call) and self.dotted(rest[0].value.func) == "warnings.simplefilter":
            c = rest.pop(0).value
            kws = {k.arg: k.value for k in c.keywords}
            if len(c.args) != 1 or not isinstance(c.args[0], ast.Constant) or set(kws) != {"category"} or not isinstance(kws["category"], ast.Name):
                raise Untranslatable("simplefilter form")
            if c.args[0].value == "error":
                escalated.append(kws["category"].id)
            elif c.args[0].value != "ignore":
                raise Untranslatable("simplefilter action %r" % c.args[0].value)
        if len(rest) != 1 or not isinstance(rest[0], ast.Try):
            raise Untranslatable("with body is not a single try")
        t = rest[0]
        if t.orelse or t.finalbody or len(t.handlers) != 1:
            raise Untranslatable("try shape")
        h = t.handlers[0]
        if h.name is not None or not (len(h.body) == 1 and isinstance(h.body[0], ast.Pass)):
            raise Untranslatable("except handler is not `pass`")
        if isinstance(h.type, ast.Tuple) and all(isinstance(x, ast.Name) for x in h.type.elts):
            handled = [x.id for x in h.type.elts]
        elif isinstance(h.type, ast.Name):
            handled = [h.type.id]
        else:
            raise Untranslatable("except clause")
        # the body is opaque; the translatable names it assigns
        assigned = [n for n in self.assigned(t.body) if n in self.env]
        if len(assigned) != 1 or self.env[assigned[0]] != FLT:
            raise Untranslatable("try body assigns translatable names %r" % (assigned,))
        target = assigned[0]
        last = t.body[-1]
        if not (isinstance(last, ast.Assign) and len(last.targets) == 1 and isinstance(last.targets[0], ast.Name) and last.targets[0].id == target):
            raise Untranslatable("the try body does not end with the assignment to %s" % target)
        for st in t.body[:-1]:
            if target in self.assigned([st]):
                raise Untranslatable("%s assigned before the end of the try body" % target)
        # translatable values the body reads
        reads = []
        for n in self.names_read(ast.Module(body=t.body, type_ignores=[])):
            if n in self.env and n != target and n not in reads and n not in self.assigned(t.body):
                reads.append(n)
        reads = [n for n in reads if self.env[n] in (FLT, INT, ROWS) or (isinstance(self.env[n], tuple) and self.env[n][0] == "arr1")]
        self.try_count += 1
        pname = "try_body_%d" % self.try_count
        sig = " → ".join([lty(self.env[n]) for n in reads] + ["Np.Out α"])
        self.extra_params.append((pname, sig))
        self.try_info = dict(handled=handled, escalated=escalated, reads=reads, target=target)
        hl = "[" + ", ".join('"%s"' % x for x in handled) + "]"
        el = "[" + ", ".join('"%s"' % x for x in escalated) + "]"
        return "%slet %s : α ← Np.tryExcept %s %s (%s %s) %s\n" % (ind, target, hl, el, pname, " ".join(reads), target)

    def emit(self):
        body = self.block(self.node.body, "  ")
        if self.ret is None:
            raise Untranslatable("no return")
        params = ["(%s : %s)" % (n, sig) for n, sig in self.extra_params]
        for g in self.globals_used:
            params.append("(%s : Int)" % g)
        for p, t in self.param_types0:
            params.append("(%s : %s)" % (p, lty(t)))
        return "def %s {ρ : Type} %s : Except String %s := do\n%s" % (self.lean_name, " ".join(params), lty(self.ret), body)


HEADER = """import Ds.Np
/-!
# GenB.Brute — GENERATED by harness/translate_skel.py from /repo's current source; do not edit.
Control skeleton of `ShapleyImportance._shapley_bruteforce`: opaque library calls are parameters.
-/
set_option linter.unusedVariables false
namespace GenB
variable {α : Type} [Inhabited α] [Add α] [Sub α] [Mul α] [Div α] [Neg α] [NatCast α]

"""


def generate(repo=REPO):
    src = open(os.path.join(repo, "datascope/importance/shapley.py")).read()
    tree = ast.parse(src)
    report, parts = {}, []
    try:
        node = next((n for n in ast.walk(tree) if isinstance(n, ast.FunctionDef) and n.name == "_shapley_bruteforce"), None)
        if node is None:
            raise Untranslatable("function _shapley_bruteforce not found")
        f = SkelFn(node, {"units": A1(INT), "world": A1(INT)},
                   opaque_names=["self", "X_train", "y_train", "X_test", "y_test", "metadata_train", "metadata_test", "warnings"],
                   opaque_calls={"provenance.query": ("provenance_query", [A1(INT)], ROWS)},
                   opaque_defs={"null_score": FLT}, consts=module_int_constants(src), lean_name="shapley_bruteforce")
        txt = f.emit()
        parts.append("/-- translated from `ShapleyImportance._shapley_bruteforce` -/\n" + txt)
        report["_shapley_bruteforce"] = dict(ok=True, **getattr(f, "try_info", {}))
    except Untranslatable as e:
        report["_shapley_bruteforce"] = dict(ok=False, why=str(e))
    except SyntaxError as e:
        report["_shapley_bruteforce"] = dict(ok=False, why="syntax: %s" % e)
    return HEADER + "\n".join(parts) + "\nend GenB\n", report


def write(repo=REPO, out=OUT):
    text, report = generate(repo)
    os.makedirs(os.path.dirname(out), exist_ok=True)
    old = open(out).read() if os.path.exists(out) else None
    if old != text:
        with open(out + ".tmp", "w") as f:
            f.write(text)
        os.replace(out + ".tmp", out)
    report["_changed"] = old != text
    return report


if __name__ == "__main__":
    if "--print" in sys.argv:
        t, r = generate()
        print(t)
        print(r, file=sys.stderr)
    else:
        print(write())
