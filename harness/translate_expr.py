#!/venv/bin/python
"""translate_expr.py — regenerate lean/GenE/Ops.lean from /repo's datascope/utility/provenance.py: the overloaded operators `&` and `|` of the three expression
classes (`Equality`, `Conjunction`, `Disjunction`): 2 x 3 methods, each an `isinstance` dispatch on the right operand — 18 branches.

A small compiler for constructor expressions with STATIC CLASSES: an `Equality` is a literal `(unit, candidate)`, a `Conjunction` the list of its literals
(`self._elements`), a `Disjunction` the list of its conjunctions.  Supported in a branch: `return <C>(args…)` where `<C>` is `Conjunction` / `Disjunction` and an
argument is an expression of the element class, `deepcopy(x)` (the identity: values are immutable here), a starred list; lists are comprehensions
`[deepcopy(e) for e in X._elements]`, `[a & b for …]` over `X._elements` or `itertools.product(X._elements, Y._elements)`, and `+` of lists; `a & b` inside a
comprehension is resolved by the static classes of `a` and `b` to the already generated branch function (so branches are generated in dependency order and none is
recursive).  Every branch becomes one Lean definition `<self>_<op>_<other>`; `and_` / `or_` dispatch on the two operands of the model's expression type `Ds.Prov.Expr`.
The `else: raise ValueError("Unsupported operand type …")` branch (an operand that is no expression) is not represented: `Expr` has exactly the three classes.
"""
import ast
import os
import sys

HERE = os.path.dirname(os.path.abspath(__file__))
sys.path.insert(0, HERE)
from translate import Untranslatable, REPO, VERIF  # noqa: E402

OUT = os.path.join(VERIF, "lean", "GenE", "Ops.lean")
U = ast.unparse
EQ, CONJ, DISJ = "Equality", "Conjunction", "Disjunction"
SHORT = {EQ: "eq", CONJ: "conj", DISJ: "disj"}
ELEM = {CONJ: EQ, DISJ: CONJ}                      # class of the elements of a container class
LTY = {EQ: "Lit", CONJ: "(List Lit)", DISJ: "(List (List Lit))"}


def L(c):
    return ("list", c)


class Branch:
    def __init__(self, selfcls, op, othercls, done):
        self.env = {"self": selfcls, "other": othercls}
        self.op = op
        self.done = done          # (selfcls, op, othercls) -> result class of the branches generated so far

    def expr(self, e):
        """-> (lean text, static type): a class name or ('list', class)"""
        if isinstance(e, ast.Name) and e.id in self.env:
            return e.id, self.env[e.id]
        if isinstance(e, ast.Call) and U(e.func) == "deepcopy" and len(e.args) == 1 and not e.keywords:
            return self.expr(e.args[0])
        if isinstance(e, ast.Attribute) and e.attr == "_elements":
            x, t = self.expr(e.value)
            if t in ELEM:
                return x, L(ELEM[t])                  # a container IS the list of its elements
            raise Untranslatable("_elements of %r" % (t,))
        if isinstance(e, ast.BinOp) and isinstance(e.op, (ast.BitAnd, ast.BitOr)):
            (a, ta), (b, tb) = self.expr(e.left), self.expr(e.right)
            op = "and" if isinstance(e.op, ast.BitAnd) else "or"
            key = (ta, op, tb)
            if key not in self.done:
                raise Untranslatable("operator %s between %r and %r is not available yet (dependency order)" % (op, ta, tb))
            return "(%s_%s_%s %s %s)" % (SHORT[ta], op, SHORT[tb], a, b), self.done[key]
        if isinstance(e, ast.BinOp) and isinstance(e.op, ast.Add):
            (a, ta), (b, tb) = self.expr(e.left), self.expr(e.right)
            if isinstance(ta, tuple) and ta == tb:
                return "(%s ++ %s)" % (a, b), ta
            raise Untranslatable("+ of %r and %r" % (ta, tb))
        if isinstance(e, ast.List):
            xs = [self.expr(x) for x in e.elts]
            if xs and all(t == xs[0][1] and not isinstance(t, tuple) for _, t in xs):
                return "[" + ", ".join(x for x, _ in xs) + "]", L(xs[0][1])
            raise Untranslatable("list display")
        if isinstance(e, ast.ListComp) and len(e.generators) == 1 and not e.generators[0].ifs:
            g = e.generators[0]
            it = g.iter
            saved = dict(self.env)
            try:
                if isinstance(g.target, ast.Name):
                    seq, ts = self.expr(it)
                    if not isinstance(ts, tuple):
                        raise Untranslatable("comprehension over %r" % (ts,))
                    self.env[g.target.id] = ts[1]
                    body, tb = self.expr(e.elt)
                    if isinstance(tb, tuple):
                        raise Untranslatable("nested list")
                    if body == g.target.id:
                        return seq, L(tb)
                    return "(%s.map (fun %s => %s))" % (seq, g.target.id, body), L(tb)
                if isinstance(g.target, ast.Tuple) and len(g.target.elts) == 2 and isinstance(it, ast.Call) and U(it.func) in ("itertools.product", "product") \
                        and len(it.args) == 2 and not it.keywords:
                    (sa, ta), (sb, tb) = self.expr(it.args[0]), self.expr(it.args[1])
                    if not (isinstance(ta, tuple) and isinstance(tb, tuple)):
                        raise Untranslatable("product of non-lists")
                    a, b = g.target.elts[0].id, g.target.elts[1].id
                    self.env[a], self.env[b] = ta[1], tb[1]
                    body, tt = self.expr(e.elt)
                    return "(%s.flatMap (fun %s => %s.map (fun %s => %s)))" % (sa, a, sb, b, body), L(tt)
            finally:
                self.env = saved
            raise Untranslatable("comprehension %s" % U(e)[:80])
        if isinstance(e, ast.Call) and isinstance(e.func, ast.Name) and e.func.id in (CONJ, DISJ) and not e.keywords:
            cls = e.func.id
            want = ELEM[cls]
            parts = []
            for a in e.args:
                if isinstance(a, ast.Starred):
                    x, t = self.expr(a.value)
                    if t != L(want):
                        raise Untranslatable("%s(*%r)" % (cls, t))
                    parts.append(x)
                else:
                    x, t = self.expr(a)
                    if t != want:
                        raise Untranslatable("%s(%r)" % (cls, t))
                    parts.append("[%s]" % x)
            if not parts:
                raise Untranslatable("empty constructor call")
            return ("(" + " ++ ".join(parts) + ")" if len(parts) > 1 else parts[0]), cls
        raise Untranslatable("expression %s" % U(e)[:80])


def classes_of_test(t):
    """`isinstance(other, A)` or `isinstance(other, A) or isinstance(other, B)` -> [A, B]"""
    if isinstance(t, ast.BoolOp) and isinstance(t.op, ast.Or):
        return [c for v in t.values for c in classes_of_test(v)]
    if isinstance(t, ast.Call) and U(t.func) == "isinstance" and len(t.args) == 2 and U(t.args[0]) == "other" and isinstance(t.args[1], ast.Name) \
            and t.args[1].id in (EQ, CONJ, DISJ):
        return [t.args[1].id]
    raise Untranslatable("dispatch test %s" % U(t))


def branches(fn):
    """the `if isinstance … elif … else: raise ValueError` chain -> {other class: return expression}"""
    body = [s for s in fn.body if not (isinstance(s, ast.Expr) and isinstance(s.value, ast.Constant))]
    if len(body) != 1 or not isinstance(body[0], ast.If):
        raise Untranslatable("%s is not a single dispatch" % fn.name)
    out = {}
    node = body[0]
    while True:
        if len(node.body) != 1 or not isinstance(node.body[0], ast.Return):
            raise Untranslatable("a branch of %s is not a single return" % fn.name)
        for c in classes_of_test(node.test):
            if c in out:
                raise Untranslatable("class %s tested twice" % c)
            out[c] = node.body[0].value
        if len(node.orelse) == 1 and isinstance(node.orelse[0], ast.If):
            node = node.orelse[0]
            continue
        if not (len(node.orelse) == 1 and isinstance(node.orelse[0], ast.Raise)):
            raise Untranslatable("%s does not end in `else: raise`" % fn.name)
        break
    if set(out) != {EQ, CONJ, DISJ}:
        raise Untranslatable("%s does not handle all three operand classes" % fn.name)
    return out


HEADER = """import Ds.Prov
/-!
# GenE.Ops — GENERATED by harness/translate_expr.py from /repo's current source; do not edit.
The overloaded operators `&` and `|` of `Equality`, `Conjunction`, `Disjunction`.
-/
set_option linter.unusedVariables false
namespace GenE
open Ds.Prov

/-- a literal `(unit position, candidate index)` -/
abbrev Lit := Nat × Nat

"""


def generate(repo=REPO):
    report = {}
    try:
        tree = ast.parse(open(os.path.join(repo, "datascope/utility/provenance.py")).read())
        src = {}
        for cls in (EQ, CONJ, DISJ):
            c = next((n for n in tree.body if isinstance(n, ast.ClassDef) and n.name == cls), None)
            if c is None:
                raise Untranslatable("class %s not found" % cls)
            for op, nm in (("and", "__and__"), ("or", "__or__")):
                fns = [n for n in c.body if isinstance(n, ast.FunctionDef) and n.name == nm]
                if not fns:
                    raise Untranslatable("%s.%s not found" % (cls, nm))
                src[(cls, op)] = branches(fns[-1])          # overload stubs come first
            # the element list is what the constructor stores
            init = next((n for n in c.body if isinstance(n, ast.FunctionDef) and n.name == "__init__"), None)
            if cls != EQ and (init is None or not any(U(s).replace(": List[Conjunction]", "") == "self._elements = list(elements)" for s in init.body)):
                raise Untranslatable("%s.__init__ does not store `list(elements)`" % cls)
        todo = [(s, op, o) for op in ("and", "or") for s in (EQ, CONJ, DISJ) for o in (EQ, CONJ, DISJ)]
        done, defs = {}, []
        for _ in range(4):
            rest = []
            for key in todo:
                s, op, o = key
                try:
                    b = Branch(s, op, o, done)
                    txt, t = b.expr(src[(s, op)][o])
                    if isinstance(t, tuple):
                        raise Untranslatable("branch returns a list")
                    done[key] = t
                    defs.append("/-- `%s.__%s__(other: %s)`: `return %s` -/\ndef %s_%s_%s (self : %s) (other : %s) : %s := %s\n"
                                % (s, op, o, U(src[(s, op)][o]), SHORT[s], op, SHORT[o], LTY[s], LTY[o], LTY[t], txt))
                except Untranslatable as e:
                    if "dependency order" in str(e):
                        rest.append(key)
                    else:
                        raise Untranslatable("%s.__%s__ / %s: %s" % (s, op, o, e))
            todo = rest
            if not todo:
                break
        if todo:
            raise Untranslatable("cyclic dependency between operator branches: %r" % (todo,))

        def wrap(t, x):
            return {EQ: "(match %s with | (u, c) => Expr.eq u c)" % x, CONJ: "(Expr.conj %s)" % x, DISJ: "(Expr.disj %s)" % x}[t]
        for op in ("and", "or"):
            lines = []
            for s, ps in ((EQ, "Expr.eq u c"), (CONJ, "Expr.conj es"), (DISJ, "Expr.disj cs")):
                for o, po in ((EQ, "Expr.eq u' c'"), (CONJ, "Expr.conj es'"), (DISJ, "Expr.disj cs'")):
                    a = {EQ: "(u, c)", CONJ: "es", DISJ: "cs"}[s]
                    b = {EQ: "(u', c')", CONJ: "es'", DISJ: "cs'"}[o]
                    lines.append("  | %s, %s => %s" % (ps, po, wrap(done[(s, op, o)], "(%s_%s_%s %s %s)" % (SHORT[s], op, SHORT[o], a, b))))
            defs.append("/-- `a %s b` on expressions: dispatch on the classes of both operands -/\ndef %s_ : Expr → Expr → Expr\n%s\n" % ("&" if op == "and" else "|", op, "\n".join(lines)))
        report["Expression.__and__/__or__"] = dict(ok=True, result_classes={"%s %s %s" % (SHORT[s], op, SHORT[o]): SHORT[t] for (s, op, o), t in done.items()})
        return HEADER + "\n".join(defs) + "\nend GenE\n", report
    except Untranslatable as e:
        report["Expression.__and__/__or__"] = dict(ok=False, why=str(e))
    except SyntaxError as e:
        report["Expression.__and__/__or__"] = dict(ok=False, why="syntax: %s" % e)
    return HEADER + "end GenE\n", report


def write(repo=REPO, out=OUT):
    text, report = generate(repo)
    os.makedirs(os.path.dirname(out), exist_ok=True)
    old = open(out).read() if os.path.exists(out) else None
    if old != text:
        with open(out + ".tmp", "w") as f:
            f.write(text)
        os.replace(out + ".tmp", out)
    report["_changed"] = old != text
    return report


if __name__ == "__main__":
    if "--print" in sys.argv:
        t, r = generate()
        print(t)
        print(r, file=sys.stderr)
    else:
        print(write())
