"""subprocess worker for C17: runs one scoring case on fresh objects and prints the score bytes.
usage: worker.py <workdir>   (case JSON on stdin)

A case may carry a `history`: other scoring cases that are run first IN THE SAME PROCESS (their results are discarded); the target case must score the
same whatever ran before it.  A case (target or history) that carries a `share_key` is handed the ONE utility object registered under that key in this
process (SHARED) instead of a fresh one: fresh importance objects, same utility object.  Around every fit and every score call (target and history) the process-global state that scoring has no business changing
(props.common.global_state: numpy's floating-point error mode and callback, warnings.filters, os.environ) is snapshotted; a change is appended to
STATE_CHANGES as {call, case, changed}; LOG lists what was scored in this process so far."""
import json
import os
import sys
import random

HERE = os.path.dirname(os.path.abspath(__file__))
sys.path.insert(0, HERE)

STATE_CHANGES = []
LOG = []          # one line per scoring run in this process, in order (what ran before a given scoring)
SHARED = {}       # share_key -> the utility OBJECT every scoring carrying that key is handed in this process (fresh importance objects, one utility)


def build_and_score(I, case):
    """(score bytes as hex, recorded permutations) of `case` scored on fresh objects, after the optional re-seeding of the global generators (`scramble`)
    and after the optional `history` of other scorings in this process"""
    import numpy as np
    if case.get("scramble") is not None:
        np.random.seed(case["scramble"])
        random.seed(case["scramble"])
        np.random.rand(case["scramble"] % 7 + 1)
    for h in case.get("history") or []:
        score_one(I, h)
    return score_one(I, {k: v for k, v in case.items() if k not in ("history", "scramble")})


def make_utility(I, case):
    """fresh utility object (and fresh model) described by the case fields `model`, `utility`, `joint`"""
    import numpy as np
    from sklearn.neighbors import KNeighborsClassifier
    from sklearn.linear_model import LogisticRegression
    if case["model"] == "knn":
        model = KNeighborsClassifier(1)
    elif case["model"] == "rtree":
        from sklearn.tree import DecisionTreeClassifier
        model = DecisionTreeClassifier(splitter="random", max_features=1, max_depth=2)      # draws from numpy's GLOBAL generator (random_state=None)
    elif case["model"] == "pipe_rtree":
        # the randomised learner sits INSIDE a composite estimator that has no random_state attribute of its own
        from sklearn.tree import DecisionTreeClassifier
        from sklearn.pipeline import Pipeline
        from sklearn.preprocessing import StandardScaler
        model = Pipeline([("sc", StandardScaler()), ("t", DecisionTreeClassifier(splitter="random", max_features=1, max_depth=2))])
    elif case["model"] == "custom_global":
        # a plain estimator (no random_state parameter) that draws from numpy's global generator while fitting
        from sklearn.base import BaseEstimator, ClassifierMixin

        class CoinFlip(BaseEstimator, ClassifierMixin):
            def fit(self, X, y):
                self.classes_ = np.unique(y)
                self.pick_ = self.classes_[np.random.randint(len(self.classes_))]
                return self

            def predict(self, X):
                return np.full(len(X), self.pick_)
        model = CoinFlip()
    elif case["model"] == "rforest":
        from sklearn.ensemble import RandomForestClassifier
        model = RandomForestClassifier(n_estimators=3, max_depth=2)
    elif case["model"] == "gnb":
        # warning-sensitive: on a coalition of a single row (or of identical rows) the fitted variances are 0 and predicting emits numpy RuntimeWarnings
        # (log(0), 0/0), which the library turns into a failed evaluation = the null score - so the result depends on numpy's floating-point error mode
        from sklearn.naive_bayes import GaussianNB
        model = GaussianNB()
    else:
        model = LogisticRegression(max_iter=50)
    U = I["utility"]
    util = U.SklearnModelRocAuc(model) if case.get("utility") == "rocauc" else U.SklearnModelAccuracy(model)
    if case.get("joint"):
        util = U.JointUtility(util, U.SklearnModelAccuracy(KNeighborsClassifier(1)), weights=[0.75, -0.5])
    return util


def utility_for(I, case):
    """the utility object a scoring of `case` is handed: a fresh one, or - when the case carries a `share_key` - the ONE object registered under that key in
    this process (created on first use from the case's model/utility/joint fields; every case carrying the key has the same fields)"""
    key = case.get("share_key")
    if key is None:
        return make_utility(I, case)
    if key not in SHARED:
        SHARED[key] = make_utility(I, case)
    return SHARED[key]


def score_one(I, case):
    import numpy as np
    from props.common import global_state, global_state_diff
    X = np.array(case["X"], dtype=float)
    y = np.array(case["y"])
    Xv = np.array(case["Xv"], dtype=float)
    yv = np.array(case["yv"])
    util = utility_for(I, case)
    prov = None
    if case.get("groups") is not None:
        prov = np.array(case["groups"])
    elif case.get("conj") is not None:
        from props.common import conj_prov
        prov = conj_prov(I, case["conj"], case["n_units"])[0]
    score_kw = {}
    if case.get("named_units") is not None:
        # units named by string keys; the caller asks for some of them BY NAME, in an order of its own (`score(..., units=[...])`)
        from props.common import conj_prov
        nu_ = case["named_units"]
        prov = conj_prov(I, [[u] for u in nu_["rows"]], len(nu_["names"]), keys=list(nu_["names"]))[0]
        score_kw["units"] = list(nu_["ask"])
    kw = dict(case.get("kw", {}))
    imp = I["imp"].ShapleyImportance(method=case["method"], utility=util, **kw)
    perms = None
    if case["method"] == "montecarlo":
        from props.mcutil import RecordingRandomState
        rec = RecordingRandomState(imp.randomstate, case.get("forced"))
        imp.randomstate = rec
    LOG.append("%s/%s/%s%s%s n=%d m=%d" % (case["method"], case.get("utility", "accuracy"), case["model"], "/joint" if case.get("joint") else "",
                                         "/shared-utility" if case.get("share_key") is not None else "", len(y), len(yv)))
    fit_kw = {}
    if case.get("pandas_keys") is not None:
        # labels as a Series and training metadata as a DataFrame, both indexed by STRING row keys (hash-randomised per process): rows are looked up by key
        import pandas as pd
        keys_ = list(case["pandas_keys"])
        y = pd.Series(y, index=keys_)
        fit_kw["metadata"] = pd.DataFrame({"source": list(range(len(keys_)))}, index=keys_)
    g0 = global_state()
    imp.fit(X, y, provenance=prov, **fit_kw)
    g1 = global_state()
    try:
        s = np.asarray(imp.score(Xv, yv, **score_kw), dtype=float)
    finally:
        g2 = global_state()
        for call, d in (("fit", global_state_diff(g0, g1)), ("score", global_state_diff(g1, g2))):
            if d:
                STATE_CHANGES.append(dict(call=call, case=case, changed=d))
    if case["method"] == "montecarlo":
        perms = rec.perms
    return s.tobytes().hex(), perms


if __name__ == "__main__":
    import warnings
    warnings.filterwarnings("ignore")
    import impl
    I = impl.load(sys.argv[1])
    case = json.load(sys.stdin)
    h, perms = build_and_score(I, case)
    print("RESULT " + json.dumps({"hex": h, "perms": perms, "hashseed": os.environ.get("PYTHONHASHSEED"), "state_changes": STATE_CHANGES, "log": LOG}))
