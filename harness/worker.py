"""subprocess worker for C17: runs one scoring case on fresh objects and prints the score bytes.
usage: worker.py <workdir>   (case JSON on stdin)"""
import json
import os
import sys
import random

HERE = os.path.dirname(os.path.abspath(__file__))
sys.path.insert(0, HERE)


def build_and_score(I, case):
    import numpy as np
    from sklearn.neighbors import KNeighborsClassifier
    from sklearn.linear_model import LogisticRegression
    if case.get("scramble") is not None:
        np.random.seed(case["scramble"])
        random.seed(case["scramble"])
        np.random.rand(case["scramble"] % 7 + 1)
    X = np.array(case["X"], dtype=float)
    y = np.array(case["y"])
    Xv = np.array(case["Xv"], dtype=float)
    yv = np.array(case["yv"])
    if case["model"] == "knn":
        model = KNeighborsClassifier(1)
    elif case["model"] == "rtree":
        from sklearn.tree import DecisionTreeClassifier
        model = DecisionTreeClassifier(splitter="random", max_features=1, max_depth=2)      # draws from numpy's GLOBAL generator (random_state=None)
    elif case["model"] == "pipe_rtree":
        # the randomised learner sits INSIDE a composite estimator that has no random_state attribute of its own
        from sklearn.tree import DecisionTreeClassifier
        from sklearn.pipeline import Pipeline
        from sklearn.preprocessing import StandardScaler
        model = Pipeline([("sc", StandardScaler()), ("t", DecisionTreeClassifier(splitter="random", max_features=1, max_depth=2))])
    elif case["model"] == "custom_global":
        # a plain estimator (no random_state parameter) that draws from numpy's global generator while fitting
        from sklearn.base import BaseEstimator, ClassifierMixin

        class CoinFlip(BaseEstimator, ClassifierMixin):
            def fit(self, X, y):
                self.classes_ = np.unique(y)
                self.pick_ = self.classes_[np.random.randint(len(self.classes_))]
                return self

            def predict(self, X):
                return np.full(len(X), self.pick_)
        model = CoinFlip()
    elif case["model"] == "rforest":
        from sklearn.ensemble import RandomForestClassifier
        model = RandomForestClassifier(n_estimators=3, max_depth=2)
    else:
        model = LogisticRegression(max_iter=50)
    U = I["utility"]
    util = U.SklearnModelAccuracy(model)
    if case.get("joint"):
        util = U.JointUtility(util, U.SklearnModelAccuracy(KNeighborsClassifier(1)), weights=[0.75, -0.5])
    prov = None
    if case.get("groups") is not None:
        prov = np.array(case["groups"])
    elif case.get("conj") is not None:
        from props.common import conj_prov
        prov = conj_prov(I, case["conj"], case["n_units"])[0]
    kw = dict(case.get("kw", {}))
    imp = I["imp"].ShapleyImportance(method=case["method"], utility=util, **kw)
    perms = None
    if case["method"] == "montecarlo":
        from props.mcutil import RecordingRandomState
        rec = RecordingRandomState(imp.randomstate, case.get("forced"))
        imp.randomstate = rec
    s = np.asarray(imp.fit(X, y, provenance=prov).score(Xv, yv), dtype=float)
    if case["method"] == "montecarlo":
        perms = rec.perms
    return s.tobytes().hex(), perms


if __name__ == "__main__":
    import warnings
    warnings.filterwarnings("ignore")
    import impl
    I = impl.load(sys.argv[1])
    case = json.load(sys.stdin)
    h, perms = build_and_score(I, case)
    print("RESULT " + json.dumps({"hex": h, "perms": perms, "hashseed": os.environ.get("PYTHONHASHSEED")}))
