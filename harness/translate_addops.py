#!/venv/bin/python
"""translate_addops.py — regenerate lean/GenD/Ops.lean from /repo: the array code of the decision diagrams the oracle is built from

    datascope/utility/add.py    ADD.restrict     folding the fixed variable's level into its parent level / moving the root, then deleting the level  (C10 C09 C02)
    datascope/utility/add.py    ADD.modelcount   the backward dynamic programme over levels, nodes, domain values and candidates                      (C10 C09)
    datascope/importance/oracle.py  ShapleyOracle.query   restrict(with, 1) + restrict(without, 0) -> sum -> count-the-target edge -> modelcount -> dict   (C09 C02)

Built on the pure compiler of translate_nbr.py (`PureFn`).  Added here: object fields as variables (`self.nodes` -> `self_nodes`, `result.child` -> `result_child`;
`result = self if inplace else copy.deepcopy(self)` binds every `result_*` to the corresponding `self_*` — the translation is pure, so it is the
`inplace=False` behaviour; with `inplace=True` the reads of `self` after writes to `result` concern another level and see the same values), nested-list
arrays of 2 and 3 dimensions (`Np.getL2/setL2/get3/set3`), an ABSTRACT value type `ν` with the operations `vadd` (`+=`), `vsub` (`e - a`), `is_inf`, `vindex`
(`index(v)`) as parameters, `reversed(range(n))`, `enumerate` over a list of values, `np.delete(a, i, axis=0)`, `list.pop(i)`, `2 ** n`, builtin `sum`.
`self._units_index[unit]` is read as "position of `unit` in `self.units`" — legitimate only while every method that changes `units` rebuilds the dictionary, so
the translator REQUIRES the rebuild statement right after `result.units.pop(idx)` (its absence was defect F16).
"""
import ast
import os
import sys

HERE = os.path.dirname(os.path.abspath(__file__))
sys.path.insert(0, HERE)
from translate import Untranslatable, REPO, VERIF  # noqa: E402
import translate_nbr as T  # noqa: E402
from translate_nbr import PureFn, INT, BOOL, U  # noqa: E402

OUT = os.path.join(VERIF, "lean", "GenD", "Ops.lean")
VAL = "val"


def L1(t):
    return ("arr1", t)


def L2(t):
    return ("l2", t)


def L3(t):
    return ("l3", t)


_lty0 = T.lty


def lty(t):
    if t == VAL:
        return "ν"
    if isinstance(t, tuple) and t[0] == "l2":
        return "(List (List %s))" % lty(t[1])
    if isinstance(t, tuple) and t[0] == "l3":
        return "(List (List (List %s)))" % lty(t[1])
    if isinstance(t, tuple) and t[0] == "arr1":
        return "(List %s)" % lty(t[1])
    if isinstance(t, tuple) and t[0] == "tuple":
        return "(" + " × ".join(lty(x) for x in t[1]) + ")"
    return _lty0(t)


FIELDS = [("units", L1(INT)), ("root", INT), ("nodes", L2(INT)), ("child", L3(INT)), ("adder", L3(VAL))]


class AddFn(PureFn):
    """methods of ADD: `self.<field>` / `result.<field>` are the variables `self_<field>` / `result_<field>`"""

    def field(self, e):
        if isinstance(e, ast.Attribute) and isinstance(e.value, ast.Name) and e.value.id in ("self", "result", "other"):
            return "%s_%s" % (e.value.id, e.attr)
        return None

    def expr(self, e):
        if isinstance(e, ast.BinOp) and isinstance(e.op, ast.Add):
            (a_, ta_), (b_, tb_) = self.expr(e.left), self.expr(e.right)
            if ta_ == VAL and tb_ == VAL:
                return "(vadd %s %s)" % (a_, b_), VAL
        f = self.field(e)
        if f is not None:
            if f in self.env:
                return f, self.env[f]
            raise Untranslatable("unknown field %s" % U(e))
        if isinstance(e, ast.Attribute) and e.attr == "is_inf":
            x, t = self.expr(e.value)
            if t == VAL:
                return "(is_inf %s)" % x, BOOL
        if isinstance(e, ast.BinOp) and isinstance(e.op, ast.Sub):
            (a, ta), (b, tb) = self.expr(e.left), self.expr(e.right)
            if ta == VAL and tb == VAL:
                return "(vsub %s %s)" % (a, b), VAL
        if isinstance(e, ast.BinOp) and isinstance(e.op, ast.Pow):
            a, b = self.int_expr(e.left), self.int_expr(e.right)
            return "(Np.ipow %s %s)" % (a, b), INT
        if isinstance(e, ast.Call) and isinstance(e.func, ast.Name):
            nm = e.func.id
            if nm == "int" and len(e.args) == 1 and not e.keywords:
                return self.int_expr(e.args[0]), INT
            if nm == "index" and len(e.args) == 1 and not e.keywords:
                x, t = self.expr(e.args[0])
                if t == VAL:
                    return "(vindex %s)" % x, INT
            if nm == "sum" and len(e.args) == 1 and not e.keywords:
                x, t = self.expr(e.args[0])
                if t == L1(INT):
                    return "(Np.sumI %s)" % x, INT
            if nm == "len" and len(e.args) == 1 and not e.keywords:
                x, t = self.expr(e.args[0])
                if isinstance(t, tuple) and t[0] == "arr1":
                    return "(Np.len1 %s)" % x, INT
        if isinstance(e, ast.Call) and T.PureFn.np_call(self, e) == "zeros" and len(e.args) == 1 and isinstance(e.args[0], ast.Tuple) and len(e.args[0].elts) == 2:
            kws = {k.arg: U(k.value) for k in e.keywords}
            if kws == {"dtype": "int"}:
                return "(Np.zerosL2 %s %s)" % (self.int_expr(e.args[0].elts[0]), self.int_expr(e.args[0].elts[1])), L2(INT)
        if isinstance(e, ast.Call) and T.PureFn.np_call(self, e) == "delete" and len(e.args) == 2 and {k.arg: U(k.value) for k in e.keywords} == {"axis": "0"}:
            x, t = self.expr(e.args[0])
            if isinstance(t, tuple) and t[0] in ("l2", "l3"):
                return "(Np.deleteAt %s %s)" % (x, self.int_expr(e.args[1])), t
        if isinstance(e, ast.Subscript):
            # a.shape[0] of a 1-D list of values
            if isinstance(e.value, ast.Attribute) and e.value.attr == "shape" and U(e.slice) == "0":
                x, t = self.expr(e.value.value)
                if isinstance(t, tuple) and t[0] == "arr1":
                    return "(Np.len1 %s)" % x, INT
            a, t = self.expr(e.value)
            parts = list(e.slice.elts) if isinstance(e.slice, ast.Tuple) else [e.slice]
            if isinstance(t, tuple) and t[0] == "l3" and len(parts) == 3 and not any(isinstance(p, ast.Slice) for p in parts):
                return "(Np.get3 %s %s %s %s)" % (a, self.int_expr(parts[0]), self.int_expr(parts[1]), self.int_expr(parts[2])), t[1]
            if isinstance(t, tuple) and t[0] == "l2" and len(parts) == 2 and not any(isinstance(p, ast.Slice) for p in parts):
                return "(Np.getL2 %s %s %s)" % (a, self.int_expr(parts[0]), self.int_expr(parts[1])), t[1]
            if isinstance(t, tuple) and t[0] == "l2" and len(parts) == 1 and not isinstance(parts[0], ast.Slice):
                return "(Np.get1 %s %s)" % (a, self.int_expr(parts[0])), L1(t[1])
        return PureFn.expr(self, e)

    def bind(self, name, x, t, ind):
        if name in self.env and self.env[name] != t:
            raise Untranslatable("%s changes type from %r to %r" % (name, self.env[name], t))
        self.env[name] = t
        return "%slet %s : %s := %s\n" % (ind, name, lty(t), x)

    def tupty(self, names):
        return lty(("tuple", tuple(self.env[n] for n in names))) if len(names) > 1 else lty(self.env[names[0]])

    def unpack(self, names, src, ind):
        out = ""
        for k, n in enumerate(names):
            proj = src if len(names) == 1 else src + ".2" * k + ("" if k == len(names) - 1 else ".1")
            out += "%slet %s : %s := %s\n" % (ind, n, lty(self.env[n]), proj)
        return out

    def assigned(self, stmts):
        names = []
        for s in stmts:
            for n in ast.walk(s):
                tg = n.targets if isinstance(n, ast.Assign) else [n.target] if isinstance(n, (ast.AugAssign, ast.AnnAssign)) else []
                for t in tg:
                    for x in (t.elts if isinstance(t, ast.Tuple) else [t]):
                        while isinstance(x, ast.Subscript):
                            x = x.value
                        nm = self.field(x) if isinstance(x, ast.Attribute) else (x.id if isinstance(x, ast.Name) else None)
                        if nm is not None and nm not in names:
                            names.append(nm)
        return names

    def iterable(self, s):
        it, tg = s.iter, s.target
        if isinstance(it, ast.Call) and U(it.func) == "reversed" and len(it.args) == 1 and isinstance(it.args[0], ast.Call) and U(it.args[0].func) == "range" \
                and len(it.args[0].args) == 1 and isinstance(tg, ast.Name):
            return "(Np.range (0 : Int) %s (1 : Int)).reverse" % self.int_expr(it.args[0].args[0]), "(%s : Int)" % tg.id, [(tg.id, INT, None)]
        if isinstance(it, ast.Call) and U(it.func) == "enumerate" and len(it.args) == 1 and not it.keywords and isinstance(tg, ast.Tuple) and len(tg.elts) == 2:
            seq, ts = self.expr(it.args[0])
            if ts == L1(VAL):
                return "(Np.enumerateFrom (0 : Int) %s)" % seq, "(ke_ : Int × ν)", [(tg.elts[0].id, INT, "ke_.1"), (tg.elts[1].id, VAL, "ke_.2")]
        return PureFn.iterable(self, s)

    def store(self, tg, value, op, ind):
        base = tg.value
        arr = self.field(base) if isinstance(base, ast.Attribute) else (base.id if isinstance(base, ast.Name) else None)
        t = self.env.get(arr)
        if t is None:
            raise Untranslatable("store into %s" % U(tg))
        parts = list(tg.slice.elts) if isinstance(tg.slice, ast.Tuple) else [tg.slice]
        v, tv = self.expr(value)
        if isinstance(t, tuple) and t[0] == "l3" and len(parts) == 3 and not any(isinstance(p, ast.Slice) for p in parts):
            i, j, k = [self.int_expr(p) for p in parts]
            if tv != t[1]:
                raise Untranslatable("store of %r into %r" % (tv, t))
            if op is not None:
                if not isinstance(op, ast.Add):
                    raise Untranslatable("augmented store operator")
                v = "(vadd (Np.get3 %s %s %s %s) %s)" % (arr, i, j, k, v) if t[1] == VAL else "((Np.get3 %s %s %s %s) + %s)" % (arr, i, j, k, v)
            return "%slet %s : %s := Np.set3 %s %s %s %s %s\n" % (ind, arr, lty(t), arr, i, j, k, v)
        if isinstance(t, tuple) and t[0] == "l2" and len(parts) == 2:
            if isinstance(parts[0], ast.Slice) and U(parts[0]) == ":" and not isinstance(parts[1], ast.Slice) and op is None and tv == t[1]:
                return "%slet %s : %s := Np.setColL2 %s %s %s\n" % (ind, arr, lty(t), arr, self.int_expr(parts[1]), v)
            if not any(isinstance(p, ast.Slice) for p in parts) and tv == t[1]:
                i, j = [self.int_expr(p) for p in parts]
                if op is not None:
                    if not isinstance(op, ast.Add):
                        raise Untranslatable("augmented store operator")
                    v = "((Np.getL2 %s %s %s) + %s)" % (arr, i, j, v)
                return "%slet %s : %s := Np.setL2 %s %s %s %s\n" % (ind, arr, lty(t), arr, i, j, v)
        if t == L1(INT) and len(parts) == 1 and not isinstance(parts[0], ast.Slice) and op is None and tv == INT:
            return "%slet %s : %s := Np.set1 %s %s %s\n" % (ind, arr, lty(t), arr, self.int_expr(parts[0]), v)
        raise Untranslatable("store %s" % U(tg))

    def stmt(self, s, ind):
        # result.<field> = <expr>
        if isinstance(s, ast.Assign) and len(s.targets) == 1 and self.field(s.targets[0]) is not None:
            x, t = self.expr(s.value)
            return self.bind(self.field(s.targets[0]), x, t, ind)
        if isinstance(s, ast.Assign) and len(s.targets) == 1 and isinstance(s.targets[0], ast.Subscript):
            return self.store(s.targets[0], s.value, None, ind)
        if isinstance(s, ast.AugAssign) and isinstance(s.target, ast.Subscript):
            return self.store(s.target, s.value, s.op, ind)
        return PureFn.stmt(self, s, ind)

    def block(self, stmts, ind, in_loop=None):
        # an `if` whose branches define names that are local to the branch (not read afterwards): handled by dropping the fresh names
        if stmts and isinstance(stmts[0], ast.If) and not any(isinstance(n, (ast.Continue, ast.Return, ast.Break)) for n in ast.walk(stmts[0])):
            s, rest = stmts[0], stmts[1:]
            names_all = self.assigned(list(s.body) + list(s.orelse))
            names = [n for n in names_all if n in self.env]
            fresh = [n for n in names_all if n not in self.env]
            later = {n.id for st in rest for n in ast.walk(st) if isinstance(n, ast.Name)}
            if fresh and not (set(fresh) & later) and names:
                c = self.bool_expr(s.test)

                def branch(bs):
                    saved = dict(self.env)
                    txt = self.seq(list(bs), ind + "    ", None)
                    self.env = saved
                    return txt + "%s    %s\n" % (ind, self.tup(names))
                ta, tb = branch(s.body), branch(s.orelse)
                out = "%slet ite_ : %s :=\n%s  if %s then\n%s%s  else\n%s" % (ind, self.tupty(names), ind, c, ta, ind, tb)
                out += self.unpack(names, "ite_", ind)
                return out + self.block(rest, ind, in_loop)
        return PureFn.block(self, stmts, ind, in_loop)


class RestrictFn(AddFn):
    COPY = "result = self if inplace else copy.deepcopy(self)"
    IDX = "idx = self._units_index[unit]"
    POP = "result.units.pop(idx)"
    REINDEX = "result._units_index = dict(((u, i) for i, u in enumerate(result.units)))"

    def special(self, s, ind):
        u = U(s)
        if u == self.COPY:
            out = ""
            for f, t in FIELDS:
                out += self.bind("result_" + f, "self_" + f, t, ind)
            self.notes.append("`result = self if inplace else copy.deepcopy(self)`: translated as a copy (the translation is pure)")
            return out
        if u == self.IDX:
            self.notes.append("`self._units_index[unit]` read as the position of `unit` in `self.units` (unit present: otherwise KeyError)")
            return self.bind("idx", "(Np.indexOf self_units unit)", INT, ind)
        if u == self.POP:
            self.popped = True
            return self.bind("result_units", "(Np.deleteAt result_units idx)", L1(INT), ind)
        if u == self.REINDEX:
            if not getattr(self, "popped", False):
                raise Untranslatable("the unit index is rebuilt before the unit is removed")
            self.reindexed = True
            return ""
        if u == "return result":
            self.ret = ("tuple", tuple(t for _, t in FIELDS))
            return None
        return None

    def block(self, stmts, ind, in_loop=None):
        if stmts and U(stmts[0]) == "return result" and in_loop is None:
            if not getattr(self, "reindexed", False):
                raise Untranslatable("`result._units_index` is not rebuilt after `result.units.pop(idx)` (stale unit index)")
            self.ret = ("tuple", tuple(t for _, t in FIELDS))
            return "%s(%s)\n" % (ind, ", ".join("result_" + f for f, _ in FIELDS))
        return AddFn.block(self, stmts, ind, in_loop)


def method(tree, cls_name, name):
    cls = next((n for n in tree.body if isinstance(n, ast.ClassDef) and n.name == cls_name), None)
    fn = next((n for n in (cls.body if cls else []) if isinstance(n, ast.FunctionDef) and n.name == name), None)
    if fn is None:
        raise Untranslatable("%s.%s not found" % (cls_name, name))
    return fn


SELF_PARAMS = [("self_" + f, t) for f, t in FIELDS]
OPS = "(vadd : ν → ν → ν) (vsub : ν → ν → ν) (is_inf : ν → Bool) (vindex : ν → Int)"


def emit(f, doc, extra_sig=""):
    f.ret = None
    body = f.block([s for s in f.node.body], "  ")
    ps = ["(%s : %s)" % (n, lty(t)) for n, t in f.params]
    return "/-- %s -/\ndef %s {ν : Type} [Inhabited ν] %s %s%s : %s :=\n%s" % (doc, f.lean_name, OPS, extra_sig, " ".join(ps), lty(f.ret), body)


def gen_restrict(tree):
    fn = method(tree, "ADD", "restrict")
    if [a.arg for a in fn.args.args] != ["self", "unit", "value", "inplace"]:
        raise Untranslatable("signature of ADD.restrict")
    params = SELF_PARAMS + [("self_diameter", INT), ("self_num_candidates", INT), ("unit", INT), ("value", INT)]
    f = RestrictFn(fn, params, lean_name="add_restrict")
    return emit(f, "translated from `ADD.restrict` (returns the fields units, root, nodes, child, adder of the result)"), f


class ModelcountFn(AddFn):
    DOMAIN = "adomain = np.array(list(self.atype.domain()), dtype=self.atype)"

    def special(self, s, ind):
        if U(s) == self.DOMAIN:
            self.env["adomain"] = L1(VAL)
            self.saw_domain = True
            return ""
        return None


def gen_modelcount(tree):
    fn = method(tree, "ADD", "modelcount")
    if [a.arg for a in fn.args.args] != ["self"]:
        raise Untranslatable("signature of ADD.modelcount")
    params = [("adomain", L1(VAL))] + SELF_PARAMS + [("self_diameter", INT), ("self_num_candidates", INT)]
    f = ModelcountFn(fn, params, lean_name="add_modelcount")
    del f.env["adomain"]
    txt = emit(f, "translated from `ADD.modelcount` (`adomain` = `list(self.atype.domain())`)")
    if not getattr(f, "saw_domain", False):
        raise Untranslatable("the domain is not enumerated by `self.atype.domain()`")
    return txt, f


DICT = "pairdict"
_lty_base = lty


def lty3(t):
    if t == DICT:
        return "(List ((Int × Int) × Int))"
    if isinstance(t, tuple) and t[0] == "tuple":
        return "(" + " × ".join(lty3(x) for x in t[1]) + ")"
    return _lty_base(t)


class SumFn(AddFn):
    """ADD.sum: the product construction; the two dictionaries `pnodes` / `cnodes` ((node of self, node of other) -> node of the result) are insertion-ordered
    association lists, `d.setdefault(key, len(d))` is `Np.setdefault`"""
    NEW = "result = ADD(self.units, self.num_candidates, self.diameter * other.diameter, self.atype)"
    FIELDS6 = FIELDS + [("diameter", INT)]

    def special(self, s, ind):
        u = U(s)
        if u == self.NEW:
            n, d, c = "(Np.len1 self_units)", "(self_diameter * other_diameter)", "self_num_candidates"
            out = self.bind("result_units", "self_units", L1(INT), ind) + self.bind("result_root", "(0 : Int)", INT, ind)
            out += self.bind("result_diameter", d, INT, ind)
            out += self.bind("result_nodes", "(Np.zerosL2 %s %s)" % (n, d), L2(INT), ind)
            out += self.bind("result_child", "(Np.full3 %s %s %s (0 : Int))" % (n, d, c), L3(INT), ind)
            out += self.bind("result_adder", "(Np.full3 %s %s %s vzero)" % (n, d, c), L3(VAL), ind)
            self.notes.append("`ADD(units, num_candidates, diameter, atype)`: root 0, nodes and child arrays of zeros, every edge value `atype(0)` (parameter `vzero`)")
            return out
        if isinstance(s, ast.AnnAssign) and isinstance(s.target, ast.Name) and s.target.id in ("pnodes", "cnodes"):
            if U(s.value) == "{}":
                return self.bind(s.target.id, "[]", DICT, ind)
            if U(s.value) == "{(self.root, other.root): 0}":
                return self.bind(s.target.id, "[((self_root, other_root), (0 : Int))]", DICT, ind)
            raise Untranslatable("dictionary literal %s" % U(s.value))
        if u == "cnodes = {}":
            return self.bind("cnodes", "[]", DICT, ind)
        if isinstance(s, ast.Assign) and isinstance(s.value, ast.Call) and U(s.value.func) == "cnodes.setdefault" and isinstance(s.targets[0], ast.Name):
            a = s.value.args
            if len(a) != 2 or U(a[1]) != "len(cnodes)" or not (isinstance(a[0], ast.Tuple) and len(a[0].elts) == 2):
                raise Untranslatable("setdefault form")
            k1, k2 = self.int_expr(a[0].elts[0]), self.int_expr(a[0].elts[1])
            out = "%slet sd_ := Np.setdefault cnodes (%s, %s)\n" % (ind, k1, k2)
            return out + self.bind("cnodes", "sd_.1", DICT, ind) + self.bind(s.targets[0].id, "sd_.2", INT, ind)
        return None

    def expr(self, e):
        if isinstance(e, ast.Name) and self.env.get(e.id) == DICT:
            return e.id, DICT
        return AddFn.expr(self, e)

    def bind(self, name, x, t, ind):
        if name in self.env and self.env[name] != t:
            raise Untranslatable("%s changes type from %r to %r" % (name, self.env[name], t))
        self.env[name] = t
        return "%slet %s : %s := %s\n" % (ind, name, lty3(t), x)

    def tupty(self, names):
        return lty3(("tuple", tuple(self.env[n] for n in names))) if len(names) > 1 else lty3(self.env[names[0]])

    def unpack(self, names, src, ind):
        out = ""
        for k, n in enumerate(names):
            proj = src if len(names) == 1 else src + ".2" * k + ("" if k == len(names) - 1 else ".1")
            out += "%slet %s : %s := %s\n" % (ind, n, lty3(self.env[n]), proj)
        return out

    def stmt(self, s, ind):
        if isinstance(s, ast.Assign) and len(s.targets) == 1 and isinstance(s.targets[0], ast.Name) and isinstance(s.value, ast.Name) and self.env.get(s.value.id) == DICT:
            return self.bind(s.targets[0].id, s.value.id, DICT, ind)
        return AddFn.stmt(self, s, ind)

    def assigned(self, stmts):
        names = AddFn.assigned(self, stmts)
        for st in stmts:
            for n in ast.walk(st):
                if isinstance(n, ast.Call) and isinstance(n.func, ast.Attribute) and n.func.attr == "setdefault" and isinstance(n.func.value, ast.Name) \
                        and n.func.value.id not in names:
                    names.append(n.func.value.id)          # `d.setdefault(...)` may insert: d is loop-carried state
        return names

    def iterable(self, s):
        it, tg = s.iter, s.target
        if U(it) == "pnodes.items()" and U(tg) == "((i, j), k)":
            return "pnodes", "(kv_ : (Int × Int) × Int)", [("i", INT, "kv_.1.1"), ("j", INT, "kv_.1.2"), ("k", INT, "kv_.2")]
        return AddFn.iterable(self, s)

    def block(self, stmts, ind, in_loop=None):
        if stmts and U(stmts[0]) == "return result" and in_loop is None:
            self.ret = ("tuple", tuple(t for _, t in self.FIELDS6))
            return "%s(%s)\n" % (ind, ", ".join("result_" + f for f, _ in self.FIELDS6))
        return AddFn.block(self, stmts, ind, in_loop)


def gen_sum(tree):
    fn = method(tree, "ADD", "sum")
    if [a.arg for a in fn.args.args] != ["self", "other"]:
        raise Untranslatable("signature of ADD.sum")
    params = SELF_PARAMS + [("self_diameter", INT), ("self_num_candidates", INT)] + [("other_" + f, t) for f, t in FIELDS if f in ("root", "child", "adder")] + [("other_diameter", INT)]
    f = SumFn(fn, params, lean_name="add_sum")
    f.ret = None
    T.lty = lty3
    try:
        body = f.block([s for s in fn.body], "  ")
    finally:
        T.lty = lty
    ps = ["(%s : %s)" % (n, lty3(t)) for n, t in f.params]
    txt = ("/-- translated from `ADD.sum` (returns the fields units, root, nodes, child, adder, diameter of the result; the asserted preconditions `self.units == other.units`,\n"
           "`self.num_candidates == other.num_candidates` are hypotheses of the theorems) -/\n"
           "def add_sum {ν : Type} [Inhabited ν] (vadd : ν → ν → ν) (vzero : ν) %s : %s :=\n%s" % (" ".join(ps), lty3(f.ret), body))
    return txt, f


DIAG, LOC, OPTI = "diag", "loc", T.OPTI
_lty1 = lty


def lty2(t):
    if t == DIAG:
        return "δ"
    if t == LOC:
        return "ℓ"
    if t == ("dict", DIAG):
        return "(List ((Option Int) × δ))"
    if isinstance(t, tuple) and t[0] == "arr1" and t[1] == LOC:
        return "(List ℓ)"
    if isinstance(t, tuple) and t[0] == "tuple":
        return "(" + " × ".join(lty2(x) for x in t[1]) + ")"
    return _lty1(t)


class OracleInitFn(AddFn):
    """ShapleyOracle.__init__: the boundary diagrams.  Diagram objects (`δ`), update locations (`ℓ`) and tally values (`ν`) are abstract; the diagram methods
    are parameters: `update d loc v increment`, `get_unit_location d unit` (= `d.get_update_location(units=[unit], values=[0])`), `mk_tally size with without`
    (= `atype(size, with, without)`), `tally_inf` (= `atype(None)`), `boundary_units t` (= the units of row t: `provenance.data[t, 0, :, 0]` without padding)."""
    COMPILE = "self._add, locations = compile(provenance=provenance, atype=atype)"
    SKIP = ("self._provenance = provenance", "self._atype = atype")
    EYE = "tuple(np.eye(atype.numclasses, dtype=int)[labels[tt]])"
    ZEROS = "(0,) * atype.numclasses"
    BUNITS = "list(filter(lambda x: x != -1, provenance.data[t, 0, :, 0]))"

    def field(self, e):
        if isinstance(e, ast.Attribute) and isinstance(e.value, ast.Name) and e.value.id == "self":
            return "self" + e.attr            # self._add -> self_add
        return None

    def expr(self, e):
        u = U(e)
        if u == "len(provenance)":
            return "n_rows", INT
        if u == "atype.numclasses":
            return "numclasses", INT
        if u == self.EYE:
            return "(Np.eyeRow numclasses (Np.get1 labels tt))", L1(INT)
        if u == self.ZEROS:
            return "(Np.rep (0 : Int) numclasses)", L1(INT)
        if u == self.BUNITS:
            if self.env.get("t") != OPTI:
                raise Untranslatable("boundary units outside the loop over boundary rows")
            return "(boundary_units (t.getD 0))", L1(INT)
        if u == "deepcopy(self._add)":
            return "self_add", DIAG
        if u == "atype(None)":
            return "tally_inf", VAL
        if isinstance(e, ast.Call) and U(e.func) == "atype" and len(e.args) == 3 and not e.keywords:
            a = self.int_expr(e.args[0])
            (w, tw), (wo, two) = self.expr(e.args[1]), self.expr(e.args[2])
            if tw != L1(INT) or two != L1(INT):
                raise Untranslatable("atype(...) arguments")
            return "(mk_tally %s %s %s)" % (a, w, wo), VAL
        if isinstance(e, ast.Call) and U(e.func) == "self._add.get_update_location":
            kws = {k.arg: k.value for k in e.keywords}
            if e.args or set(kws) != {"units", "values"} or U(kws["values"]) != "[0]" or not (isinstance(kws["units"], ast.List) and len(kws["units"].elts) == 1):
                raise Untranslatable("get_update_location arguments")
            return "(get_unit_location self_add %s)" % self.int_expr(kws["units"].elts[0]), LOC
        if isinstance(e, ast.Subscript) and isinstance(e.value, ast.Name) and self.env.get(e.value.id) == L1(LOC):
            return "(Np.get1 %s %s)" % (e.value.id, self.int_expr(e.slice)), LOC
        if isinstance(e, ast.Subscript) and isinstance(e.value, ast.Name) and self.env.get(e.value.id) == T.A1(T.FLT) and isinstance(e.slice, ast.Name) \
                and self.env.get(e.slice.id) == OPTI:
            return "(Np.get1 %s (%s.getD 0))" % (e.value.id, e.slice.id), T.FLT        # reached only where `t is None` has been excluded (short-circuit `or`)
        return AddFn.expr(self, e)

    def update_call(self, s):
        """`<diagram variable>.update(location=…, avalue=…[, increment=True])` -> (variable, lean text)"""
        if isinstance(s, ast.Expr) and isinstance(s.value, ast.Call) and isinstance(s.value.func, ast.Attribute) and s.value.func.attr == "update" \
                and isinstance(s.value.func.value, ast.Name) and self.env.get(s.value.func.value.id) == DIAG:
            kws = {k.arg: k.value for k in s.value.keywords}
            if s.value.args or not {"location", "avalue"} <= set(kws) or set(kws) - {"location", "avalue", "increment"}:
                raise Untranslatable("update arguments")
            loc, tl = self.expr(kws["location"])
            v, tv = self.expr(kws["avalue"])
            inc = U(kws["increment"]) if "increment" in kws else "False"
            if tl != LOC or tv != VAL or inc not in ("True", "False"):
                raise Untranslatable("update argument types")
            var = s.value.func.value.id
            return var, "(update %s %s %s %s)" % (var, loc, v, inc.lower())
        return None

    def assigned(self, stmts):
        names = AddFn.assigned(self, stmts)
        for st in stmts:
            for n in ast.walk(st):
                if isinstance(n, ast.Expr) and isinstance(n.value, ast.Call) and isinstance(n.value.func, ast.Attribute) and n.value.func.attr == "update" \
                        and isinstance(n.value.func.value, ast.Name) and n.value.func.value.id not in names:
                    names.append(n.value.func.value.id)
        return names

    def special(self, s, ind):
        u = U(s)
        if u in self.SKIP:
            return ""
        if u == self.COMPILE:
            self.env["self_add"], self.env["locations"] = DIAG, L1(LOC)
            return ""
        if isinstance(s, ast.AnnAssign) and self.field(s.target) in ("self_add_with", "self_add_without") and U(s.value) == "{}":
            return self.bind(self.field(s.target), "[]", ("dict", DIAG), ind)
        uc = self.update_call(s)
        if uc is not None:
            return self.bind(uc[0], uc[1], DIAG, ind)
        # self._add_with[t] = boundary_add_with
        if isinstance(s, ast.Assign) and isinstance(s.targets[0], ast.Subscript) and self.field(s.targets[0].value) in ("self_add_with", "self_add_without"):
            d = self.field(s.targets[0].value)
            k, tk = self.expr(s.targets[0].slice)
            v, tv = self.expr(s.value)
            if tk != OPTI or tv != DIAG:
                raise Untranslatable("dictionary store %s" % u)
            return self.bind(d, "(%s ++ [(%s, %s)])" % (d, k, v), ("dict", DIAG), ind)
        return None

    def bind(self, name, x, t, ind):
        if name in self.env and self.env[name] != t:
            raise Untranslatable("%s changes type from %r to %r" % (name, self.env[name], t))
        self.env[name] = t
        return "%slet %s : %s := %s\n" % (ind, name, lty2(t), x)

    def tupty(self, names):
        return lty2(("tuple", tuple(self.env[n] for n in names))) if len(names) > 1 else lty2(self.env[names[0]])

    def unpack(self, names, src, ind):
        out = ""
        for k, n in enumerate(names):
            proj = src if len(names) == 1 else src + ".2" * k + ("" if k == len(names) - 1 else ".1")
            out += "%slet %s : %s := %s\n" % (ind, n, lty2(self.env[n]), proj)
        return out

    def iterable(self, s):
        it, tg = s.iter, s.target
        if U(it) == "chain(range(len(provenance)), [None])" and isinstance(tg, ast.Name):
            return "(Np.chainNone (Np.range (0 : Int) n_rows (1 : Int)))", "(%s : Option Int)" % tg.id, [(tg.id, OPTI, None)]
        if isinstance(it, ast.Name) and self.env.get(it.id) == L1(INT) and isinstance(tg, ast.Name):
            return it.id, "(%s : Int)" % tg.id, [(tg.id, INT, None)]
        return AddFn.iterable(self, s)

    def block(self, stmts, ind, in_loop=None):
        # `if <test>:` (no else) whose body only re-binds existing diagram variables / defines branch-local names
        if stmts and isinstance(stmts[0], ast.If) and not stmts[0].orelse and not any(isinstance(n, (ast.Continue, ast.Return, ast.Break)) for n in ast.walk(stmts[0])):
            s, rest = stmts[0], stmts[1:]
            names = [n for n in self.assigned(list(s.body)) if n in self.env]
            if names:
                c = self.bool_expr(s.test)
                saved = dict(self.env)
                txt = self.seq(list(s.body), ind + "    ", in_loop)
                self.env = saved
                out = "%slet ite_ : %s :=\n%s  if %s then\n%s%s    %s\n%s  else\n%s    %s\n" % (ind, self.tupty(names), ind, c, txt, ind, self.tup(names), ind, ind, self.tup(names))
                out += self.unpack(names, "ite_", ind)
                return out + self.block(rest, ind, in_loop)
        if not stmts and in_loop is None:
            self.ret = ("tuple", (("dict", DIAG), ("dict", DIAG)))
            return "%s(self_add_with, self_add_without)\n" % ind
        return AddFn.block(self, stmts, ind, in_loop)

    def seq(self, stmts, ind, in_loop):
        out = ""
        for s in stmts:
            sp = self.special(s, ind)
            if sp is not None:
                out += sp
            elif isinstance(s, ast.For):
                out += self.loop(s, [], in_loop, ind)
            elif isinstance(s, ast.If):
                raise Untranslatable("nested `if` inside a branch")
            else:
                out += self.stmt(s, ind)
        return out


def gen_oracle_init(repo):
    tree = ast.parse(open(os.path.join(repo, "datascope/importance/oracle.py")).read())
    fn = method(tree, "ShapleyOracle", "__init__")
    if [a.arg for a in fn.args.args] != ["self", "provenance", "labels", "distances", "atype"]:
        raise Untranslatable("signature of ShapleyOracle.__init__")
    params = [("labels", L1(INT)), ("distances", T.A1(T.FLT))]
    f = OracleInitFn(fn, params, lean_name="oracle_init")
    f.ret = None
    T.lty = lty2
    try:
        body = f.block([s for s in fn.body if not (isinstance(s, ast.Expr) and isinstance(s.value, ast.Constant))], "  ")
    finally:
        T.lty = lty
    if f.env.get("self_add") != DIAG:
        raise Untranslatable("the provenance is not compiled by `compile(provenance=provenance, atype=atype)`")
    sig = ("{δ ν ℓ α : Type} [Inhabited ℓ] [Inhabited α] [LE α] [DecidableRel (α := α) (· ≤ ·)] (update : δ → ℓ → ν → Bool → δ) (get_unit_location : δ → Int → ℓ) "
           "(mk_tally : Int → (List Int) → (List Int) → ν) (tally_inf : ν) (boundary_units : Int → (List Int)) (self_add : δ) (locations : (List ℓ)) "
           "(n_rows : Int) (numclasses : Int) (labels : (List Int)) (distances : (List α))")
    return ("/-- translated from `ShapleyOracle.__init__`: the cached boundary diagrams `_add_with[t]`, `_add_without[t]` for every boundary row `t` and for `None`, as lists of\n"
            "(key, diagram) pairs in insertion order.  `self_add`, `locations` = what `compile(provenance, atype)` returned. -/\n"
            "def oracle_init %s : %s :=\n%s" % (sig, lty2(f.ret), body)), f


UPDATE = ["if increment:\n    self.adder[tuple(zip(*location))] += avalue\nelse:\n    self.adder[tuple(zip(*location))] = np.array([copy.deepcopy(avalue) for _ in range(len(location))])"]
CHAIN = ["d = ADD(units=units, num_candidates=num_candidates, diameter=1, atype=atype)", "d.nodes = np.ones((len(units), 1), dtype=int)", "return d"]
UPDATE_LEAN = """/-- translated from `ADD.update` (template): NumPy fancy indexing with the list of `(level, node, candidate)` triples — `a[idx] += v` READS the original entries, adds `v` and
writes them back (an entry listed twice is incremented once), `a[idx] = [v, …]` writes `v` -/
def add_update {ν : Type} [Inhabited ν] (vadd : ν → ν → ν) (self_adder : (List (List (List ν)))) (location : List (Int × Int × Int)) (avalue : ν) (increment : Bool) :
    (List (List (List ν))) :=
  if increment then Np.fancyAdd3 vadd self_adder location avalue else Np.fancySet3 self_adder location avalue

/-- translated from `ADD.construct_chain` (template): `ADD(units, num_candidates, diameter=1, atype)` with every node of the single column existing — the fields
`(units, root, nodes, child, adder, diameter)` -/
def construct_chain {ν : Type} (vzero : ν) (units : List Int) (num_candidates : Int) :
    ((List Int) × Int × (List (List Int)) × (List (List (List Int))) × (List (List (List ν))) × Int) :=
  (units, (0 : Int), Np.full2L (Np.len1 units) (1 : Int) (1 : Int), Np.full3 (Np.len1 units) (1 : Int) num_candidates (0 : Int),
   Np.full3 (Np.len1 units) (1 : Int) num_candidates vzero, (1 : Int))
"""


CONCAT = ["assert all((e.num_candidates == elements[0].num_candidates for e in elements))",
          "diameter = max((x.diameter for x in elements))",
          "units: List[int] = sum([x.units for x in elements], [])",
          "atype = elements[0].atype",
          "result = ADD(units=units, diameter=diameter, atype=atype)",
          "result.root = elements[0].root",
          "margins = [diameter - x.diameter for x in elements]",
          "np.concatenate([np.pad(x.nodes, [(0, 0), (0, margins[i])]) for i, x in enumerate(elements)], out=result.nodes)",
          "np.concatenate([np.pad(x.child, [(0, 0), (0, margins[i]), (0, 0)]) for i, x in enumerate(elements)], out=result.child)",
          "np.concatenate([np.pad(x.adder, [(0, 0), (0, margins[i]), (0, 0)], constant_values=atype(0)) for i, x in enumerate(elements)], out=result.adder)",
          "idx = -1",
          "for i in range(len(elements) - 1):\n    idx += len(elements[i].units)\n    selector = result.nodes[idx].astype('bool')\n    result.child[idx, selector, :] = elements[i + 1].root",
          "return result"]
CONCAT_LEAN = """/-- the fields `(units, root, nodes, child, adder, diameter)` of a diagram object -/
abbrev Fld (ν : Type) := (List Int) × Int × (List (List Int)) × (List (List (List Int))) × (List (List (List ν))) × Int

/-- translated from `ADD.concatenate` (template; at least one element, all with `num_candidates` candidates — the result object is created with the constructor's default of 2
candidates, so `np.concatenate(..., out=result.child)` only succeeds for 2): the elements' levels one after the other, every level padded on the node axis to the largest
diameter (`np.pad`: nodes / children 0, edge values `atype(0)`), then the existing nodes of each element's LAST level re-routed to the root of the NEXT element -/
def add_concatenate {ν : Type} [Inhabited ν] (vzero : ν) (num_candidates : Int) (elements : List (Fld ν)) : Fld ν :=
  let diameter : Int := (elements.map (fun x => x.2.2.2.2.2)).foldl Np.imax (elements.headD default).2.2.2.2.2
  let units : List Int := (elements.map (fun x => x.1)).flatten
  let result_root : Int := (elements.headD default).2.1
  let margins : List Int := elements.map (fun x => diameter - x.2.2.2.2.2)
  let result_nodes : List (List Int) := ((Np.enumerateFrom (0 : Int) elements).map (fun ix => Np.padNodeAxis ix.2.2.2.1 (Np.get1 margins ix.1) (0 : Int))).flatten
  let result_child : List (List (List Int)) :=
    ((Np.enumerateFrom (0 : Int) elements).map (fun ix => Np.padNodeAxis ix.2.2.2.2.1 (Np.get1 margins ix.1) (Np.rep (0 : Int) num_candidates))).flatten
  let result_adder : List (List (List ν)) :=
    ((Np.enumerateFrom (0 : Int) elements).map (fun ix => Np.padNodeAxis ix.2.2.2.2.2.1 (Np.get1 margins ix.1) (Np.rep vzero num_candidates))).flatten
  let idx : Int := (-1 : Int)
  let st_ : Int × (List (List (List Int))) := (Np.range (0 : Int) (Np.len1 elements - (1 : Int)) (1 : Int)).foldl (fun (st_ : Int × (List (List (List Int)))) (i : Int) =>
      let idx : Int := st_.1
      let result_child : List (List (List Int)) := st_.2
      let idx : Int := idx + Np.len1 (Np.get1 elements i).1
      let selector : List Bool := (Np.get1 result_nodes idx).map (fun x => x != (0 : Int))
      let result_child : List (List (List Int)) := Np.setRowsWhere result_child idx selector (Np.get1 elements (i + (1 : Int))).2.1
      (idx, result_child)) (idx, result_child)
  let result_child : List (List (List Int)) := st_.2
  (units, result_root, result_nodes, result_child, result_adder, diameter)
"""


STACK = ["num_candidates = next(iter(elements.values())).num_candidates",
         "if len(elements) != num_candidates ** len(factors):\n    raise ValueError('Given %d factors, the number of elements has to be exactly %d.' % (len(factors), num_candidates ** (len(factors) + 1)))",
         "diameter = sum((x.diameter for x in elements.values()))",
         "units: List[int] = factors + next(iter(elements.values())).units",
         "atype = next(iter(elements.values())).atype",
         "result = ADD(units=units, diameter=diameter, atype=atype)",
         "elements_list: List['ADD'] = []",
         "for value in product(*[list(range(num_candidates)) for _ in range(len(factors))]):\n    e = elements.get(value, None)\n    if e is None:\n        raise ValueError('Element for valuation %s not provided.' % str(value))\n    elements_list.append(e)",
         "for i in range(len(factors) - 1):\n    result.nodes[i, :num_candidates ** i] = np.ones(num_candidates ** i, dtype=int)\n    for c in range(num_candidates):\n        result.child[i, :2 ** i, c] = np.arange(c, num_candidates ** (i + 1) + c, 2, dtype=int)",
         "result.nodes[len(factors) - 1, :num_candidates ** (len(factors) - 1)] = 1",
         "offsets = np.zeros(len(elements_list), dtype=int)",
         "np.cumsum([elements_list[i].diameter for i in range(len(elements_list) - 1)], out=offsets[1:])",
         "roots = np.array([elements_list[i].root for i in range(len(elements_list))], dtype=int) + offsets",
         "nf = len(factors)",
         "ne = len(elements)",
         "for c in range(num_candidates):\n    result.child[nf - 1, :num_candidates ** (nf - 1), c] = [roots[i] for i in range(ne) if i % num_candidates == c]",
         "np.concatenate([x.nodes for x in elements_list], axis=1, out=result.nodes[len(factors):])",
         "np.concatenate([x.child + offsets[i] for i, x in enumerate(elements_list)], axis=1, out=result.child[len(factors):])",
         "np.concatenate([x.adder for x in elements_list], axis=1, out=result.adder[len(factors):])",
         "return result"]
STACK_LEAN = """/-- translated from `ADD.stack` (template).  `elements_list` = the dictionary's elements looked up in `itertools.product` order of the factor valuation (the loop that builds
the list; the dictionary is taken to hold exactly those valuations, inserted in that order — what `compile` passes — so that `len(elements) = len(elements_list)` and
`next(iter(elements.values()))` is its first entry); `num_candidates` = that first element's.  The result object is created with the constructor's default of 2 candidates (the
literal `2` below); the header's child columns are written through `: 2 ** i` and `np.arange(c, …, 2)` AS WRITTEN (they fit only for 2 candidates); a slice bound
`num_candidates ** (len(factors) - 1)` with no factor is a float (TypeError); NumPy's shape rules for slice assignment and `np.concatenate(..., out=)` are in the vocabulary. -/
def add_stack {ν : Type} [Inhabited ν] (vzero : ν) (factors : List Int) (elements_list : List (Fld ν)) (num_candidates : Int) : Except String (Fld ν) := do
  if Np.len1 elements_list != Np.ipow num_candidates (Np.len1 factors) then throw "ValueError"
  let diameter : Int := Np.sumI (elements_list.map (fun x => x.2.2.2.2.2))
  let units : List Int := factors ++ (elements_list.headD default).1
  let result_nodes : List (List Int) := Np.full2L (Np.len1 units) diameter (0 : Int)
  let result_child : List (List (List Int)) := Np.full3 (Np.len1 units) diameter (2 : Int) (0 : Int)
  let result_adder : List (List (List ν)) := Np.full3 (Np.len1 units) diameter (2 : Int) vzero
  let st_ ← (Np.range (0 : Int) (Np.len1 factors - (1 : Int)) (1 : Int)).foldlM (fun (st_ : (List (List Int)) × (List (List (List Int)))) (i : Int) => do
      let result_nodes ← Np.assignRowPrefix st_.1 i (Np.ipow num_candidates i) (Np.rep (1 : Int) (Np.ipow num_candidates i))
      let result_child ← (Np.range (0 : Int) num_candidates (1 : Int)).foldlM (fun (result_child : List (List (List Int))) (c : Int) =>
          Np.assignColPrefix result_child (2 : Int) i (Np.ipow (2 : Int) i) c (Np.range c (Np.ipow num_candidates (i + (1 : Int)) + c) (2 : Int))) st_.2
      pure (result_nodes, result_child)) (result_nodes, result_child)
  let result_nodes : List (List Int) := st_.1
  let result_child : List (List (List Int)) := st_.2
  let top ← Np.powBound num_candidates (Np.len1 factors - (1 : Int))
  let result_nodes ← Np.assignRowPrefix result_nodes (Np.len1 factors - (1 : Int)) top [(1 : Int)]
  let offsets : List Int := (0 : Int) :: Np.cumsumI ((elements_list.map (fun x => x.2.2.2.2.2)).dropLast)
  let roots : List Int := List.zipWith (fun (x : Fld ν) (o : Int) => x.2.1 + o) elements_list offsets
  let nf : Int := Np.len1 factors
  let ne : Int := Np.len1 elements_list
  let result_child ← (Np.range (0 : Int) num_candidates (1 : Int)).foldlM (fun (result_child : List (List (List Int))) (c : Int) =>
      Np.assignColPrefix result_child (2 : Int) (nf - (1 : Int)) top c
        (((Np.range (0 : Int) ne (1 : Int)).filter (fun i => i % num_candidates == c)).map (fun i => Np.get1 roots i))) result_child
  let result_nodes ← Np.concatAxis1Into (fun _ => true) result_nodes nf (elements_list.map (fun x => x.2.2.1))
  let result_child ← Np.concatAxis1Into (fun (nd : List Int) => nd.length == 2) result_child nf
      ((Np.enumerateFrom (0 : Int) elements_list).map (fun ix => Np.addAll3 ix.2.2.2.2.1 (Np.get1 offsets ix.1)))
  let result_adder ← Np.concatAxis1Into (fun (nd : List ν) => nd.length == 2) result_adder nf (elements_list.map (fun x => x.2.2.2.2.1))
  pure (units, (0 : Int), result_nodes, result_child, result_adder, diameter)
"""


def gen_stack(tree):
    fn = method(tree, "ADD", "stack")
    got = [U(st) for st in fn.body if not (isinstance(st, ast.Expr) and isinstance(st.value, ast.Constant))]
    if got != STACK:
        diff = next((g for g, w in zip(got, STACK) if g != w), "statement count %d != %d" % (len(got), len(STACK)))
        raise Untranslatable("ADD.stack does not match the template: %s" % str(diff)[:160])
    init = method(tree, "ADD", "__init__")
    if "num_candidates: int=2" not in U(init.args) and "num_candidates: int = 2" not in U(init.args):
        raise Untranslatable("default of ADD.__init__(num_candidates) is not 2")
    if "self.root = 0" not in [U(st) for st in init.body]:
        raise Untranslatable("ADD.__init__ does not set root = 0")
    return STACK_LEAN


GETLOC = ["assignment = sorted(zip(units, values), key=lambda x: self._units_index[x[0]])",
          "if len(assignment) == 0:\n    raise ValueError('At one value assignment must be provided.')\nelif len(assignment) == 1:\n    unit, value = assignment[0]\n    cur_unit_idx = self._units_index[unit]\n    cur_nodes = set(self.nodes[cur_unit_idx].nonzero()[0].tolist())\nelif len(assignment) > 1:\n    cur_unit_idx = 0\n    cur_nodes = {self.root}",
          "cur_location: List[Tuple] = []",
          "for unit, value in assignment:\n    while self.units[cur_unit_idx] != unit:\n        cur_nodes = set(self.child[cur_unit_idx, list(cur_nodes)].flatten())\n        cur_unit_idx += 1\n    cur_location = [(cur_unit_idx, node, value) for node in cur_nodes]\n    cur_nodes = set(self.child[cur_unit_idx, list(cur_nodes), value].flatten())\n    cur_unit_idx += 1",
          "return cur_location"]
GETLOC_LEAN = """/-- translated from `ADD.get_update_location` (template).  Python `set`s of node numbers are kept as sorted duplicate-free lists (`Np.pySet`): the ORDER in which the
returned list enumerates the last set is CPython's hash order, which no caller depends on (`update` writes each listed edge once — `TIED_update` needs `Nodup` only);
`self._units_index[u]` of an unknown unit raises KeyError (`sorted` evaluates the key of every pair); the `while` loop (which ends in IndexError when it runs off the unit list)
is unrolled with `len(units) + 1` steps of fuel; every array access is bounds-checked (`Np.getE`, `Np.rowsFlatE`, `Np.colsE`). -/
def add_get_update_location (self_units : List Int) (self_root : Int) (self_nodes : List (List Int)) (self_child : List (List (List Int))) (self_num_candidates : Int)
    (units values : List Int) : Except String (List (Int × Int × Int)) := do
  let keyed ← (List.zip units values).mapM (fun (uv : Int × Int) =>
      if self_units.contains uv.1 then (pure (Np.indexOf self_units uv.1, uv) : Except String (Int × Int × Int)) else throw "KeyError")
  let assignment : List (Int × Int) := (keyed.mergeSort (fun a b => decide (a.1 ≤ b.1))).map (fun kv => kv.2)
  if Np.len1 assignment == (0 : Int) then throw "ValueError"
  let start : Int × List Int ←
    (if Np.len1 assignment == (1 : Int) then do
      let unit : Int := (assignment.headD default).1
      let cur_unit_idx : Int := Np.indexOf self_units unit
      let row ← Np.getE self_nodes cur_unit_idx
      (pure (cur_unit_idx, Np.pySet (Np.nonzeroIdx row)) : Except String (Int × List Int))
    else pure ((0 : Int), Np.pySet [self_root]))
  let st_ ← assignment.foldlM (fun (st_ : Int × List Int × List (Int × Int × Int)) (uv : Int × Int) => do
      let unit : Int := uv.1
      let value : Int := uv.2
      let w_ ← Np.whileFuel (self_units.length + 1) (st_.1, st_.2.1)
          (fun (s : Int × List Int) => do
            let u ← Np.getE self_units s.1
            pure (u != unit))
          (fun (s : Int × List Int) => do
            let nxt ← Np.rowsFlatE self_child s.1 s.2
            pure (s.1 + (1 : Int), Np.pySet nxt))
      let cur_unit_idx : Int := w_.1
      let cur_nodes : List Int := w_.2
      let cur_location : List (Int × Int × Int) := cur_nodes.map (fun node => (cur_unit_idx, node, value))
      let nxt ← Np.colsE self_child self_num_candidates cur_unit_idx cur_nodes value
      pure (cur_unit_idx + (1 : Int), Np.pySet nxt, cur_location)) (start.1, start.2, [])
  pure st_.2.2
"""


def gen_getloc(tree):
    fn = method(tree, "ADD", "get_update_location")
    got = [U(st) for st in fn.body if not (isinstance(st, ast.Expr) and isinstance(st.value, ast.Constant))]
    if got != GETLOC:
        diff = next((g for g, w in zip(got, GETLOC) if g != w), "statement count %d != %d" % (len(got), len(GETLOC)))
        raise Untranslatable("ADD.get_update_location does not match the template: %s" % str(diff)[:160])
    init = method(tree, "ADD", "__init__")
    if "self._units_index = dict(((unit, idx) for idx, unit in enumerate(self.units)))" not in [U(st) for st in init.body]:
        raise Untranslatable("ADD.__init__ does not build _units_index from enumerate(self.units)")
    return GETLOC_LEAN


COMPILE = ["if provenance.max_disjunctions > 1:\n    raise ValueError('Provenance with disjunctions cannot be compiled into an ADD.')",
           'if provenance.max_conjunctions == 1:\n    locations: List[List[Tuple]] = list(map(lambda x: [(x[0], 0, x[1])], map(tuple, provenance.data[:, 0, 0, 0:2])))\n    add = ADD.construct_chain(units=list(range(provenance.num_units)), num_candidates=provenance.num_candidates, atype=atype)\n    return (add, locations)\nelse:\n    tuple_units = [np.sort(np.delete(a, np.asarray(a == -1).nonzero())) for a in provenance.data[:, 0, :, 0]]\n    tuple_unit_pairs = map(partial(combinations, r=2), tuple_units)\n    pairings = np.array(list(set(chain.from_iterable(tuple_unit_pairs))))\n    unique, unique_counts = np.unique(pairings, return_counts=True)\n    degrees = np.zeros((provenance.num_units,), dtype=int)\n    degrees[unique] = unique_counts\n    neighbors = csr_matrix((np.repeat(1, repeats=pairings.shape[0]), (pairings[:, 0], pairings[:, 1])), shape=[provenance.num_units, provenance.num_units])\n    neighbors += neighbors.transpose()\n    num_components, components_index = connected_components(neighbors, directed=False, return_labels=True)\n    components: List[Set[int]] = [set() for _ in range(num_components)]\n    for unit, component in enumerate(components_index):\n        components[component].add(unit)\n    leaf_units = set()\n    available_units = set(range(provenance.num_units))\n    for unit in np.argsort(degrees):\n        if unit in available_units:\n            leaf_units.add(unit)\n            available_units.difference_update(neighbors.getrow(unit).indices)\n    vertical_elements = []\n    for component in components:\n        factors = sorted(component - leaf_units)\n        leaves = sorted(component & leaf_units)\n        element = ADD.construct_chain(units=leaves, num_candidates=provenance.num_candidates, atype=atype)\n        horizontal_elements = dict(((a, deepcopy(element)) for a in product(*[range(provenance.num_candidates) for _ in range(len(factors))])))\n        if len(factors) == 0:\n            vertical_elements.append(element)\n        else:\n            vertical_elements.append(ADD.stack(factors=factors, elements=horizontal_elements))\n    add = ADD.concatenate(elements=vertical_elements)\n    locations = []\n    for i in range(len(provenance)):\n        assignments = filter(lambda x: x[0] != -1 and x[1] != -1, map(tuple, provenance.data[i, 0, :, :]))\n        units, values = zip(*assignments)\n        locations.append(add.get_update_location(units=units, values=values))\n    return (add, locations)']
COMPILE_LEAN = """/-- translated from `oracle.py:compile` (template).  The GRAPH part of the general branch — pairings, degrees, `csr_matrix`, `connected_components`, the greedy choice of leaf
units over `np.argsort(degrees)` — is NOT translated: its two results are parameters (`components`: the unit sets of the connected components in label order, a non-empty list;
`leaf_units`: the chosen leaves).  Translated: the rejection of disjunctions; the single-literal branch (one chain over all units, a row's location is its literal as stored); and
the assembly of the general branch — per component a chain over its sorted leaves, stacked under its sorted factors when it has any (a `dict` over `itertools.product` of the
candidate values, every entry a deepcopy of that chain, so `ADD.stack` receives the chain `num_candidates ** len(factors)` times), all components concatenated (the result object
has the constructor's 2 candidates), and one `get_update_location` per row over the literals of its first disjunct that contain no -1 (`zip(*[])` for a row without such a
literal: ValueError).  `data` = `provenance.data` as `[row][disjunct][conjunct][2]`. -/
def compile {ν : Type} [Inhabited ν] (vzero : ν) (max_disjunctions max_conjunctions num_units num_candidates : Int) (data : List (List (List (List Int))))
    (components : List (List Int)) (leaf_units : List Int) : Except String (Fld ν × List (List (Int × Int × Int))) := do
  if max_disjunctions > (1 : Int) then throw "ValueError"
  if max_conjunctions == (1 : Int) then
    let locations : List (List (Int × Int × Int)) := data.map (fun row =>
      let x : List Int := Np.get1 (Np.get1 row (0 : Int)) (0 : Int)
      [(Np.get1 x (0 : Int), (0 : Int), Np.get1 x (1 : Int))])
    let add : Fld ν := construct_chain vzero (Np.range (0 : Int) num_units (1 : Int)) num_candidates
    pure (add, locations)
  else
    let vertical_elements ← components.mapM (fun (component : List Int) => do
      let factors : List Int := (component.filter (fun u => !leaf_units.contains u)).mergeSort (fun a b => decide (a ≤ b))
      let leaves : List Int := (component.filter (fun u => leaf_units.contains u)).mergeSort (fun a b => decide (a ≤ b))
      let element : Fld ν := construct_chain vzero leaves num_candidates
      let horizontal_elements : List (Fld ν) := (Np.product (List.replicate factors.length (Np.range (0 : Int) num_candidates (1 : Int)))).map (fun _ => element)
      if Np.len1 factors == (0 : Int) then (pure element : Except String (Fld ν))
      else add_stack vzero factors horizontal_elements num_candidates)
    let add : Fld ν := add_concatenate vzero (2 : Int) vertical_elements
    let locations ← data.mapM (fun row => do
      let assignments : List (List Int) := (Np.get1 row (0 : Int)).filter (fun x => Np.get1 x (0 : Int) != (-1 : Int) && Np.get1 x (1 : Int) != (-1 : Int))
      if assignments.isEmpty then throw "ValueError"
      add_get_update_location add.1 add.2.1 add.2.2.1 add.2.2.2.1 (2 : Int) (assignments.map (fun x => Np.get1 x (0 : Int))) (assignments.map (fun x => Np.get1 x (1 : Int))))
    pure (add, locations)
"""


def gen_compile(repo):
    tree = ast.parse(open(os.path.join(repo, "datascope/importance/oracle.py")).read())
    fn = next((n for n in tree.body if isinstance(n, ast.FunctionDef) and n.name == "compile"), None)
    if fn is None:
        raise Untranslatable("oracle.compile not found")
    got = [U(st) for st in fn.body if not (isinstance(st, ast.Expr) and isinstance(st.value, ast.Constant))]
    if got != COMPILE:
        diff = "statement count %d != %d" % (len(got), len(COMPILE))
        for g, w in zip(got, COMPILE):
            if g != w:
                gl, wl = g.split("\n"), w.split("\n")
                diff = next((a for a, b in zip(gl, wl) if a != b), "line count %d != %d" % (len(gl), len(wl)))
                break
        raise Untranslatable("oracle.compile does not match the template: %s" % str(diff).strip()[:160])
    return COMPILE_LEAN


def gen_concat(tree):
    fn = method(tree, "ADD", "concatenate")
    got = [U(st) for st in fn.body if not (isinstance(st, ast.Expr) and isinstance(st.value, ast.Constant))]
    if got != CONCAT:
        diff = next((g for g, w in zip(got, CONCAT) if g != w), "statement count %d != %d" % (len(got), len(CONCAT)))
        raise Untranslatable("ADD.concatenate does not match the template: %s" % str(diff)[:160])
    init = method(tree, "ADD", "__init__")
    if "num_candidates: int=2" not in U(init.args) and "num_candidates: int = 2" not in U(init.args):
        raise Untranslatable("default of ADD.__init__(num_candidates) is not 2")
    return CONCAT_LEAN


def gen_templates(tree):
    out = []
    for name, want in (("update", UPDATE), ("construct_chain", CHAIN)):
        fn = method(tree, "ADD", name)
        got = [U(st) for st in fn.body if not (isinstance(st, ast.Expr) and isinstance(st.value, ast.Constant))]
        if got != want:
            diff = next((g for g, w in zip(got, want) if g != w), "statement count")
            raise Untranslatable("ADD.%s does not match the template: %s" % (name, str(diff)[:140]))
    init = method(tree, "ADD", "__init__")
    need = ["self.root = 0", "self.nodes = np.zeros((len(self.units), diameter), dtype=int)", "self.child = np.zeros((len(self.units), diameter, self.num_candidates), dtype=int)"]
    have = [U(st) for st in init.body]
    for n in need:
        if n not in have:
            raise Untranslatable("ADD.__init__ lacks `%s`" % n)
    return UPDATE_LEAN


QUERY = ["unit = self._provenance.units_index[target]",
         "add_with = self._add_with[boundary_with].restrict(unit, 1)",
         "add_without = self._add_without[boundary_without].restrict(unit, 0)",
         "add = add_with.sum(add_without)",
         "zeros = (0,) * self._atype.numclasses",
         "add.adder[:, :, 1] += self._atype(1, zeros, zeros)",
         "modelcounts: List[NDArray] = list(add.modelcount())",
         "result = dict(((avalue, counts) for avalue, counts in zip(self._atype.domain(), modelcounts)))",
         "return result"]
QUERY_LEAN = """/-- translated from `ShapleyOracle.query` (template: the statements must be exactly the known composition).  `δ` = a diagram object; its methods are
parameters: `restrict d unit value`, `dsum a b`, `add_on_candidate d c v` (`d.adder[:, :, c] += v`), `modelcount d`; `add_with b` / `add_without b` = the cached
diagrams of boundary row `b`; `unit_one` = `atype(1, zeros, zeros)`; `domain` = `list(atype.domain())`; `unit` = `units_index[target]`. -/
def oracle_query {δ ν τ : Type} (restrict : δ → Int → Int → δ) (dsum : δ → δ → δ) (add_on_candidate : δ → Int → ν → δ) (modelcount : δ → List Int)
    (add_with add_without : Option Int → δ) (unit_one : ν) (domain : List τ) (unit : Int) (boundary_with boundary_without : Option Int) : List (τ × Int) :=
  let add_with_ : δ := restrict (add_with boundary_with) unit (1 : Int)
  let add_without_ : δ := restrict (add_without boundary_without) unit (0 : Int)
  let add : δ := dsum add_with_ add_without_
  let add : δ := add_on_candidate add (1 : Int) unit_one
  let modelcounts : List Int := modelcount add
  List.zip domain modelcounts
"""


def gen_query(repo):
    tree = ast.parse(open(os.path.join(repo, "datascope/importance/oracle.py")).read())
    fn = method(tree, "ShapleyOracle", "query")
    got = [U(s) for s in fn.body if not (isinstance(s, ast.Expr) and isinstance(s.value, ast.Constant))]
    if got != QUERY:
        diff = next((g for g, w in zip(got, QUERY) if g != w), "statement count %d != %d" % (len(got), len(QUERY)))
        raise Untranslatable("ShapleyOracle.query does not match the template: %s" % str(diff)[:140])
    return QUERY_LEAN


HEADER = """import Ds.Np
/-!
# GenD.Ops — GENERATED by harness/translate_addops.py from /repo's current source; do not edit.
`ADD.restrict`, `ADD.modelcount` (datascope/utility/add.py), `ShapleyOracle.query` (datascope/importance/oracle.py).
-/
set_option linter.unusedVariables false
namespace GenD

"""


def generate(repo=REPO):
    report, parts = {}, []
    T.lty = lty            # the pure compiler prints types through the extended printer
    try:
        try:
            tree = ast.parse(open(os.path.join(repo, "datascope/utility/add.py")).read())
        except SyntaxError as e:
            return HEADER + "end GenD\n", {"add.py": dict(ok=False, why="syntax: %s" % e)}
        for name, job in (("ADD.restrict", gen_restrict), ("ADD.modelcount", gen_modelcount), ("ADD.sum", gen_sum)):
            try:
                txt, f = job(tree)
                parts.append(txt)
                report[name] = dict(ok=True, notes=f.notes)
            except Untranslatable as e:
                report[name] = dict(ok=False, why=str(e))
        try:
            parts.append(gen_templates(tree))
            report["ADD.update / construct_chain"] = dict(ok=True)
        except Untranslatable as e:
            report["ADD.update / construct_chain"] = dict(ok=False, why=str(e))
        try:
            parts.append(gen_concat(tree))
            report["ADD.concatenate"] = dict(ok=True)
        except Untranslatable as e:
            report["ADD.concatenate"] = dict(ok=False, why=str(e))
        try:
            parts.append(gen_stack(tree))
            report["ADD.stack"] = dict(ok=True)
        except Untranslatable as e:
            report["ADD.stack"] = dict(ok=False, why=str(e))
        try:
            parts.append(gen_getloc(tree))
            report["ADD.get_update_location"] = dict(ok=True)
        except Untranslatable as e:
            report["ADD.get_update_location"] = dict(ok=False, why=str(e))
        if all(report.get(k, {}).get("ok") for k in ("ADD.concatenate", "ADD.stack", "ADD.get_update_location", "ADD.update / construct_chain")):
            try:
                parts.append(gen_compile(repo))
                report["oracle.compile (assembly)"] = dict(ok=True)
            except Untranslatable as e:
                report["oracle.compile (assembly)"] = dict(ok=False, why=str(e))
        else:
            report["oracle.compile (assembly)"] = dict(ok=False, why="a function it calls was not translated")
        try:
            txt, f = gen_oracle_init(repo)
            parts.append(txt)
            report["ShapleyOracle.__init__"] = dict(ok=True, notes=f.notes)
        except Untranslatable as e:
            report["ShapleyOracle.__init__"] = dict(ok=False, why=str(e))
        except SyntaxError as e:
            report["ShapleyOracle.__init__"] = dict(ok=False, why="syntax: %s" % e)
        try:
            parts.append(gen_query(repo))
            report["ShapleyOracle.query"] = dict(ok=True)
        except Untranslatable as e:
            report["ShapleyOracle.query"] = dict(ok=False, why=str(e))
        except SyntaxError as e:
            report["ShapleyOracle.query"] = dict(ok=False, why="syntax: %s" % e)
    finally:
        T.lty = _lty0
    return HEADER + "\n".join(parts) + "\nend GenD\n", report


def write(repo=REPO, out=OUT):
    text, report = generate(repo)
    os.makedirs(os.path.dirname(out), exist_ok=True)
    old = open(out).read() if os.path.exists(out) else None
    if old != text:
        with open(out + ".tmp", "w") as f:
            f.write(text)
        os.replace(out + ".tmp", out)
    report["_changed"] = old != text
    return report


if __name__ == "__main__":
    if "--print" in sys.argv:
        t, r = generate()
        print(t)
        print(r, file=sys.stderr)
    else:
        print(write())
