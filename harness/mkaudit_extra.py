EXTRA = [
    ("C03", "DsProofs.Properties.C03", ["C03_main", "C03_uncaught", "BruteP.scores_eq_phi", "BruteP.sum_allAssign", "BruteP.choose_eq"]),
    ("C06", "DsProofs.Properties.C06Brute", ["C06_brute"]),
    ("C06", "DsProofs.Properties.C04", ["C06_mc"]),
    ("C04", "DsProofs.Properties.C04", ["C04_column", "C04_telescope", "C04_estimator", "C04_uniform", "C04_uncaught"]),
    ("C08", "DsProofs.Properties.C08Brute", ["C08_brute_linear", "C08_brute_shift", "C08_brute_shift_null"]),
    ("C15", "DsProofs.Properties.C15", ["C15_layer1", "C15_handled", "C15_escape", "C15_scores_defined", "C15_run_defined"]),
    ("C16", "DsProofs.Properties.C16", ["C16_keep_nonempty", "C16_keep_exact", "C16_defined", "C16_no_trunc", "C16_counter_invariant", "C16_trunc_sound",
                                         "C16_trunc_zero", "C16_trunc_zero_column"]),
]
