EXTRA = [
    ("C03", "DsProofs.Properties.C03", ["C03_main", "C03_uncaught", "BruteP.scores_eq_phi", "BruteP.sum_allAssign", "BruteP.choose_eq"]),
    ("C06", "DsProofs.Properties.C06Brute", ["C06_brute"]),
    ("C06", "DsProofs.Properties.C04", ["C06_mc"]),
    ("C04", "DsProofs.Properties.C04", ["C04_column", "C04_telescope", "C04_estimator", "C04_uniform", "C04_uncaught"]),
    ("C08", "DsProofs.Properties.C08Brute", ["C08_brute_linear", "C08_brute_shift", "C08_brute_shift_null"]),
    ("C15", "DsProofs.Properties.C15", ["C15_layer1", "C15_handled", "C15_escape", "C15_scores_defined", "C15_run_defined"]),
    ("C16", "DsProofs.Properties.C16", ["C16_keep_nonempty", "C16_keep_exact", "C16_defined", "C16_no_trunc", "C16_counter_invariant", "C16_trunc_sound",
                                         "C16_trunc_zero", "C16_trunc_zero_column"]),
]
EXTRA += [
    ("C05", "DsProofs.Properties.C05", ["DsProofs.C05.C05_main", "DsProofs.C05.C05_ofExprs", "DsProofs.C05.C05_independent", "DsProofs.C05.C05_queryIdx",
                                         "DsProofs.C05.C05_dict", "DsProofs.C05.C05_wrong_length", "DsProofs.C05.C05_rowSem_iff"]),
    ("C11", "DsProofs.Properties.C11", ["DsProofs.C11.C11_and", "DsProofs.C11.C11_or", "DsProofs.C11.C11_nested", "DsProofs.C11.C11_proper",
                                         "DsProofs.C11.C11_roundtrip", "DsProofs.C11.C11_container"]),
    ("C12", "DsProofs.Properties.C12", ["DsProofs.C12.C12_fork", "DsProofs.C12.C12_select", "DsProofs.C12.C12_default", "DsProofs.C12.C12_groups",
                                         "DsProofs.C12.C12_groups_units", "DsProofs.C12.C12_join", "DsProofs.C12.C12_wellPadded"]),
    ("C19", "DsProofs.Properties.C19", ["DsProofs.C19.C19_setItem", "DsProofs.C19.C19_insert", "DsProofs.C19.C19_append", "DsProofs.C19.C19_delItem",
                                         "DsProofs.C19.C19_delMany", "DsProofs.C19.C19_select", "DsProofs.C19.C19_len", "DsProofs.C19.C19_step",
                                         "DsProofs.C19.C19_history", "DsProofs.C19.C19_query", "DsProofs.C19.C19_history_query"]),
    ("C17", "DsProofs.Properties.C04", ["C04_estimator", "C04_uniform"]),
]
EXTRA += [
    ("C14", "DsProofs.Properties.C14", ["DsProofs.C14.C14_acc", "DsProofs.C14.C14_acc_entries", "DsProofs.C14.C14_acc_null", "DsProofs.C14.C14_acc_null_min",
                                         "DsProofs.C14.C14_auc_table", "DsProofs.C14.C14_auc", "DsProofs.C14.C14_auc_formula", "DsProofs.C14.C14_auc_null"]),
    ("C08", "DsProofs.Properties.C08Joint", ["DsProofs.C08.C08_joint_scalar_linear", "DsProofs.C08.C08_joint_no_normalisation", "DsProofs.C08.C08_joint_elem",
                                              "DsProofs.C08.C08_joint_call", "DsProofs.C08.C08_joint_kernel", "DsProofs.C08.C08_joint_kernel_getD"]),
    ("C07", "DsProofs.Properties.C07Batch", ["DsProofs.C07.C07_batch_size", "DsProofs.C07.C07_single_batch", "DsProofs.C07.C07_single_batch_score",
                                              "DsProofs.C07.C07_batch_mean", "DsProofs.C07.C07_batch_loop"]),
    ("C20", "DsProofs.Properties.C20", ["DsProofs.C20.C20_score_pure", "DsProofs.C20.C20_fit_overwrites", "DsProofs.C20.C20_last_fit_wins",
                                         "DsProofs.C20.C20_last_fit_wins_run", "DsProofs.C20.C20_repeat", "DsProofs.C20.C20_independent"]),
    ("C18", "DsProofs.Properties.C18", ["DsProofs.C18.C18_unique_rename", "DsProofs.C18.C18_encode_rename", "DsProofs.C18.C18_score_rename",
                                         "DsProofs.C18.C18_acc_rename", "DsProofs.C18.C18_acc_null_rename", "DsProofs.C18.C18_acc_rename_unique"]),
    ("C10", "DsProofs.Properties.C10", ["C10_aval_monoid_ops", "C10_aval_laws", "C10_ok_down", "C10_add_spec", "C10_add_none", "C10_sub_spec", "C10_sub_components",
                                         "C10_subq_spec", "C10_index_bijective", "C10_boxIndex", "C10_call", "C10_restrict_pos", "C10_restrict_root",
                                         "C10_restrict_single", "C10_restrict", "C10_sum", "C10_modelcount", "C10_modelcount_aval", "C10_chain_wf", "C10_eval_chain",
                                         "C10_update", "C10_tree_wf", "C10_stack", "C10_concat", "C10_history", "C10_history_restrict", "C10_history_sum",
                                         "C10_history_modelcount"]),
]
EXTRA += [
    ("C03", "DsProofs.Properties.C03Rows", ["C03_rows", "C03_rows_exprs", "C03_rows_uncaught", "C03_rowsTrue_spec"]),
    ("C04", "DsProofs.Properties.C04Rows", ["C04_rows_estimator", "C04_rows_uniform", "C04_rows_eq_brute", "C04_rows_uncaught"]),
]
EXTRA += [
    ("C01", "DsProofs.Properties.C01Rows", ["DsProofs.C01.argsortStable_sorts", "DsProofs.C01.argminFirst_spec", "DsProofs.C01.unitReduce_spec",
                                             "DsProofs.C01.C01_rows_point", "DsProofs.C01.C01_rows_point_distinct", "DsProofs.C01.C01_rows_null_player_phi",
                                             "DsProofs.C01.C01_rows_mapfork", "DsProofs.C01.C01_rows_mapfork_simple", "DsProofs.C01.C01_rows_present",
                                             "DsProofs.C01.C01_score", "DsProofs.C01.C01_score_shapley", "DsProofs.C01.C01_score_rows", "DsProofs.C01.C01_score_accuracy"]),
]
EXTRA += [
    ("C02", "DsProofs.Properties.C02", ["DsProofs.C02.C02_point", "DsProofs.C02.C02_main", "DsProofs.C02.C02_distinct", "DsProofs.C02.C02_knn1",
                                         "DsProofs.C02.C02_null_below_K", "DsProofs.C02.C02_present_mono", "DsProofs.C02.C02_game_def", "DsProofs.C02.C02_value_def"]),
]
EXTRA += [
    ("C09", "DsProofs.Properties.C09", ["C09_main", "C09_total", "C09_chain", "C09_mapfork", "C09_compile", "C09_exact", "C09_single_unit", "C09_locSpecOk"]),
    ("C02", "DsProofs.Properties.C02Oracle", ["C02_exact", "C02_mapfork", "oracleSpec_of_C09"]),
]
EXTRA += [
    ("C02", "DsProofs.Properties.C02Score", ["DsProofs.C02.C02_score_reduce", "DsProofs.C02.C02_score_ok", "DsProofs.C02.C02_score_shapley", "DsProofs.C02.C02_score_accuracy",
                                              "DsProofs.C02.C02_dispatch_consistent", "DsProofs.C02.C02_dispatch_shapley", "DsProofs.C02.C02_score_shapley_k1"]),
]
EXTRA += [
    ("C11", "DsProofs.Properties.C11Units", ["DsProofs.C11Units.C11_units_inv", "DsProofs.C11Units.C11_units_history", "DsProofs.C11Units.C11_units_roundtrip",
                                              "DsProofs.C11Units.C11_units_roundtrip_later", "DsProofs.C11Units.C11_units_positions_stable",
                                              "DsProofs.C11Units.C11_units_first_mention", "DsProofs.C11Units.C11_units_frozen",
                                              "DsProofs.C11Units.C11_units_fromData_total", "DsProofs.C11Units.C11_units_union"]),
]
EXTRA += [
    ("C01", "DsProofs.Properties.C01Obj", ["DsProofs.C01Obj.C01_obj_step_clears", "DsProofs.C01Obj.C01_obj_step_error", "DsProofs.C01Obj.C01_obj_inv",
                                            "DsProofs.C01Obj.C01_obj_history", "DsProofs.C01Obj.C01_obj_history_units", "DsProofs.C01Obj.C01_obj_rowsOf_default",
                                            "DsProofs.C01Obj.C01_obj_unitReduce_default", "DsProofs.C01Obj.C01_obj_fastpath_sound",
                                            "DsProofs.C01Obj.C01_obj_fastpath_sound_inv", "DsProofs.C01Obj.C01_obj_score", "DsProofs.C01Obj.C01_obj_score_reachable",
                                            "DsProofs.C01Obj.C01_obj_score_edited", "DsProofs.C01Obj.C01_obj_score_derived", "DsProofs.C01Obj.C01_obj_score_history"]),
    ("C19", "DsProofs.Properties.C01Obj", ["DsProofs.C01Obj.C01_obj_history"]),
]
_R = "DsProofs.C13Round."
EXTRA += [
    ("C13", "DsProofs.Properties.C13Round", [_R + t for t in ["C13_round_point", "C13_round_point_magnitude", "C13_round_A_def", "C13_round_H_def", "C13_round_kernel",
                                                               "C13_round_exact_le_A", "C13_round_A_le", "C13_round_kernel_bounded", "C13_round_twin", "C13_round_gamma",
                                                               "C13_round_double", "C13_round_harmonic", "C13_round_double_kernel", "C13_round_double_twin",
                                                               "C13_round_exact", "C13_round_flEx", "C13_round_flEx_differs", "C13_round_flEx_within"]]),
    ("C06", "DsProofs.Properties.C13Round", [_R + "C13_round_kernel", _R + "C13_round_double_kernel"]),
]
