EXTRA = [
    ("C03", "DsProofs.Properties.C03", ["C03_main", "C03_uncaught", "BruteP.scores_eq_phi", "BruteP.sum_allAssign", "BruteP.choose_eq"]),
    ("C06", "DsProofs.Properties.C06Brute", ["C06_brute"]),
    ("C06", "DsProofs.Properties.C04", ["C06_mc"]),
    ("C04", "DsProofs.Properties.C04", ["C04_column", "C04_telescope", "C04_estimator", "C04_uniform", "C04_uncaught"]),
    ("C08", "DsProofs.Properties.C08Brute", ["C08_brute_linear", "C08_brute_shift", "C08_brute_shift_null"]),
    ("C15", "DsProofs.Properties.C15", ["C15_layer1", "C15_handled", "C15_escape", "C15_scores_defined", "C15_run_defined"]),
    ("C16", "DsProofs.Properties.C16", ["C16_keep_nonempty", "C16_keep_exact", "C16_defined", "C16_no_trunc", "C16_counter_invariant", "C16_trunc_sound",
                                         "C16_trunc_zero", "C16_trunc_zero_column"]),
]
EXTRA += [
    ("C05", "DsProofs.Properties.C05", ["DsProofs.C05.C05_main", "DsProofs.C05.C05_ofExprs", "DsProofs.C05.C05_independent", "DsProofs.C05.C05_queryIdx",
                                         "DsProofs.C05.C05_dict", "DsProofs.C05.C05_wrong_length", "DsProofs.C05.C05_rowSem_iff"]),
    ("C11", "DsProofs.Properties.C11", ["DsProofs.C11.C11_and", "DsProofs.C11.C11_or", "DsProofs.C11.C11_nested", "DsProofs.C11.C11_proper",
                                         "DsProofs.C11.C11_roundtrip", "DsProofs.C11.C11_container"]),
    ("C12", "DsProofs.Properties.C12", ["DsProofs.C12.C12_fork", "DsProofs.C12.C12_select", "DsProofs.C12.C12_default", "DsProofs.C12.C12_groups",
                                         "DsProofs.C12.C12_groups_units", "DsProofs.C12.C12_join", "DsProofs.C12.C12_wellPadded"]),
    ("C19", "DsProofs.Properties.C19", ["DsProofs.C19.C19_setItem", "DsProofs.C19.C19_insert", "DsProofs.C19.C19_append", "DsProofs.C19.C19_delItem",
                                         "DsProofs.C19.C19_delMany", "DsProofs.C19.C19_select", "DsProofs.C19.C19_len", "DsProofs.C19.C19_step",
                                         "DsProofs.C19.C19_history", "DsProofs.C19.C19_query", "DsProofs.C19.C19_history_query"]),
    ("C17", "DsProofs.Properties.C04", ["C04_estimator", "C04_uniform"]),
]
