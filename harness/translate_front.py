#!/venv/bin/python
"""translate_front.py — regenerate lean/GenS/Front.lean from /repo's datascope/importance/importance.py and shapley.py: the FRONT END of a run —
`Importance.fit` / `score`, `ShapleyImportance.__init__` / `_fit` / `_score` / `_shapley` — i.e. which value reaches which parameter of the three algorithms
(`_shapley_bruteforce`, `_shapley_montecarlo`, `_shapley_neighbor`), which provenance object a run uses, and how `units=` / `world=` are resolved to positions.

Structural translation.  The attribute wiring (`self.a = <constructor parameter>`, `self.X_train = X` …) and the keyword lists of the two forwarding calls are READ from the
source and composed into one table `route`: method -> (algorithm, [(parameter of the algorithm, where its value comes from)]).  The few statements around them
(`Importance.fit`, `Importance.score`, the head of `_score`) must match a template and are translated to fixed Lean text.
"""
import ast
import os
import sys

HERE = os.path.dirname(os.path.abspath(__file__))
sys.path.insert(0, HERE)
if os.path.isdir("/verif/harness"):
    sys.path.insert(1, "/verif/harness")
from translate import Untranslatable, REPO, VERIF  # noqa: E402

OUT = os.path.join(VERIF, "lean", "GenS", "Front.lean")
U = ast.unparse


def cls_method(tree, cls, name):
    c = next((n for n in tree.body if isinstance(n, ast.ClassDef) and n.name == cls), None)
    f = next((n for n in (c.body if c else []) if isinstance(n, ast.FunctionDef) and n.name == name), None)
    if f is None:
        raise Untranslatable("%s.%s not found" % (cls, name))
    return f


def stmts(fn):
    return [s for s in fn.body if not (isinstance(s, ast.Expr) and isinstance(s.value, ast.Constant))]


FIT = ["if hasattr(X, 'provenance') and provenance is None:\n    provenance = getattr(X, 'provenance')",
       "if isinstance(provenance, ndarray):\n    provenance = Provenance(data=provenance)\nelif provenance is None:\n    provenance = Provenance(units=len(X))",
       "if isinstance(X, DataFrame):\n    X = X.values",
       "return self._fit(X, y, metadata, provenance)"]
SCORE = ["if isinstance(X, DataFrame):\n    X = X.values", "return self._score(X, y, metadata, **kwargs)"]
SCORE_HEAD = ["if self.X_train is None or self.y_train is None or self.provenance is None:\n    raise ValueError('The fit function was not called first.')",
              "if y is None:\n    raise ValueError(\"The 'y' argument cannot be None.\")",
              "if units is None:\n    units = np.arange(self.provenance.num_units)\nelif not isinstance(units, ndarray):\n    units = np.array([self.provenance.units_index[x] for x in units], dtype=int)",
              "if world is None:\n    world = np.ones_like(units, dtype=int)\nelif not isinstance(world, ndarray):\n    world = np.array([self.provenance.candidates_index[x] for x in world], dtype=int)"]

FIXED = """/-- where the value of a parameter of one of the three algorithms comes from -/
inductive Src where
  | ctor (p : String)        -- the constructor argument `p` of `ShapleyImportance`
  | fit (p : String)         -- the argument `p` of `fit()` (`X`: the `.values` of a DataFrame)
  | score (p : String)       -- the argument `p` of `score()` (`X`: the `.values` of a DataFrame)
  | provenance               -- the provenance object `fit()` settled on (`fit_provenance`)
  | units                    -- `units=` as resolved by `_score` (`resolve_units`)
  | world                    -- `world=` as resolved by `_score` (`resolve_world`)
  deriving DecidableEq, Repr

/-- what `fit()` may be handed as provenance (or find attached to `X`) -/
inductive ProvVal where
  | array | object
  deriving DecidableEq, Repr

/-- the provenance a run uses -/
inductive ProvUsed where
  | ofArray        -- `Provenance(data=<the array>)`
  | default        -- `Provenance(units=len(X))`: one unit per training row
  | asGiven        -- the object itself
  deriving DecidableEq, Repr

/-- translated from `Importance.fit` (template): `attached` = `X.provenance` if `X` has such an attribute; `arg` = the `provenance=` argument -/
def fit_provenance (attached : Option ProvVal) (arg : Option ProvVal) : ProvUsed :=
  let provenance : Option ProvVal := if attached.isSome && arg.isNone then attached else arg
  match provenance with
  | some .array => .ofArray
  | none => .default
  | some .object => .asGiven

/-- `units=` / `world=` as passed to `score()`: left out, an ndarray (taken as positions / candidate indices as it is), or any other sequence (of keys) -/
inductive Sel (κ : Type) where
  | none | array (a : List Int) | keys (ks : List κ)

/-- translated from `ShapleyImportance._score` (template): `units_index` = `self.provenance.units_index` (a dictionary: a missing key raises KeyError) -/
def resolve_units {κ : Type} (num_units : Int) (units_index : κ → Option Int) : Sel κ → Except String (List Int)
  | .none => pure (Np.range (0 : Int) num_units (1 : Int))
  | .array a => pure a
  | .keys ks => ks.mapM (fun x => match units_index x with | some i => pure i | none => throw "KeyError")

/-- translated from `ShapleyImportance._score` (template): `np.ones_like(units)` when `world` is left out -/
def resolve_world {κ : Type} (units : List Int) (candidates_index : κ → Option Int) : Sel κ → Except String (List Int)
  | .none => pure (units.map (fun _ => (1 : Int)))
  | .array a => pure a
  | .keys ks => ks.mapM (fun x => match candidates_index x with | some i => pure i | none => throw "KeyError")

/-- translated from `ShapleyImportance._score` (template): the two guards before anything is computed (`fitted` = `fit` was called; `y_given` = `y is not None`) -/
def score_guard (fitted y_given : Bool) : Except String Unit :=
  if !fitted then throw "ValueError" else if !y_given then throw "ValueError" else pure ()
"""

HEADER = """import Ds.Np
/-!
# GenS.Front — GENERATED by harness/translate_front.py from /repo's current source; do not edit.
The front end of a run: argument routing from `ShapleyImportance(...)`, `fit(...)`, `score(...)` to the three algorithms; provenance choice; unit / world resolution.
-/
set_option linter.unusedVariables false
namespace GenS

"""


def kwcall(node, what):
    """`return self.<callee>(kw=value, ...)` -> (callee, [(kw, value-node)])"""
    if not (isinstance(node, ast.Return) and isinstance(node.value, ast.Call) and isinstance(node.value.func, ast.Attribute)
            and U(node.value.func.value) == "self" and not node.value.args and all(k.arg is not None for k in node.value.keywords)):
        raise Untranslatable("%s: not `return self.<callee>(kw=value, ...)`" % what)
    return node.value.func.attr, [(k.arg, k.value) for k in node.value.keywords]


def generate(repo=REPO):
    report = {}
    try:
        ti = ast.parse(open(os.path.join(repo, "datascope/importance/importance.py")).read())
        ts = ast.parse(open(os.path.join(repo, "datascope/importance/shapley.py")).read())
        fit = cls_method(ti, "Importance", "fit")
        score = cls_method(ti, "Importance", "score")
        for fn, want, nm in ((fit, FIT, "Importance.fit"), (score, SCORE, "Importance.score")):
            got = [U(s) for s in stmts(fn)]
            if got != want:
                diff = next((g for g, w in zip(got, want) if g != w), "statement count %d != %d" % (len(got), len(want)))
                raise Untranslatable("%s does not match the template: %s" % (nm, str(diff)[:160]))
        if [a.arg for a in fit.args.args] != ["self", "X", "y", "metadata", "provenance"] or [a.arg for a in score.args.args] != ["self", "X", "y", "metadata"] or score.args.kwarg is None:
            raise Untranslatable("signature of Importance.fit / score")
        # ShapleyImportance.__init__: attribute <- constructor parameter
        init = cls_method(ts, "ShapleyImportance", "__init__")
        cparams = [a.arg for a in init.args.args[1:]]
        attr = {}
        for st in stmts(init):
            tg = st.targets[0] if isinstance(st, ast.Assign) and len(st.targets) == 1 else st.target if isinstance(st, ast.AnnAssign) else None
            if tg is None or not (isinstance(tg, ast.Attribute) and U(tg.value) == "self"):
                continue
            v = st.value
            if isinstance(v, ast.Name) and v.id in cparams:
                attr[tg.attr] = ("ctor", v.id)
            elif U(v) == "ImportanceMethod(method)":
                attr[tg.attr] = ("ctor", "method")
            elif U(v) == "np.random.RandomState(seed)":
                attr[tg.attr] = ("ctor", "seed")
            elif isinstance(v, ast.Constant) and v.value is None:
                attr.setdefault(tg.attr, ("none", ""))
            elif tg.attr == "logger":
                continue
            else:
                raise Untranslatable("__init__: self.%s = %s" % (tg.attr, U(v)[:80]))
        # _fit: attribute <- fit parameter (positional call from Importance.fit: X, y, metadata, provenance)
        ffit = cls_method(ts, "ShapleyImportance", "_fit")
        fparams = [a.arg for a in ffit.args.args[1:]]
        if len(fparams) != 4:
            raise Untranslatable("_fit signature")
        pos = dict(zip(fparams, [("fit", "X"), ("fit", "y"), ("fit", "metadata"), ("provenance", "")]))
        body = stmts(ffit)
        if not body or U(body[-1]) != "return self":
            raise Untranslatable("_fit does not end with `return self`")
        for st in body[:-1]:
            if not (isinstance(st, ast.Assign) and len(st.targets) == 1 and isinstance(st.targets[0], ast.Attribute) and U(st.targets[0].value) == "self"
                    and isinstance(st.value, ast.Name) and st.value.id in pos):
                raise Untranslatable("_fit: %s" % U(st)[:80])
            attr[st.targets[0].attr] = pos[st.value.id]
        # _score
        fscore = cls_method(ts, "ShapleyImportance", "_score")
        if [a.arg for a in fscore.args.args] != ["self", "X", "y", "metadata", "units", "world"]:
            raise Untranslatable("_score signature")
        body = stmts(fscore)
        got = [U(s) for s in body[:-1]]
        if got != SCORE_HEAD:
            diff = next((g for g, w in zip(got, SCORE_HEAD) if g != w), "statement count %d != %d" % (len(got), len(SCORE_HEAD)))
            raise Untranslatable("_score does not match the template: %s" % str(diff)[:160])
        callee, kws = kwcall(body[-1], "_score")
        if callee != "_shapley":
            raise Untranslatable("_score does not end in self._shapley(...)")
        local = {"X": ("score", "X"), "y": ("score", "y"), "metadata": ("score", "metadata"), "units": ("units", ""), "world": ("world", "")}

        def src(v, env, what):
            if isinstance(v, ast.Name) and v.id in env:
                return env[v.id]
            if isinstance(v, ast.Attribute) and U(v.value) == "self" and v.attr in attr and attr[v.attr][0] != "none":
                return attr[v.attr]
            raise Untranslatable("%s: value %s is neither a parameter nor a wired attribute" % (what, U(v)[:60]))
        fshap = cls_method(ts, "ShapleyImportance", "_shapley")
        sparams = [a.arg for a in fshap.args.args[1:]]
        env2 = {}
        for k, v in kws:
            if k not in sparams:
                raise Untranslatable("_score passes unknown keyword %s" % k)
            env2[k] = src(v, local, "_score")
        if set(env2) != set(sparams):
            raise Untranslatable("_score does not pass every parameter of _shapley")
        # _shapley: if-chain
        body = stmts(fshap)
        if len(body) != 1 or not isinstance(body[0], ast.If):
            raise Untranslatable("_shapley is not one if-chain")
        node = body[0]
        routes = []
        while True:
            t = U(node.test)
            if not t.startswith("self.method == ImportanceMethod."):
                raise Untranslatable("_shapley test %s" % t)
            if len(node.body) != 1:
                raise Untranslatable("_shapley branch is not a single return")
            callee, kws = kwcall(node.body[0], "_shapley")
            algo = cls_method(ts, "ShapleyImportance", callee)
            aparams = [a.arg for a in algo.args.args[1:]] + [a.arg for a in algo.args.kwonlyargs]
            table = []
            for k, v in kws:
                if k not in aparams:
                    raise Untranslatable("_shapley passes unknown keyword %s to %s" % (k, callee))
                table.append((k, src(v, env2, "_shapley")))
            missing = [p for p, d in zip(reversed(aparams), list(reversed(algo.args.defaults)) + [None] * len(aparams)) if d is None and p not in dict(table)]
            if missing:
                raise Untranslatable("%s: parameters %s receive no value" % (callee, missing))
            routes.append((t.split(".")[-1].lower(), callee, sorted(table)))
            if len(node.orelse) == 1 and isinstance(node.orelse[0], ast.If):
                node = node.orelse[0]
            elif len(node.orelse) == 1 and isinstance(node.orelse[0], ast.Raise):
                break
            else:
                raise Untranslatable("_shapley: the chain does not end in a raise")

        def lsrc(s):
            return {"ctor": '.ctor "%s"', "fit": '.fit "%s"', "score": '.score "%s"'}.get(s[0], "." + s[0] + "%s") % s[1]
        rows = []
        for m, callee, table in routes:
            rows.append('  ("%s", "%s", [%s])' % (m, callee, ", ".join('("%s", %s)' % (k, lsrc(s)) for k, s in table)))
        text = HEADER + FIXED + """
/-- translated from `ShapleyImportance.__init__`, `_fit`, `_score`, `_shapley` (composed): method -> the algorithm that runs and, for each of its parameters (sorted by
name), where the value comes from; any other method raises ValueError -/
def route : List (String × String × List (String × Src)) := [
%s]

end GenS
""" % ",\n".join(rows)
        report["front end (Importance.fit/score, ShapleyImportance.__init__/_fit/_score/_shapley)"] = dict(ok=True, methods=[r[0] for r in routes])
        return text, report
    except Untranslatable as e:
        report["front end (Importance.fit/score, ShapleyImportance.__init__/_fit/_score/_shapley)"] = dict(ok=False, why=str(e))
    except SyntaxError as e:
        report["front end (Importance.fit/score, ShapleyImportance.__init__/_fit/_score/_shapley)"] = dict(ok=False, why="syntax: %s" % e)
    return HEADER + "end GenS\n", report


def write(repo=REPO, out=OUT):
    text, report = generate(repo)
    os.makedirs(os.path.dirname(out), exist_ok=True)
    old = open(out).read() if os.path.exists(out) else None
    if old != text:
        with open(out + ".tmp", "w") as f:
            f.write(text)
        os.replace(out + ".tmp", out)
    report["_changed"] = old != text
    return report


if __name__ == "__main__":
    if "--print" in sys.argv:
        t, r = generate()
        print(t)
        print(r, file=sys.stderr)
    else:
        print(write())
