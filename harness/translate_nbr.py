#!/venv/bin/python
"""translate_nbr.py — regenerate lean/GenN/Neighbor.lean from /repo's datascope/importance/shapley.py: the code of the 'neighbor' method around the kernels

    compute_shapley_add             the summation over validation points x boundary pairs x units x oracle tallies: the skip conditions, `argmax`, the
                                    utility difference, the weight 1 / C(n-1, size), the final division                              (C02 C06 C08)
    get_unit_labels_and_distances   the per-unit reduction of a map/fork provenance: query with one unit switched on, null label at infinite distance
                                    for a unit without rows, first row of minimal distance per validation point                      (C01 C12 C07)
    compute_shapley_1nn_mapfork     reduction -> kernel                                                                            (C01)

A typed Python-subset -> Lean compiler over `ast` producing PURE definitions (loops are `List.foldl`, `if …: continue` is `if … then state else rest`,
an early `return` is `if … then value else rest`).  Library objects are parameters of the generated functions:
  * `ShapleyOracle(provenance, labels, distances[:, j], atype)` followed by `oracle.query(target=provenance.units[u], boundary_with=t1, boundary_without=t2)`
    becomes `oracle_query atype j u t1 t2 : List (Np.Tally × Int)` — the items of the returned dictionary in its order (tally, count);
  * `provenance.query(q)` becomes `provenance_query q : List Bool` (the row mask), `provenance.is_simple` / `provenance.num_units` parameters;
  * `distances.shape` components become the parameters `n_tuples` / `n_train`, `n_test`.
Anything outside the subset raises Untranslatable: the generated file then lacks the definition, the tie no longer builds and the check falls back to
searching for a failing input.
"""
import ast
import os
import sys

HERE = os.path.dirname(os.path.abspath(__file__))
sys.path.insert(0, HERE)
from translate import Untranslatable, REPO, VERIF  # noqa: E402

OUT = os.path.join(VERIF, "lean", "GenN", "Neighbor.lean")

INT, FLT, BOOL, OPTI, TALLY, ITEMS, ATYPE, ORACLE, MASK = "int", "float", "bool", "optint", "tally", "items", "atype", "oracle", "mask"


def A1(t):
    return ("arr1", t)


def A2(t):
    return ("arr2", t)


def TUP(ts):
    return ("tuple", tuple(ts))


def lty(t):
    if t == INT:
        return "Int"
    if t == FLT:
        return "α"
    if t == BOOL:
        return "Bool"
    if t == OPTI:
        return "(Option Int)"
    if t == TALLY:
        return "Np.Tally"
    if t == ITEMS:
        return "(List (Np.Tally × Int))"
    if t == ATYPE:
        return "(Int × Int × Int)"
    if t == ORACLE:
        return "((Int × Int × Int) × Int)"
    if t == MASK:
        return "(List Bool)"
    if t[0] == "arr1":
        return "(List %s)" % lty(t[1])
    if t[0] == "arr2":
        return "(Np.A2 %s)" % lty(t[1])
    if t[0] == "tuple":
        return "(" + " × ".join(lty(x) for x in t[1]) + ")"
    raise Untranslatable("type %r" % (t,))


def U(node):
    return ast.unparse(node)


class PureFn:
    """one function -> one pure Lean definition"""

    def __init__(self, node, params, extra=None, lean_name=None):
        self.node = node
        self.env = dict(params)                 # name -> type (the generated function's own parameters)
        self.params = list(params)              # [(name, type)] in order
        self.extra = []                         # (name, lean type text): parameters discovered while translating (opaque calls / attributes)
        self.lean_name = lean_name or node.name
        self.notes = []

    # ------------------------------------------------------------------ helpers
    def add_extra(self, name, sig):
        if (name, sig) not in self.extra:
            self.extra.append((name, sig))

    def coerce(self, x, t, want):
        if t == want:
            return x
        if t == INT and want == FLT:
            return "(Np.ofInt %s)" % x
        raise Untranslatable("cannot use %r as %r" % (t, want))

    def int_expr(self, e):
        x, t = self.expr(e)
        if t != INT:
            raise Untranslatable("integer expected, got %r in %s" % (t, U(e)))
        return x

    def bool_expr(self, e):
        x, t = self.expr(e)
        if t != BOOL:
            raise Untranslatable("boolean expected, got %r in %s" % (t, U(e)))
        return x

    def np_call(self, e):
        f = e.func
        if isinstance(f, ast.Attribute) and isinstance(f.value, ast.Name) and f.value.id == "np":
            return f.attr
        return None

    # ------------------------------------------------------------------ expressions
    def expr(self, e):
        if isinstance(e, ast.Constant):
            v = e.value
            if isinstance(v, bool) or v is None:
                raise Untranslatable("constant %r" % (v,))
            if isinstance(v, int):
                return ("(%d : Int)" % v if v >= 0 else "(-%d : Int)" % -v), INT
            if isinstance(v, float) and v == int(v) and abs(v) < 2 ** 53:
                return "(Np.ofInt (%d : Int) : α)" % int(v), FLT
            raise Untranslatable("constant %r" % (v,))
        if isinstance(e, ast.Name):
            if e.id in self.env:
                return e.id, self.env[e.id]
            raise Untranslatable("unknown name %s" % e.id)
        if isinstance(e, ast.UnaryOp) and isinstance(e.op, ast.USub):
            x, t = self.expr(e.operand)
            if t not in (INT, FLT):
                raise Untranslatable("unary minus on %r" % (t,))
            return "(-%s)" % x, t
        if isinstance(e, ast.UnaryOp) and isinstance(e.op, ast.Not):
            return "(!%s)" % self.bool_expr(e.operand), BOOL
        if isinstance(e, ast.BoolOp):
            xs = [self.bool_expr(v) for v in e.values]
            return "(" + (" && " if isinstance(e.op, ast.And) else " || ").join(xs) + ")", BOOL
        if isinstance(e, ast.IfExp):
            c = self.bool_expr(e.test)
            (a, ta), (b, tb) = self.expr(e.body), self.expr(e.orelse)
            t = FLT if FLT in (ta, tb) and {ta, tb} <= {INT, FLT} else ta
            if {ta, tb} <= {INT, FLT}:
                a, b = self.coerce(a, ta, t), self.coerce(b, tb, t)
            elif ta != tb:
                raise Untranslatable("conditional expression of %r / %r" % (ta, tb))
            return "(if %s then %s else %s)" % (c, a, b), t
        if isinstance(e, ast.Compare) and len(e.ops) == 1:
            return self.compare(e)
        if isinstance(e, ast.BinOp):
            (a, ta), (b, tb) = self.expr(e.left), self.expr(e.right)
            if ta in (INT, FLT) and tb in (INT, FLT):
                if isinstance(e.op, ast.Div):
                    return "(%s / %s)" % (self.coerce(a, ta, FLT), self.coerce(b, tb, FLT)), FLT
                op = {ast.Add: "+", ast.Sub: "-", ast.Mult: "*"}.get(type(e.op))
                if op is None:
                    raise Untranslatable("operator %s" % type(e.op).__name__)
                t = FLT if FLT in (ta, tb) else INT
                return "(%s %s %s)" % (self.coerce(a, ta, t), op, self.coerce(b, tb, t)), t
            if isinstance(e.op, ast.Div) and ta == A1(FLT) and tb in (INT, FLT):
                return "(Np.divS %s %s)" % (a, self.coerce(b, tb, FLT)), A1(FLT)
            if isinstance(e.op, ast.Mult) and ta == A1(FLT) and tb in (INT, FLT):
                return "(List.map (fun x_ => x_ * %s) %s)" % (self.coerce(b, tb, FLT), a), A1(FLT)
            if isinstance(e.op, ast.Add) and ta == A1(FLT) and tb == A1(FLT):
                return "(List.zipWith (fun x_ y_ => x_ + y_) %s %s)" % (a, b), A1(FLT)
            raise Untranslatable("binary operator on %r, %r" % (ta, tb))
        if isinstance(e, ast.Attribute):
            return self.attribute(e)
        if isinstance(e, ast.Subscript):
            return self.subscript(e)
        if isinstance(e, ast.Call):
            return self.call(e)
        if isinstance(e, ast.Tuple):
            xs = [self.expr(x) for x in e.elts]
            return "(" + ", ".join(x for x, _ in xs) + ")", TUP([t for _, t in xs])
        raise Untranslatable("expression %s" % type(e).__name__)

    def compare(self, e):
        op, l, r = e.ops[0], e.left, e.comparators[0]
        if isinstance(op, (ast.Is, ast.IsNot)) and isinstance(r, ast.Constant) and r.value is None:
            x, t = self.expr(l)
            if t == OPTI:
                return ("%s.isNone" if isinstance(op, ast.Is) else "%s.isSome") % x, BOOL
            if t in (INT, FLT, A1(FLT), A1(INT)):            # a value that is never None
                return ("false" if isinstance(op, ast.Is) else "true"), BOOL
            raise Untranslatable("`is None` on %r" % (t,))
        (a, ta), (b, tb) = self.expr(l), self.expr(r)
        if ta == OPTI:                                       # only reached after an `is None` test short-circuited (checked by the caller's template)
            a, ta = "(%s.getD 0)" % a, INT
        sym = {ast.Lt: "<", ast.LtE: "≤", ast.Gt: ">", ast.GtE: "≥", ast.Eq: "=", ast.NotEq: "≠"}.get(type(op))
        if sym is None or ta not in (INT, FLT) or tb not in (INT, FLT):
            raise Untranslatable("comparison %s" % U(e))
        t = FLT if FLT in (ta, tb) else INT
        return "(decide (%s %s %s))" % (self.coerce(a, ta, t), sym, self.coerce(b, tb, t)), BOOL

    def attribute(self, e):
        if isinstance(e.value, ast.Name) and self.env.get(e.value.id) == TALLY:
            t = {"is_inf": BOOL, "tupletally": INT, "labeltally_with": A1(INT), "labeltally_without": A1(INT)}.get(e.attr)
            if t is None:
                raise Untranslatable("attribute %s of a tally" % e.attr)
            return "%s.%s" % (e.value.id, e.attr), t
        if isinstance(e.value, ast.Name) and e.value.id == "provenance" and "provenance" not in self.env:
            if e.attr == "is_simple":
                self.add_extra("provenance_is_simple", "Bool")
                return "provenance_is_simple", BOOL
            if e.attr == "num_units":
                self.add_extra("provenance_num_units", "Int")
                return "provenance_num_units", INT
        if isinstance(e.value, ast.Name) and e.value.id == "np" and e.attr == "inf":
            self.add_extra("inf", "α")
            return "inf", FLT
        raise Untranslatable("attribute %s" % U(e))

    def subscript(self, e):
        if isinstance(e.value, ast.Attribute) and e.value.attr == "shape":
            a, t = self.expr(e.value.value)
            k = e.slice
            if isinstance(k, ast.Constant) and t[0] == "arr2" and k.value in (0, 1):
                return "(Np.shape%d %s)" % (k.value, a), INT
            raise Untranslatable("shape index %s" % U(e))
        a, t = self.expr(e.value)
        parts = list(e.slice.elts) if isinstance(e.slice, ast.Tuple) else [e.slice]
        if t[0] == "arr1" and len(parts) == 1 and not isinstance(parts[0], ast.Slice):
            i, ti = self.expr(parts[0])
            if ti == INT:
                return "(Np.get1 %s %s)" % (a, i), t[1]
            if ti == MASK:
                return "(Np.maskSel %s %s)" % (a, i), t
        if t[0] == "arr2" and len(parts) == 1:
            i, ti = self.expr(parts[0])
            if ti == MASK:
                return "(Np.maskRows %s %s)" % (a, i), t
        if t[0] == "arr2" and len(parts) == 2 and not any(isinstance(p, ast.Slice) for p in parts):
            return "(Np.get2 %s %s %s)" % (a, self.int_expr(parts[0]), self.int_expr(parts[1])), t[1]
        if t[0] == "arr2" and len(parts) == 2 and isinstance(parts[0], ast.Slice) and U(parts[0]) == ":" and not isinstance(parts[1], ast.Slice):
            return "(Np.col %s %s)" % (a, self.int_expr(parts[1])), A1(t[1])
        raise Untranslatable("subscript %s" % U(e))

    def call(self, e):
        f = e.func
        kws = {k.arg: k.value for k in e.keywords}
        name = f.id if isinstance(f, ast.Name) else None
        npn = self.np_call(e)
        if name == "len" and len(e.args) == 1 and not kws:
            x, t = self.expr(e.args[0])
            if t[0] == "arr1":
                return "(Np.len1 %s)" % x, INT
        if name in ("max", "min") and len(e.args) == 2 and not kws:
            a, b = self.int_expr(e.args[0]), self.int_expr(e.args[1])
            return "(Np.i%s %s %s)" % (name, a, b), INT
        if name == "float" and len(e.args) == 1 and not kws:
            x, t = self.expr(e.args[0])
            return self.coerce(x, t, FLT), FLT
        if name == "comb" and len(e.args) == 2 and not kws:
            return "(Np.comb %s %s : α)" % (self.int_expr(e.args[0]), self.int_expr(e.args[1])), FLT
        if npn == "sum" and len(e.args) == 1 and not kws:
            x, t = self.expr(e.args[0])
            if t == A1(INT):
                return "(Np.sumI %s)" % x, INT
        if npn == "argmax" and len(e.args) == 1 and not kws:
            x, t = self.expr(e.args[0])
            if t == A1(INT):
                return "(Np.argmaxI %s)" % x, INT
        if npn == "any" and len(e.args) == 1 and not kws:
            x, t = self.expr(e.args[0])
            if t == MASK:
                return "(%s.any id)" % x, BOOL
        if npn == "argmin" and len(e.args) == 1 and set(kws) == {"axis"} and isinstance(kws["axis"], ast.Constant) and kws["axis"].value == 0:
            x, t = self.expr(e.args[0])
            if t == A2(FLT):
                return "(Np.argmin0 %s)" % x, A1(INT)
        if npn == "array" and len(e.args) == 1 and set(kws) <= {"dtype"}:
            x, t = self.expr(e.args[0])
            d = kws.get("dtype")
            if t in (A2(FLT), A1(FLT)) and (d is None or U(d) == "float"):
                return x, t                                      # a copy: values are immutable here
        if npn == "zeros" and len(e.args) == 1:
            shp = e.args[0]
            d = U(kws["dtype"]) if "dtype" in kws else None
            if set(kws) - {"dtype"} or d not in (None, "int", "float"):
                raise Untranslatable("np.zeros keywords")
            elts = list(shp.elts) if isinstance(shp, ast.Tuple) else [shp]
            if len(elts) == 1:
                n = self.int_expr(elts[0])
                return ("(Np.rep (0 : Int) %s)" % n, A1(INT)) if d == "int" else ("(Np.zeros1 %s)" % n, A1(FLT))
            if len(elts) == 2:
                r, c = self.int_expr(elts[0]), self.int_expr(elts[1])
                return ("(Np.full2 %s %s (0 : Int))" % (r, c), A2(INT)) if d == "int" else ("(Np.full2 %s %s (Np.ofInt (0 : Int) : α))" % (r, c), A2(FLT))
        if isinstance(f, ast.Attribute) and U(f) == "provenance.query" and len(e.args) == 1 and not kws:
            x, t = self.expr(e.args[0])
            if t == A1(INT):
                self.add_extra("provenance_query", "(List Int) → (List Bool)")
                return "(provenance_query %s)" % x, MASK
        raise Untranslatable("call %s" % U(e)[:100])

    # ------------------------------------------------------------------ statements
    def assigned(self, stmts):
        names = []
        for s in stmts:
            for n in ast.walk(s):
                tg = n.targets if isinstance(n, ast.Assign) else [n.target] if isinstance(n, (ast.AugAssign, ast.AnnAssign)) else []
                for t in tg:
                    for x in (t.elts if isinstance(t, ast.Tuple) else [t]):
                        while isinstance(x, ast.Subscript):
                            x = x.value
                        if isinstance(x, ast.Name) and x.id not in names:
                            names.append(x.id)
        return names

    def bind(self, name, x, t, ind):
        if name in self.env and self.env[name] != t and not (self.env[name] == OPTI and t == INT):
            raise Untranslatable("%s changes type from %r to %r" % (name, self.env[name], t))
        self.env[name] = t
        return "%slet %s : %s := %s\n" % (ind, name, lty(t), x)

    def tup(self, names):
        return "(" + ", ".join(names) + ")" if len(names) > 1 else names[0]

    def tupty(self, names):
        return lty(TUP([self.env[n] for n in names])) if len(names) > 1 else lty(self.env[names[0]])

    def unpack(self, names, src, ind):
        out = ""
        for k, n in enumerate(names):
            proj = src if len(names) == 1 else src + ".2" * k + ("" if k == len(names) - 1 else ".1")
            out += "%slet %s : %s := %s\n" % (ind, n, lty(self.env[n]), proj)
        return out

    def special(self, s, ind):
        """function-specific statements (opaque objects); returns Lean text or None"""
        return None

    def store(self, tg, value, op, ind):
        arr = tg.value.id
        t = self.env.get(arr)
        if t is None:
            raise Untranslatable("store into unknown %s" % arr)
        parts = list(tg.slice.elts) if isinstance(tg.slice, ast.Tuple) else [tg.slice]
        v, tv = self.expr(value)
        if t[0] == "arr1" and len(parts) == 1 and not isinstance(parts[0], ast.Slice):
            i = self.int_expr(parts[0])
            v = self.coerce(v, tv, t[1])
            if op is not None:
                sym = {ast.Add: "+", ast.Sub: "-"}.get(type(op))
                if sym is None:
                    raise Untranslatable("augmented store operator")
                v = "(Np.get1 %s %s %s %s)" % (arr, i, sym, v)
            return "%slet %s : %s := Np.set1 %s %s %s\n" % (ind, arr, lty(t), arr, i, v)
        if t[0] == "arr2" and len(parts) == 2 and op is None:
            if not isinstance(parts[0], ast.Slice) and isinstance(parts[1], ast.Slice) and U(parts[1]) == ":":
                return "%slet %s : %s := Np.setRowConst %s %s %s\n" % (ind, arr, lty(t), arr, self.int_expr(parts[0]), self.coerce(v, tv, t[1]))
            if not any(isinstance(p, ast.Slice) for p in parts):
                return "%slet %s : %s := Np.set2 %s %s %s %s\n" % (ind, arr, lty(t), arr, self.int_expr(parts[0]), self.int_expr(parts[1]), self.coerce(v, tv, t[1]))
        raise Untranslatable("store %s" % U(tg))

    def iterable(self, s):
        """loop header -> (lean list, binder, [(name, type, source)])"""
        it, tg = s.iter, s.target
        if isinstance(it, ast.Call) and isinstance(it.func, ast.Name) and it.func.id in ("range", "prange") and isinstance(tg, ast.Name) and not it.keywords:
            a = [self.int_expr(x) for x in it.args]
            lst = {1: "(Np.range (0 : Int) %s (1 : Int))", 2: "(Np.range %s %s (1 : Int))", 3: "(Np.range %s %s %s)"}[len(a)] % tuple(a)
            return lst, "(%s : Int)" % tg.id, [(tg.id, INT, None)]
        if isinstance(it, ast.Call) and isinstance(it.func, ast.Name) and it.func.id == "enumerate" and len(it.args) == 1 and not it.keywords \
                and isinstance(tg, ast.Tuple) and len(tg.elts) == 2 and all(isinstance(x, ast.Name) for x in tg.elts):
            seq, ts = self.expr(it.args[0])
            if ts != A1(INT):
                raise Untranslatable("enumerate over %r" % (ts,))
            return "(Np.enumerateFrom (0 : Int) %s)" % seq, "(ix_ : Int × Int)", [(tg.elts[0].id, INT, "ix_.1"), (tg.elts[1].id, INT, "ix_.2")]
        # product(range(a), chain(range(b), [None]))
        if isinstance(it, ast.Call) and U(it.func) == "product" and len(it.args) == 2 and not it.keywords and isinstance(tg, ast.Tuple) and len(tg.elts) == 2 \
                and all(isinstance(x, ast.Name) for x in tg.elts):
            r1, ch = it.args
            if isinstance(r1, ast.Call) and U(r1.func) == "range" and len(r1.args) == 1 and isinstance(ch, ast.Call) and U(ch.func) == "chain" and len(ch.args) == 2 \
                    and isinstance(ch.args[0], ast.Call) and U(ch.args[0].func) == "range" and len(ch.args[0].args) == 1 and U(ch.args[1]) == "[None]":
                a, b = self.int_expr(r1.args[0]), self.int_expr(ch.args[0].args[0])
                return "(Np.productChainNone (Np.range (0 : Int) %s (1 : Int)) (Np.range (0 : Int) %s (1 : Int)))" % (a, b), "(tt_ : Int × Option Int)", \
                    [(tg.elts[0].id, INT, "tt_.1"), (tg.elts[1].id, OPTI, "tt_.2")]
        # result.items()
        if isinstance(it, ast.Call) and isinstance(it.func, ast.Attribute) and it.func.attr == "items" and not it.args and isinstance(it.func.value, ast.Name) \
                and self.env.get(it.func.value.id) == ITEMS and isinstance(tg, ast.Tuple) and len(tg.elts) == 2 and all(isinstance(x, ast.Name) for x in tg.elts):
            return it.func.value.id, "(kv_ : Np.Tally × Int)", [(tg.elts[0].id, TALLY, "kv_.1"), (tg.elts[1].id, INT, "kv_.2")]
        raise Untranslatable("loop header: for %s in %s" % (U(tg), U(it)[:80]))

    def loop(self, s, rest, carried_out, ind):
        if s.orelse:
            raise Untranslatable("for/else")
        lst, binder, binds = self.iterable(s)
        loopvars = [b[0] for b in binds]
        carried = [n for n in self.assigned(s.body) if n in self.env and n not in loopvars]
        if not carried:
            raise Untranslatable("loop without carried state: %s" % U(s)[:60])
        before = dict(self.env)
        ind2 = ind + "    "
        body = ""
        for n, t, src in binds:
            self.env[n] = t
            if src is not None:
                body += "%slet %s : %s := %s\n" % (ind2, n, lty(t), src)
        body += self.unpack(carried, "st_", ind2)
        body += self.block(list(s.body), ind2, in_loop=carried)
        out = "%slet st_ : %s := %s.foldl (fun (st_ : %s) %s =>\n%s%s) %s\n" % (ind, self.tupty(carried), lst, self.tupty(carried), binder, body, ind2, self.tup(carried))
        for n in carried:
            if self.env[n] != before[n]:
                raise Untranslatable("carried variable %s changes type" % n)
        self.env = before
        out += self.unpack(carried, "st_", ind)
        return out

    def block(self, stmts, ind, in_loop=None):
        """statements -> Lean lines; the value of the block is the carried tuple (inside a loop) or the returned value (function body)"""
        if not stmts:
            if in_loop is None:
                raise Untranslatable("function body without return")
            return "%s%s\n" % (ind, self.tup(in_loop))
        s, rest = stmts[0], stmts[1:]
        if isinstance(s, ast.Expr) and isinstance(s.value, ast.Constant) or isinstance(s, ast.Assert):
            return self.block(rest, ind, in_loop)
        sp = self.special(s, ind)
        if sp is not None:
            return sp + self.block(rest, ind, in_loop)
        if isinstance(s, ast.Return):
            if in_loop is not None:
                raise Untranslatable("return inside a loop")
            x, t = self.expr(s.value)
            if getattr(self, "ret", None) not in (None, t):
                raise Untranslatable("return types %r / %r" % (self.ret, t))
            self.ret = t
            return "%s%s\n" % (ind, x)
        if isinstance(s, ast.Continue):
            if in_loop is None:
                raise Untranslatable("continue outside a loop")
            return "%s%s\n" % (ind, self.tup(in_loop))
        if isinstance(s, ast.If):
            jumps = any(isinstance(n, (ast.Continue, ast.Return)) for b in (s.body, s.orelse) for st in b for n in ast.walk(st))
            if any(isinstance(n, ast.Break) for st in [s] for n in ast.walk(st)):
                raise Untranslatable("break")
            c = self.bool_expr(s.test)
            if jumps:
                saved = dict(self.env)
                a = self.block(list(s.body) + (rest if not isinstance(s.body[-1], (ast.Continue, ast.Return)) else []), ind + "  ", in_loop)
                self.env = dict(saved)
                b = self.block(list(s.orelse) + rest, ind + "  ", in_loop)
                return "%sif %s then\n%s%selse\n%s" % (ind, c, a, ind, b)
            names = self.assigned(list(s.body) + list(s.orelse))
            if not names or any(n not in self.env for n in names):
                raise Untranslatable("`if` defining new names: %s" % U(s)[:80])

            def branch(bs):
                saved = dict(self.env)
                txt = self.seq(list(bs), ind + "    ", in_loop)
                tys = [self.env[n] for n in names]
                self.env = saved
                return txt + "%s    %s\n" % (ind, self.tup(names)), tys
            (ta, tya), (tb, tyb) = branch(s.body), branch(s.orelse)
            if tya != tyb and not all(x == y or (x, y) in ((INT, OPTI), (OPTI, INT)) for x, y in zip(tya, tyb)):
                raise Untranslatable("branches disagree on types")
            # an Option-typed name that one branch turns into an integer: the other branch reads its value (the test has excluded None there)
            out = ""
            for n, x, y in zip(names, tya, tyb):
                if (x, y) == (INT, OPTI):
                    tb = tb.rstrip("\n").rsplit("\n", 1)
                    tb = ("\n".join(tb[:-1]) + "\n" if len(tb) > 1 else "") + "%s    %s\n" % (ind, self.tup(["(%s.getD 0)" % m if m == n else m for m in names]))
                    self.notes.append("%s: the else branch reads the integer inside the Option (None is excluded by the test)" % n)
            tys = [INT if OPTI in (x, y) and INT in (x, y) else x for x, y in zip(tya, tyb)]
            tty = lty(TUP(tys)) if len(names) > 1 else lty(tys[0])
            out += "%slet ite_ : %s :=\n%s  if %s then\n%s%s  else\n%s" % (ind, tty, ind, c, ta, ind, tb)
            for n, t in zip(names, tys):
                self.env[n] = t
            out += self.unpack(names, "ite_", ind)
            return out + self.block(rest, ind, in_loop)
        if isinstance(s, ast.For):
            return self.loop(s, rest, in_loop, ind) + self.block(rest, ind, in_loop)
        return self.stmt(s, ind) + self.block(rest, ind, in_loop)

    def seq(self, stmts, ind, in_loop):
        """statements of a branch (no value at the end): assignments, stores and loops"""
        out = ""
        for s in stmts:
            sp = self.special(s, ind)
            if sp is not None:
                out += sp
            elif isinstance(s, ast.For):
                out += self.loop(s, [], in_loop, ind)
            elif isinstance(s, ast.If):
                raise Untranslatable("nested `if` inside a branch")
            else:
                out += self.stmt(s, ind)
        return out

    def stmt(self, s, ind):
        if isinstance(s, ast.Assign) and len(s.targets) == 1:
            tg = s.targets[0]
            if isinstance(tg, ast.Name):
                x, t = self.expr(s.value)
                return self.bind(tg.id, x, t, ind)
            if isinstance(tg, ast.Tuple) and all(isinstance(x, ast.Name) for x in tg.elts) and isinstance(s.value, ast.Tuple) and len(s.value.elts) == len(tg.elts):
                out = ""
                vals = [self.expr(v) for v in s.value.elts]
                for nm, (x, t) in zip(tg.elts, vals):
                    out += self.bind(nm.id, x, t, ind)
                return out
            if isinstance(tg, ast.Tuple) and all(isinstance(x, ast.Name) for x in tg.elts):
                x, t = self.expr(s.value)
                if t[0] != "tuple" or len(t[1]) != len(tg.elts):
                    raise Untranslatable("tuple assignment %s" % U(s)[:60])
                out = "%slet tup_ := %s\n" % (ind, x)
                for k, nm in enumerate(tg.elts):
                    proj = "tup_" + ".2" * k + ("" if k == len(tg.elts) - 1 else ".1")
                    out += self.bind(nm.id, proj, t[1][k], ind)
                return out
            if isinstance(tg, ast.Subscript) and isinstance(tg.value, ast.Name):
                return self.store(tg, s.value, None, ind)
        if isinstance(s, ast.AugAssign):
            if isinstance(s.target, ast.Name):
                e = ast.BinOp(left=ast.Name(id=s.target.id, ctx=ast.Load()), op=s.op, right=s.value)
                x, t = self.expr(e)
                return self.bind(s.target.id, x, t, ind)
            if isinstance(s.target, ast.Subscript) and isinstance(s.target.value, ast.Name):
                return self.store(s.target, s.value, s.op, ind)
        raise Untranslatable("statement %s" % U(s)[:80])

    def emit(self, doc):
        self.ret = None
        body = self.block([s for s in self.node.body], "  ")
        ps = ["(%s : %s)" % (n, sig) for n, sig in self.extra] + ["(%s : %s)" % (n, lty(t)) for n, t in self.params]
        return "/-- %s -/\ndef %s %s : %s :=\n%s" % (doc, self.lean_name, " ".join(ps), lty(self.ret), body)


# ---------------------------------------------------------------------------------------------------- compute_shapley_add
class ShapleyAddFn(PureFn):
    ORACLE_CTOR = "oracle = ShapleyOracle(provenance=provenance, labels=labels, distances=distances[:, j], atype=atype)"
    SHAPES = "n_units, n_tuples, n_test = (len(units), distances.shape[0], distances.shape[1])"
    NULLS = "null_scores = null_scores if null_scores is not None else np.zeros((1, n_test))"
    ATYPE = "atype = ATally[max_cardinality, num_neighbors, num_classes]"

    def special(self, s, ind):
        u = U(s)
        if u == self.SHAPES:
            # the shape of the (opaque) distance matrix: parameters n_tuples, n_test
            self.env["n_tuples"], self.env["n_test"] = INT, INT
            return self.bind("n_units", "(Np.len1 units)", INT, ind)
        if u == self.NULLS:
            self.notes.append("null_scores=None (np.zeros((1, n_test))) is not translated: the generated function takes the null scores the caller supplies")
            return ""
        if u == self.ATYPE:
            x = "(%s, %s, %s)" % (self.int_expr(s.value.slice.elts[0]), self.int_expr(s.value.slice.elts[1]), self.int_expr(s.value.slice.elts[2]))
            return self.bind("atype", x, ATYPE, ind)
        if u == self.ORACLE_CTOR:
            if self.env.get("atype") != ATYPE or self.env.get("j") != INT:
                raise Untranslatable("oracle constructed outside the loop over validation points")
            return self.bind("oracle", "(atype, j)", ORACLE, ind)
        if isinstance(s, ast.Assign) and isinstance(s.value, ast.Call) and U(s.value.func) == "oracle.query" and isinstance(s.targets[0], ast.Name):
            kws = {k.arg: k.value for k in s.value.keywords}
            if s.value.args or set(kws) != {"target", "boundary_with", "boundary_without"} or self.env.get("oracle") != ORACLE:
                raise Untranslatable("oracle.query arguments")
            tgt = kws["target"]
            if not (isinstance(tgt, ast.Subscript) and U(tgt.value) == "provenance.units"):
                raise Untranslatable("oracle.query target %s" % U(tgt))
            unit = self.int_expr(tgt.slice)
            t1, ty1 = self.expr(kws["boundary_with"])
            t2, ty2 = self.expr(kws["boundary_without"])
            if ty1 != INT or ty2 != OPTI:
                raise Untranslatable("boundary types %r %r" % (ty1, ty2))
            self.add_extra("oracle_query", "(Int × Int × Int) → Int → Int → Int → (Option Int) → List (Np.Tally × Int)")
            return self.bind(s.targets[0].id, "(oracle_query oracle.1 oracle.2 %s %s %s)" % (unit, t1, t2), ITEMS, ind)
        return None


ADD_PARAMS = [("units", A1(INT)), ("n_tuples", INT), ("n_test", INT), ("label_utilities", A2(FLT)), ("null_scores", A1(FLT)), ("max_cardinality", OPTI),
              ("num_neighbors", INT), ("num_classes", INT)]


def gen_shapley_add(tree):
    node = next((n for n in tree.body if isinstance(n, ast.FunctionDef) and n.name == "compute_shapley_add"), None)
    if node is None:
        raise Untranslatable("compute_shapley_add not found")
    want = ["labels", "distances", "label_utilities", "provenance", "units", "world", "max_cardinality", "num_neighbors", "num_classes", "null_scores"]
    if [a.arg for a in node.args.args] != want:
        raise Untranslatable("signature of compute_shapley_add: %r" % [a.arg for a in node.args.args])
    f = ShapleyAddFn(node, [(n, t) for n, t in ADD_PARAMS if n not in ("n_tuples", "n_test")], lean_name="compute_shapley_add")
    f.params = list(ADD_PARAMS)
    txt = f.emit("translated from `compute_shapley_add`")
    if ("oracle_query", "(Int × Int × Int) → Int → Int → Int → (Option Int) → List (Np.Tally × Int)") not in f.extra:
        raise Untranslatable("the oracle is never queried")
    return txt, f


# ---------------------------------------------------------------------------------------------------- get_unit_labels_and_distances
class UnitReduceFn(PureFn):
    SHAPES = "n_train, n_test, n_units = (distances.shape[0], distances.shape[1], len(units))"
    SIMPLE = "if provenance.is_simple:\n    labels = np.broadcast_to(np.expand_dims(labels, axis=1), (n_train, n_test))\n    return (labels, distances)"

    def special(self, s, ind):
        u = U(s)
        if u == self.SHAPES:
            return self.bind("n_train", "(Np.shape0 distances)", INT, ind) + self.bind("n_test", "(Np.shape1 distances)", INT, ind) + self.bind("n_units", "(Np.len1 units)", INT, ind)
        return None

    def block(self, stmts, ind, in_loop=None):
        if stmts and U(stmts[0]) == self.SIMPLE and in_loop is None:
            self.add_extra("provenance_is_simple", "Bool")
            self.ret_simple = True
            rest = self.block(stmts[1:], ind + "  ", None)
            return "%sif provenance_is_simple then\n%s  (Np.broadcastCols labels n_train n_test, distances)\n%selse\n%s" % (ind, ind, ind, rest)
        return PureFn.block(self, stmts, ind, in_loop)


UR_PARAMS = [("labels", A1(INT)), ("distances", A2(FLT)), ("units", A1(INT)), ("world", A1(INT)), ("null_label", INT)]


def gen_unit_reduce(tree):
    node = next((n for n in tree.body if isinstance(n, ast.FunctionDef) and n.name == "get_unit_labels_and_distances"), None)
    if node is None:
        raise Untranslatable("get_unit_labels_and_distances not found")
    if [a.arg for a in node.args.args] != ["labels", "distances", "provenance", "units", "world", "null_label"]:
        raise Untranslatable("signature of get_unit_labels_and_distances")
    f = UnitReduceFn(node, UR_PARAMS, lean_name="get_unit_labels_and_distances")
    txt = f.emit("translated from `get_unit_labels_and_distances`")
    return txt, f


MAPFORK = ["unit_labels, unit_distances = get_unit_labels_and_distances(labels, distances, provenance, units, world, null_label=label_utilities.shape[0])",
           "n_test = distances.shape[1]",
           "null_scores = null_scores if null_scores is not None else np.zeros((1, n_test))",
           "all_importances = compute_all_importances_cy(unit_labels, unit_distances, label_utilities, null_scores)",
           "return all_importances"]
MAPFORK_LEAN = """/-- translated from `compute_shapley_1nn_mapfork` (template: reduction, then the kernel; `kernel` = `compute_all_importances_cy`, tied separately in `Gen/Kernel.lean`;
the `null_scores=None` default is not translated) -/
def compute_shapley_1nn_mapfork {β : Type} (kernel : (Np.A2 Int) → (Np.A2 α) → (Np.A2 α) → (List α) → β) %s (label_utilities : (Np.A2 α)) (null_scores : (List α)) : β :=
  let tup_ := get_unit_labels_and_distances %s (Np.shape0 label_utilities)
  kernel tup_.1 tup_.2 label_utilities null_scores
"""


def gen_mapfork(tree, ur):
    node = next((n for n in tree.body if isinstance(n, ast.FunctionDef) and n.name == "compute_shapley_1nn_mapfork"), None)
    if node is None:
        raise Untranslatable("compute_shapley_1nn_mapfork not found")
    got = [U(s) for s in node.body if not isinstance(s, ast.Expr)]
    if got != MAPFORK:
        diff = next((g for g, w in zip(got, MAPFORK) if g != w), "statement count")
        raise Untranslatable("compute_shapley_1nn_mapfork does not match the template: %s" % str(diff)[:120])
    ps = ["(%s : %s)" % (n, sig) for n, sig in ur.extra] + ["(%s : %s)" % (n, lty(t)) for n, t in ur.params if n != "null_label"]
    args = [n for n, _ in ur.extra] + [n for n, _ in ur.params if n != "null_label"]
    return MAPFORK_LEAN % (" ".join(ps), " ".join(args))


# ---------------------------------------------------------------------------------------------------- _shapley_neighbor: the loop over validation batches
class NeighborLoopFn(PureFn):
    """the tail of `ShapleyImportance._shapley_neighbor`, from `n_train, n_test, n_units = …` to `return all_importances`: batch size, the loop over validation
    batches, what is handed to the distance callable / the utility / the two scoring routines, the dispatch between them, the weight of a batch.  The validation
    set is represented by the list of its row positions (`X_test = [0, …, n_test-1]`), so a batch is a list of positions; library calls are parameters."""
    SHAPES = "n_train, n_test, n_units = (X_train.shape[0], X_test.shape[0], units.shape[0])"
    BATCH = "batch_size = get_test_batch_size(n_train, n_test)"
    DIST = "distances = distance(X_train, X_test_batch)"
    UTIL = ("utilities = self.utility.elementwise_score(X_train=X_train, y_train=y_train, X_test=X_test_batch, y_test=y_test, metadata_train=metadata_train, "
            "metadata_test=metadata_test)")
    NULLS = "null_scores = self.utility.elementwise_null_score(X_train, y_train, X_test_batch, y_test)"
    MAPFORK = "cur_importances = compute_shapley_1nn_mapfork(y_train, distances, utilities, provenance, units, world, null_scores=null_scores)"
    ADD = ("cur_importances = compute_shapley_add(y_train, distances, utilities, provenance, units, world, num_neighbors=k, num_classes=len(label_encoder.classes_), "
           "null_scores=null_scores)")

    def special(self, s, ind):
        u = U(s)
        if u == self.SHAPES:
            self.env["X_test"] = A1(INT)
            return self.bind("X_test", "(Np.range (0 : Int) n_test (1 : Int))", A1(INT), ind) + self.bind("n_units", "(Np.len1 units)", INT, ind)
        if u == self.BATCH:
            self.add_extra("get_test_batch_size", "Int → Int → Int")
            return self.bind("batch_size", "(get_test_batch_size n_train n_test)", INT, ind)
        if u == "n_test_batch = X_test_batch.shape[0]":
            return self.bind("n_test_batch", "(Np.len1 X_test_batch)", INT, ind)
        if u == self.DIST:
            self.add_extra("distance", "(List Int) → (Np.A2 α)")
            return self.bind("distances", "(distance X_test_batch)", A2(FLT), ind)
        if u == self.UTIL:
            self.add_extra("elementwise_score", "(List Int) → (List Int) → (Np.A2 α)")
            return self.bind("utilities", "(elementwise_score X_test_batch y_test)", A2(FLT), ind)
        if u == self.NULLS:
            self.add_extra("elementwise_null_score", "(List Int) → (List Int) → (List α)")
            return self.bind("null_scores", "(elementwise_null_score X_test_batch y_test)", A1(FLT), ind)
        if isinstance(s, ast.AnnAssign) and s.value is None:
            return ""
        return None

    def expr(self, e):
        u = U(e)
        if u == "provenance.max_conjunctions":
            self.add_extra("provenance_max_conjunctions", "Int")
            return "provenance_max_conjunctions", INT
        if isinstance(e, ast.Subscript) and isinstance(e.value, ast.Name) and self.env.get(e.value.id) == A1(INT) and isinstance(e.slice, ast.Slice) and e.slice.step is None:
            lo = "none" if e.slice.lower is None else "(some %s)" % self.int_expr(e.slice.lower)
            hi = "none" if e.slice.upper is None else "(some %s)" % self.int_expr(e.slice.upper)
            return "(Np.slice1 %s %s %s)" % (e.value.id, lo, hi), A1(INT)
        if isinstance(e, ast.Call) and npname(e) == "zeros" and len(e.args) == 1 and {k.arg: U(k.value) for k in e.keywords} == {"dtype": "float"}:
            return "(Np.zeros1 %s)" % self.int_expr(e.args[0]), A1(FLT)
        return PureFn.expr(self, e)

    def block(self, stmts, ind, in_loop=None):
        # the dispatch: `if <test>: cur = mapfork(…) else: cur = add(…)`
        if stmts and isinstance(stmts[0], ast.If) and len(stmts[0].body) == 1 and len(stmts[0].orelse) == 1 \
                and U(stmts[0].body[0]) == self.MAPFORK and U(stmts[0].orelse[0]) == self.ADD:
            c = self.bool_expr(stmts[0].test)
            self.add_extra("mapfork", "(Np.A2 α) → (Np.A2 α) → (List α) → (List α)")
            self.add_extra("shapley_add", "(Np.A2 α) → (Np.A2 α) → Int → Int → (List α) → (List α)")
            out = self.bind("cur_importances", "(if %s then (mapfork distances utilities null_scores) else (shapley_add distances utilities k num_classes null_scores))" % c, A1(FLT), ind)
            return out + self.block(stmts[1:], ind, in_loop)
        return PureFn.block(self, stmts, ind, in_loop)


def npname(e):
    f = e.func
    return f.attr if isinstance(f, ast.Attribute) and isinstance(f.value, ast.Name) and f.value.id == "np" else None


NB_PARAMS = [("units", A1(INT)), ("y_test", A1(INT)), ("n_train", INT), ("n_test", INT), ("k", INT), ("num_classes", INT)]


def gen_neighbor_loop(tree):
    node = next((n for n in ast.walk(tree) if isinstance(n, ast.FunctionDef) and n.name == "_shapley_neighbor"), None)
    if node is None:
        raise Untranslatable("_shapley_neighbor not found")
    k0 = next((i for i, st in enumerate(node.body) if U(st) == NeighborLoopFn.SHAPES), None)
    if k0 is None:
        raise Untranslatable("the statement `%s` was not found" % NeighborLoopFn.SHAPES)
    # what precedes the slice must not define the names the slice computes
    for st in node.body[:k0]:
        for n in ast.walk(st):
            if isinstance(n, ast.Name) and isinstance(n.ctx, ast.Store) and n.id in ("batch_size", "all_importances", "n_test", "n_units"):
                raise Untranslatable("%s is assigned before the translated slice" % n.id)
    fn = ast.FunctionDef(name="shapley_neighbor_loop", args=node.args, body=node.body[k0:], decorator_list=[])
    f = NeighborLoopFn(fn, NB_PARAMS, lean_name="shapley_neighbor_loop")
    txt = f.emit("translated from `ShapleyImportance._shapley_neighbor`: from the computation of the batch size to the end (labels are already encoded; the validation set is "
                 "the list of its row positions)")
    for need in ("distance", "elementwise_score", "elementwise_null_score", "mapfork", "shapley_add", "get_test_batch_size"):
        if need not in [n for n, _ in f.extra]:
            raise Untranslatable("`%s` is never called in the batch loop" % need)
    return txt, f


HEADER = """import Ds.Np
/-!
# GenN.Neighbor — GENERATED by harness/translate_nbr.py from /repo's current source; do not edit.
The code of the 'neighbor' method around the kernels: `compute_shapley_add`, `get_unit_labels_and_distances`, `compute_shapley_1nn_mapfork`.
-/
set_option linter.unusedVariables false
namespace GenN
variable {α : Type} [Inhabited α] [Add α] [Sub α] [Mul α] [Div α] [Neg α] [NatCast α] [LT α] [DecidableRel (α := α) (· < ·)]

"""


def generate(repo=REPO):
    report, parts = {}, []
    try:
        tree = ast.parse(open(os.path.join(repo, "datascope/importance/shapley.py")).read())
    except SyntaxError as e:
        return HEADER + "end GenN\n", {"shapley.py": dict(ok=False, why="syntax: %s" % e)}
    ur = None
    for name, job in (("compute_shapley_add", gen_shapley_add), ("get_unit_labels_and_distances", gen_unit_reduce), ("_shapley_neighbor.loop", gen_neighbor_loop)):
        try:
            txt, f = job(tree)
            parts.append(txt)
            report[name] = dict(ok=True, notes=f.notes)
            if name == "get_unit_labels_and_distances":
                ur = f
        except Untranslatable as e:
            report[name] = dict(ok=False, why=str(e))
    try:
        if ur is None:
            raise Untranslatable("get_unit_labels_and_distances was not translated")
        parts.append(gen_mapfork(tree, ur))
        report["compute_shapley_1nn_mapfork"] = dict(ok=True)
    except Untranslatable as e:
        report["compute_shapley_1nn_mapfork"] = dict(ok=False, why=str(e))
    return HEADER + "\n".join(parts) + "\nend GenN\n", report


def write(repo=REPO, out=OUT):
    text, report = generate(repo)
    os.makedirs(os.path.dirname(out), exist_ok=True)
    old = open(out).read() if os.path.exists(out) else None
    if old != text:
        with open(out + ".tmp", "w") as f:
            f.write(text)
        os.replace(out + ".tmp", out)
    report["_changed"] = old != text
    return report


if __name__ == "__main__":
    if "--print" in sys.argv:
        t, r = generate()
        print(t)
        print(r, file=sys.stderr)
    else:
        print(write())
