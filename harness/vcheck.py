#!/venv/bin/python
"""Entry point:  vcheck.py <Cxx> [--tier quick|thorough] [--replay FILE]

exit 0  property held on everything explored (KNOWN-FINDING lines possible)
exit 1  a line `VIOLATION property=<id> replay=<path>[ no-failing-input-found]` was printed
exit 2  the check itself could not run (timeout, harness crash) — never a verdict
"""
import argparse
import collections
import importlib
import json
import os
import random
import shutil
import sys
import time
import traceback
from fractions import Fraction

HERE = os.path.dirname(os.path.abspath(__file__))
VERIF = os.path.dirname(HERE)
sys.path.insert(0, HERE)

import leanio  # noqa: E402

TRUSTED_BASE = [
    "Lean 4.33.0 kernel; Mathlib v4.33.0 as compiled on this image",
    "axioms allowed in property theorems: propext, Classical.choice, Quot.sound (audited with #print axioms on every run)",
    "hand-written executable model lean/Ds/*.lean: tied to /repo only by this run's correspondence (differential) check — validated, not verified",
    "kernel functions (compute_all_importances, compute_all_importances_cy, get_test_batch_size) and the control skeleton of _shapley_bruteforce, one permutation walk of _shapley_montecarlo, the JointUtility methods: lean/Gen*/ are REGENERATED from /repo's source by harness/translate*.py on every run and proved equal to the model (lean/Tie*); trusted there: the translators and the meaning of the numpy/Python primitives in lean/Ds/Np.lean (exercised against the implementation by the C13 and C03 checks); argsort, provenance.query and the body of the try block are parameters",
    "NumPy/scikit-learn/pandas/CPython/Cython/gcc behaviour: modelled as parameters (argsort order, LabelEncoder = sorted distinct, accuracy_score, roc_auc_score on hard predictions, comb, connected_components, RandomState permutations, time.time readings)",
    "IEEE-754 rounding is executed (Float instance) and measured, never reasoned about",
    "the harness: generators, canonicalisation, tolerance 1e-9*(1+scale), exception-class mapping, Fraction by-definition evaluators",
]


def jsonable(x):
    import numpy as np
    if isinstance(x, Fraction):
        return str(x)
    if isinstance(x, (np.integer,)):
        return int(x)
    if isinstance(x, (np.floating,)):
        return float(x)
    if isinstance(x, np.ndarray):
        return jsonable(x.tolist())
    if isinstance(x, (list, tuple)):
        return [jsonable(y) for y in x]
    if isinstance(x, dict):
        return {str(k): jsonable(v) for k, v in x.items()}
    if isinstance(x, (set, frozenset)):
        return sorted(jsonable(y) for y in x)
    if isinstance(x, bytes):
        return x.hex()
    return x


class Ctx:
    def __init__(self, prop, tier, seed, replay=None):
        self.prop = prop
        self.tier = tier
        self.seed = seed
        self.replay = replay
        self.shard = os.environ.get("VERIF_SHARD")            # "i/K" in a child process of a sharded thorough run
        shard_no = int(self.shard.split("/")[0]) if self.shard else 0
        self.rng = random.Random(seed * 1000003 + int(prop[1:]) + 7919 * shard_no)
        self.work = os.path.join(VERIF, ".work", "%s-%d-%d" % (prop, os.getpid(), int(time.time() * 1000) % 100000))
        os.makedirs(self.work, exist_ok=True)
        self.t0 = time.time()
        self.t_run = None
        self.evaluations = 0
        self.keys = set()
        self.samples = []
        self.dist = collections.Counter()
        self.maxima = {}
        self.mismatches = []
        self.known_hits = collections.Counter()
        self.notes = []
        self.lean_ok = False
        self.lean_problem = None
        self.driver = None
        self.gendriver = None
        self.genbdriver = None
        self.genmdriver = None
        self.genqdriver = None
        self.theorems = []
        self.axioms = {}
        self.extra = {}
        kf = json.load(open(os.path.join(VERIF, "KNOWN_FINDINGS.json")))
        self.known = [k for k in kf.get("known", []) if k["property"] == prop]

    # ---- lean -------------------------------------------------------------------------------
    def setup_lean(self):
        if self.shard:
            # child of a sharded run: the parent has built and audited; only the driver is needed
            self.theorems = leanio.obligations_for(self.prop) + leanio.tie_obligations_for(self.prop)
            if os.path.exists(leanio.DRIVER):
                self.driver = leanio.Driver()
            ties = leanio.ties_for(self.prop)
            if "kernel" in ties and os.environ.get("VERIF_TIE_OK_kernel") == "1" and os.path.exists(leanio.GENDRIVER):
                self.gendriver = leanio.GenDriver()
            if "brute" in ties and os.environ.get("VERIF_TIE_OK_brute") == "1" and os.path.exists(leanio.GENBDRIVER):
                self.genbdriver = leanio.GenBDriver()
            if "mcwalk" in ties and os.environ.get("VERIF_TIE_OK_mcwalk") == "1" and os.path.exists(leanio.GENMDRIVER):
                self.genmdriver = leanio.GenMDriver()
            if "query" in ties and os.environ.get("VERIF_TIE_OK_query") == "1" and os.path.exists(leanio.GENQDRIVER):
                self.genqdriver = leanio.GenQDriver()
            self.lean_ok = self.driver is not None
            return
        ok, log, secs = leanio.build()
        self.extra["lake_build_s"] = round(secs, 1)
        problems = []
        if not ok:
            problems.append("lake build failed: " + log[-1500:])
        hits = leanio.source_audit()
        if hits:
            problems.append("forbidden tokens in Lean sources: %s" % hits[:5])
        self.theorems = leanio.obligations_for(self.prop)
        if ok:
            aok, axioms, raw = leanio.axiom_audit()
            self.axioms = axioms
            if not aok:
                problems.append("Audit.lean does not check: " + raw[-800:])
            for t in self.theorems:
                if t not in axioms:
                    problems.append("theorem %s missing from the axiom audit" % t)
                elif not set(axioms[t]) <= leanio.ALLOWED_AXIOMS:
                    problems.append("theorem %s depends on %s" % (t, axioms[t]))
        if ok and self.tier == "thorough":
            lc_ok, lc_msg = leanio.leanchecker(leanio.modules_for(self.prop))
            self.extra["leanchecker"] = dict(modules=leanio.modules_for(self.prop), ok=lc_ok, output=lc_msg)
            if lc_ok is False:
                problems.append("leanchecker rejected the compiled property modules: " + lc_msg)
        for tname in leanio.ties_for(self.prop):
            # the translated source: regenerate the Lean text from the repository, re-prove it equal to the model, audit
            tie = leanio.tie_build(tname)
            tie_thms = leanio.tie_obligations_for(self.prop, tname)
            self.theorems = self.theorems + [t for t in tie_thms if t not in self.theorems]
            self.extra.setdefault("translator", {})[tname] = dict(source=leanio.TIES[tname]["what"], report=tie["report"], build_s=tie["secs"], ok=tie["ok"])
            for pr in tie["problems"]:
                problems.append("tie %s: " % tname + pr)
            for t in tie_thms:
                if t in tie["axioms"]:
                    self.axioms[t] = tie["axioms"][t]
                    if not set(tie["axioms"][t]) <= leanio.ALLOWED_AXIOMS:
                        problems.append("theorem %s depends on %s" % (t, tie["axioms"][t]))
                elif tie["ok"]:
                    problems.append("theorem %s missing from the tie axiom audit" % t)
            os.environ["VERIF_TIE_OK_" + tname] = "1" if tie["ok"] else "0"
            if tie["ok"] and tname == "kernel" and os.path.exists(leanio.GENDRIVER):
                self.gendriver = leanio.GenDriver()
            if tie["ok"] and tname == "brute" and os.path.exists(leanio.GENBDRIVER):
                self.genbdriver = leanio.GenBDriver()
            if tie["ok"] and tname == "mcwalk" and os.path.exists(leanio.GENMDRIVER):
                self.genmdriver = leanio.GenMDriver()
            if tie["ok"] and tname == "query" and os.path.exists(leanio.GENQDRIVER):
                self.genqdriver = leanio.GenQDriver()
        if problems:
            self.lean_problem = problems
        if ok and os.path.exists(leanio.DRIVER):
            self.driver = leanio.Driver()
        self.lean_ok = ok and not problems

    def gen(self, req):
        """run the TRANSLATED source (lean/Gen, regenerated from the repository this run); None when it could not be translated / proved"""
        if self.gendriver is None:
            return None
        return self.gendriver.ask(jsonable(req))

    def genb(self, req):
        """run the TRANSLATED skeleton of _shapley_bruteforce (lean/GenB); None when it could not be translated / proved"""
        if self.genbdriver is None:
            return None
        return self.genbdriver.ask(jsonable(req))

    def genm(self, req):
        """run the TRANSLATED Monte-Carlo walk (lean/GenM); None when it could not be translated / proved"""
        if self.genmdriver is None:
            return None
        return self.genmdriver.ask(jsonable(req))

    def genq(self, req):
        """run the TRANSLATED Provenance.query (lean/GenQ); None when it could not be translated / proved"""
        if self.genqdriver is None:
            return None
        return self.genqdriver.ask(jsonable(req))

    def model(self, req):
        """ask the Lean model; None when the model cannot be built."""
        if self.driver is None:
            return None
        return self.driver.ask(jsonable(req))

    # ---- bookkeeping ------------------------------------------------------------------------
    def case(self, key, nontrivial=True, sample=None, **dist):
        self.evaluations += 1
        if nontrivial:
            self.keys.add(key if isinstance(key, (str, int)) else json.dumps(jsonable(key), sort_keys=True))
        for k, v in dist.items():
            self.dist["%s=%s" % (k, v)] += 1
        if sample is not None and len(self.samples) < 3:
            self.samples.append(jsonable(sample))

    def maxi(self, **kw):
        for k, v in kw.items():
            self.maxima[k] = max(self.maxima.get(k, v), v)

    def mismatch(self, what, case, impl=None, model=None, spec=None, tag=None, failing_input=True, broken=None):
        """Record a disagreement.  `tag` identifies the input class for known-finding matching.
        failing_input=False: the implementation agrees with the by-definition spec, only the
        correspondence/theorem named in `broken` no longer checks."""
        for k in self.known:
            if tag is not None and tag == k["signature"]["tag"]:
                self.known_hits[k["id"]] += 1
                return
        self.mismatches.append(dict(what=what, case=jsonable(case), impl=jsonable(impl), model=jsonable(model),
                                    spec=jsonable(spec), tag=tag, failing_input=failing_input, broken=broken))

    def close_to(self, f, q, scale=1.0):
        """implementation float `f` agrees with exact rational `q`"""
        try:
            f = float(f)
        except Exception:
            return False
        if f != f:
            return False
        return abs(Fraction(f) - Fraction(q)) <= Fraction(1, 10 ** 9) * (1 + abs(Fraction(scale)))

    def vec_close(self, fs, qs, scale=1.0):
        fs = list(fs)
        return len(fs) == len(qs) and all(self.close_to(f, q, scale) for f, q in zip(fs, qs))

    def elapsed(self):
        """seconds spent on generated cases (setup - lake build, audits, kernel rebuild - is not counted, so the safety-net budgets of the
        property modules do not depend on how warm the machine is)"""
        return time.time() - (self.t_run or self.t0)

    def wall(self):
        return time.time() - self.t0

    # ---- finish -----------------------------------------------------------------------------
    def finish(self, level, explanation, rule, assumptions=()):
        if self.shard:
            out = os.environ["VERIF_SHARD_OUT"]
            json.dump(jsonable(dict(evaluations=self.evaluations, keys=sorted(self.keys), samples=self.samples, dist=dict(self.dist), maxima=self.maxima,
                                    mismatches=self.mismatches, known_hits=dict(self.known_hits), notes=self.notes, extra=self.extra,
                                    driver_requests=(self.driver.n if self.driver else 0), level=level, explanation=explanation, rule=rule)), open(out, "w"))
            return 0
        violations = 0
        lines = []
        os.makedirs(os.path.join(VERIF, "replays"), exist_ok=True)
        # 1. broken proof obligations / model build
        if self.lean_problem:
            found = any(m["failing_input"] for m in self.mismatches)
            if not found:
                path = os.path.join(VERIF, "replays", "%s-%d-proof.json" % (self.prop, self.seed))
                json.dump(dict(property=self.prop, seed=self.seed, tier=self.tier, kind="proof-obligation-broken",
                               unchecked_theorems=self.theorems, problems=self.lean_problem,
                               search="implementation compared with the by-definition evaluators on %d generated cases: no failing input" % self.evaluations),
                          open(path, "w"), indent=1)
                lines.append("VIOLATION property=%s replay=%s no-failing-input-found" % (self.prop, path))
                violations += 1
        # 2. mismatches
        for i, m in enumerate(self.mismatches[:5]):
            path = os.path.join(VERIF, "replays", "%s-%d-%d.json" % (self.prop, self.seed, i))
            m2 = dict(m, property=self.prop, seed=self.seed, tier=self.tier)
            json.dump(m2, open(path, "w"), indent=1)
            suffix = "" if m["failing_input"] else " no-failing-input-found"
            lines.append("VIOLATION property=%s replay=%s%s" % (self.prop, path, suffix))
            violations += 1
        for k in self.known:
            if self.known_hits[k["id"]]:
                print("KNOWN-FINDING: property=%s %s: %s (%d cases)" % (self.prop, k["id"], k["what"], self.known_hits[k["id"]]))
        n_obl = len(self.theorems)
        if level == "proof" and n_obl == 0:
            # no theorem registered for this property (yet): the run is correspondence-only and says so
            level = "other"
            explanation = "NO THEOREM REGISTERED for this property in lean/Audit.lean at this commit: this run is a differential correspondence check only. " + explanation
        discharged = 0
        if self.lean_ok:
            discharged = sum(1 for t in self.theorems if t in self.axioms and set(self.axioms[t]) <= leanio.ALLOWED_AXIOMS)
        cov = dict(
            evaluations=self.evaluations, distinct_nontrivial=len(self.keys), rule=rule, samples=self.samples,
            obligations=n_obl, discharged=discharged,
            checker_cmd="cd lean && lake build Ds DsProofs dsdriver && lake env lean Audit.lean   (#print axioms of every listed theorem; sources grepped for sorry/admit/axiom/native_decide/bv_decide/implemented_by/unsafe)",
            trusted_base=TRUSTED_BASE, theorems=self.theorems,
            axioms={t: self.axioms.get(t) for t in self.theorems},
            explanation=explanation, distribution=dict(self.dist), maxima=self.maxima,
            known_finding_hits=dict(self.known_hits), mismatches=len(self.mismatches), notes=self.notes,
            driver_requests=(self.driver.n if self.driver else 0), **self.extra)
        ev = dict(property_id=self.prop, tier=self.tier, seed=self.seed, level=level, coverage=cov,
                  assumptions=list(assumptions) or TRUSTED_BASE, wall_s=round(self.wall(), 2), violations=violations)
        os.makedirs(os.path.join(VERIF, "evidence"), exist_ok=True)
        json.dump(jsonable(ev), open(os.path.join(VERIF, "evidence", "%s.json" % self.prop), "w"), indent=1)
        for line in lines:
            print(line)
        print("%s tier=%s seed=%d evaluations=%d distinct_nontrivial=%d theorems=%d/%d mismatches=%d wall=%.1fs" % (
            self.prop, self.tier, self.seed, self.evaluations, len(self.keys), discharged, n_obl, len(self.mismatches), self.wall()))
        return 1 if violations else 0

    def cleanup(self):
        if self.driver:
            self.driver.close()
        if self.gendriver:
            self.gendriver.close()
        if self.genbdriver:
            self.genbdriver.close()
        if self.genmdriver:
            self.genmdriver.close()
        if self.genqdriver:
            self.genqdriver.close()
        shutil.rmtree(self.work, ignore_errors=True)


def run_sharded(ctx, prop, shards):
    """thorough tier: the generated-case budget is spread over `shards` worker processes (each with its own derived PRNG stream, its own import of
    /repo, its own model driver); the parent has built and audited the Lean side and merges what the workers explored"""
    import subprocess
    procs = []
    for i in range(shards):
        out = os.path.join(ctx.work, "shard-%d.json" % i)
        env = dict(os.environ, VERIF_SHARD="%d/%d" % (i, shards), VERIF_SHARD_OUT=out, VERIF_SEED=str(ctx.seed))
        procs.append((i, out, subprocess.Popen([sys.executable, os.path.abspath(__file__), prop, "--tier", ctx.tier], env=env,
                                               stdout=subprocess.PIPE, stderr=subprocess.STDOUT, text=True)))
    level = explanation = rule = None
    failed = []
    for i, out, p in procs:
        log, _ = p.communicate()
        if p.returncode != 0 or not os.path.exists(out):
            failed.append((i, (log or "")[-600:]))
            continue
        d = json.load(open(out))
        ctx.evaluations += d["evaluations"]
        ctx.keys.update(d["keys"])
        ctx.samples = (ctx.samples + d["samples"])[:3]
        for k, v in d["dist"].items():
            ctx.dist[k] += v
        for k, v in d["maxima"].items():
            ctx.maxima[k] = max(ctx.maxima.get(k, v), v)
        for m in d["mismatches"]:
            m["case"] = dict(shard=i, case=m["case"])
        ctx.mismatches += d["mismatches"]
        for k, v in d["known_hits"].items():
            ctx.known_hits[k] += v
        ctx.notes += ["shard %d: %s" % (i, n) for n in d["notes"]][:3]
        ctx.extra.setdefault("shards", {})[str(i)] = dict(evaluations=d["evaluations"], driver_requests=d["driver_requests"], extra=d["extra"])
        level, explanation, rule = d["level"], d["explanation"], d["rule"]
    if failed:
        print("CHECK-ERROR property=%s shard(s) %s crashed: %s" % (prop, [i for i, _ in failed], failed[0][1]))
        return 2
    ctx.extra["sharded"] = "%d worker processes, PRNG stream of shard i = seed*1000003 + property number + 7919*i" % shards
    return ctx.finish(level, explanation, rule)


def main():
    ap = argparse.ArgumentParser()
    ap.add_argument("prop")
    ap.add_argument("--tier", default=os.environ.get("VERIF_TIER", "quick"))
    ap.add_argument("--replay", default=None)
    a = ap.parse_args()
    seed = int(os.environ.get("VERIF_SEED", "1"))
    tier = "thorough" if a.tier.startswith("t") else "quick"
    if a.replay:
        # every generated case derives from (property, seed, tier): replaying = re-running that exact stream against the current tree;
        # the recorded case is printed first so that the reader sees what is being looked for
        rp = json.load(open(a.replay))
        seed, tier = int(rp.get("seed", seed)), rp.get("tier", tier)
        print("REPLAY property=%s seed=%d tier=%s what=%s" % (rp.get("property", a.prop), seed, tier, str(rp.get("what") or rp.get("kind"))[:200]))
        print("REPLAY case=%s" % json.dumps(rp.get("case"))[:2000])
    ctx = Ctx(a.prop, tier, seed, a.replay)
    code = 2
    # the ADD path, the oracle, subprocess determinism and call histories are slow per case: their quick tier is sharded as well
    slow = a.prop in ("C02", "C09", "C17", "C20")
    shards = int(os.environ.get("VERIF_SHARDS", "8" if tier == "thorough" else ("4" if slow else "1")))
    try:
        ctx.setup_lean()
        if shards > 1 and not ctx.shard and not a.replay:
            code = run_sharded(ctx, a.prop, shards)
        else:
            mod = importlib.import_module("props.%s" % a.prop.lower())
            ctx.t_run = time.time()
            code = mod.run(ctx)
    except Exception:
        traceback.print_exc()
        print("CHECK-ERROR property=%s (harness failure, no verdict)" % a.prop)
        code = 2
    finally:
        ctx.cleanup()
    sys.exit(code)


if __name__ == "__main__":
    main()
