#!/usr/bin/env python3
"""writes seeded/README.md from seeded/*/meta.json"""
import glob
import json
import os

VERIF = os.path.dirname(os.path.dirname(os.path.abspath(__file__)))
rows = []
for mp in sorted(glob.glob(os.path.join(VERIF, "seeded", "*", "meta.json"))):
    m = json.load(open(mp))
    name = os.path.basename(os.path.dirname(mp))
    runs = m.get("runs", [])
    last = {}
    for r in runs:
        for k, v in r["checks"].items():
            last[k] = (v, r["mode"])
    caught = [k for k, (v, _) in last.items() if v["violations"] > 0]
    missed = [k for k, (v, _) in last.items() if v["violations"] == 0]
    conf = m.get("confirmed", {})
    rows.append((name, m.get("property"), m.get("summary", "").replace("|", "/")[:260], m.get("needs", "").replace("|", "/")[:200],
                 "%s/%s" % (conf.get("demo_with_change", {}).get("exit"), conf.get("demo_without_change", {}).get("exit")),
                 ", ".join(caught) or "-", ", ".join(missed) or "-", m.get("note", "")))
with open(os.path.join(VERIF, "seeded", "README.md"), "w") as f:
    f.write("# Seeded changes\n\nEach directory holds a change to easeml/datascope written by a fresh sub-agent that saw only the text of one property and a "
            "scratch worktree (nothing from /verif): `patch.diff`, the agent's demonstration `demo.py` (exit 1 with the change, 0 without; confirmed by "
            "`harness/try_seed.py`, column demo = exit codes with/without), `meta.json` (what it needs to manifest, which checks were run against it and what they "
            "reported). None of these changes is committed to /repo.\n\n| seed | property | change | needs | demo | caught by | run but silent | note |\n|---|---|---|---|---|---|---|---|\n")
    for r in rows:
        f.write("| " + " | ".join(str(x) for x in r) + " |\n")
print(len(rows), "seeds")
