#!/venv/bin/python
"""translate_query.py — regenerate lean/GenQ/Query.lean from /repo's datascope/utility/provenance.py: `Provenance.query`, from the shape checks on
the assignment vector to the returned mask / row indices (the dict / list normalisation of `values` in front of it is input glue and is not translated:
the generated function takes the assignment as an integer vector).

`self._data` is a 4-D integer array `(rows, disjuncts, conjuncts, 2)` with its shape carried explicitly (`Np.A4`, so that a container with 0 rows or
width 1 still knows its axes).  Vocabulary (lean/Ds/Np.lean): `a[:, :, :, k]` → `Np.sel4`, fancy indexing `values[idx3]` → `Np.take3` (Python negative
indices wrap; an index out of range raises IndexError for the whole call), `np.equal` on 3-D arrays, `x.squeeze(axis=k) if x.shape[k] == 1 else
np.all/np.any(x, axis=k)` → `Np.allAxis2 / anyAxis1` preceded by the shape test, `&`, `~`, `== -1`, `np.append(values, -1)`, `np.argwhere`.
The two `raise ValueError` checks become `throw "ValueError"`.  `dtype == int` selects between two generated functions (`query_mask`, `query_idx`).
"""
import ast
import os
import sys

HERE = os.path.dirname(os.path.abspath(__file__))
sys.path.insert(0, HERE)
from translate import Untranslatable, REPO, VERIF  # noqa: E402

OUT = os.path.join(VERIF, "lean", "GenQ", "Query.lean")

VI, I3, B3, B2, B1, I = "(List Int)", "(Np.A3 Int)", "(Np.A3 Bool)", "(Np.A2 Bool)", "(List Bool)", "Int"


class Q:
    def __init__(self):
        self.env = {"values": VI}
        self.lines = []

    def path(self, e):
        parts = []
        while isinstance(e, ast.Attribute):
            parts.append(e.attr)
            e = e.value
        if isinstance(e, ast.Name):
            parts.append(e.id)
            return ".".join(reversed(parts))
        return None

    def is_full_slice(self, x):
        return isinstance(x, ast.Slice) and x.lower is None and x.upper is None and x.step is None

    def expr(self, e):
        if isinstance(e, ast.Name):
            if e.id in self.env:
                return e.id, self.env[e.id]
            raise Untranslatable("name %s" % e.id)
        if isinstance(e, ast.Constant) and isinstance(e.value, int) and not isinstance(e.value, bool):
            return "(%d : Int)" % e.value if e.value >= 0 else "(-%d : Int)" % -e.value, I
        if isinstance(e, ast.UnaryOp) and isinstance(e.op, ast.USub) and isinstance(e.operand, ast.Constant) and isinstance(e.operand.value, int):
            return "(-%d : Int)" % e.operand.value, I
        if isinstance(e, ast.UnaryOp) and isinstance(e.op, ast.Invert):
            x, t = self.expr(e.operand)
            if t == B2:
                return "(Np.not2 %s)" % x, B2
            raise Untranslatable("~ on %s" % t)
        if isinstance(e, ast.BinOp) and isinstance(e.op, ast.BitAnd):
            (a, ta), (b, tb) = self.expr(e.left), self.expr(e.right)
            if ta == B2 and tb == B2:
                return "(Np.andA2 %s %s)" % (a, b), B2
            raise Untranslatable("& on %s, %s" % (ta, tb))
        if isinstance(e, ast.Compare) and len(e.ops) == 1 and isinstance(e.ops[0], ast.Eq):
            (a, ta), (b, tb) = self.expr(e.left), self.expr(e.comparators[0])
            if ta == I3 and tb == I:
                return "(Np.eqS3 %s %s)" % (a, b), B3
            raise Untranslatable("== on %s, %s" % (ta, tb))
        if isinstance(e, ast.Subscript):
            # self._data[:, :, :, k]
            if self.path(e.value) == "self._data" and isinstance(e.slice, ast.Tuple) and len(e.slice.elts) == 4 \
                    and all(self.is_full_slice(x) for x in e.slice.elts[:3]) and isinstance(e.slice.elts[3], ast.Constant) and e.slice.elts[3].value in (0, 1):
                return "(Np.sel4 self_data %d)" % e.slice.elts[3].value, I3
            # values[idx3]
            if isinstance(e.value, ast.Name):
                a, ta = self.expr(e.value)
                k, tk = self.expr(e.slice)
                if ta == VI and tk == I3:
                    return "MONADIC:(Np.take3 %s %s)" % (a, k), I3
            raise Untranslatable("subscript")
        if isinstance(e, ast.IfExp):
            # x.squeeze(axis=k) if x.shape[k] == 1 else np.all/np.any(x, axis=k)
            t = e.test
            if isinstance(t, ast.Compare) and len(t.ops) == 1 and isinstance(t.ops[0], ast.Eq) and isinstance(t.comparators[0], ast.Constant) and t.comparators[0].value == 1 \
                    and isinstance(t.left, ast.Subscript) and isinstance(t.left.value, ast.Attribute) and t.left.value.attr == "shape" \
                    and isinstance(t.left.slice, ast.Constant):
                k = t.left.slice.value
                x, tx = self.expr(t.left.value.value)
                b = e.body
                if not (isinstance(b, ast.Call) and isinstance(b.func, ast.Attribute) and b.func.attr == "squeeze" and not b.args
                        and len(b.keywords) == 1 and b.keywords[0].arg == "axis" and isinstance(b.keywords[0].value, ast.Constant) and b.keywords[0].value.value == k):
                    raise Untranslatable("squeeze branch")
                xb, _ = self.expr(b.func.value)
                o = e.orelse
                if not (isinstance(o, ast.Call) and self.path(o.func) in ("np.all", "np.any") and len(o.args) == 1 and len(o.keywords) == 1
                        and o.keywords[0].arg == "axis" and isinstance(o.keywords[0].value, ast.Constant) and o.keywords[0].value.value == k):
                    raise Untranslatable("reduction branch")
                xo, _ = self.expr(o.args[0])
                if not (x == xb == xo):
                    raise Untranslatable("squeeze / reduce different arrays")
                red = self.path(o.func).split(".")[1]
                if tx == B3 and k == 2:
                    return "(if Np.shape3 %s 2 = 1 then Np.squeeze3_2 %s else Np.%sAxis2 %s)" % (x, x, red, x), B2
                if tx == B2 and k == 1:
                    return "(if Np.shape2 %s 1 = 1 then Np.squeeze2_1 %s else Np.%sAxis1 %s)" % (x, x, red, x), B1
            raise Untranslatable("conditional expression")
        if isinstance(e, ast.Call):
            p = self.path(e.func)
            kws = {k.arg: k.value for k in e.keywords}
            if p == "np.equal" and len(e.args) == 2 and not kws:
                (a, ta), (b, tb) = self.expr(e.args[0]), self.expr(e.args[1])
                if ta == I3 and tb == I3:
                    return "%s(Np.eq3 %s %s)" % ("MONADIC2:" if a.startswith("MONADIC:") else "", a.replace("MONADIC:", ""), b), B3
            if p == "np.all" and len(e.args) == 1 and set(kws) == {"axis"} and isinstance(kws["axis"], ast.Constant) and kws["axis"].value == 2:
                x, t = self.expr(e.args[0])
                if t == B3:
                    return "(Np.allAxis2 %s)" % x, B2
            if p == "np.append" and len(e.args) == 2 and not kws:
                (a, ta), (b, tb) = self.expr(e.args[0]), self.expr(e.args[1])
                if ta == VI and tb == I:
                    return "(Np.append1 %s [%s])" % (a, b), VI
            if p == "np.argwhere" and len(e.args) == 1 and not kws:
                x, t = self.expr(e.args[0])
                if t == B1:
                    return "(Np.argwhere1 %s)" % x, "(List Int)"
            raise Untranslatable("call %s" % ast.dump(e)[:100])
        raise Untranslatable("expression %s" % type(e).__name__)

    def stmt(self, s, ind):
        # if not <cond>: raise ValueError(...)
        if isinstance(s, ast.If) and not s.orelse and len(s.body) == 1 and isinstance(s.body[0], ast.Raise):
            r = s.body[0].exc
            cls = r.func.id if isinstance(r, ast.Call) and isinstance(r.func, ast.Name) else None
            if cls is None:
                raise Untranslatable("raise form")
            t = s.test
            if isinstance(t, ast.UnaryOp) and isinstance(t.op, ast.Not) and isinstance(t.operand, ast.Compare) and len(t.operand.ops) == 1 and isinstance(t.operand.ops[0], ast.Eq):
                left, right = t.operand.left, t.operand.comparators[0]
                if self.path(left) == "values.ndim" and isinstance(right, ast.Constant) and right.value == 1:
                    return ""          # the generated function takes a vector: the test holds by typing
                if isinstance(left, ast.Subscript) and self.path(left.value) == "values.shape" and isinstance(left.slice, ast.Constant) and left.slice.value == 0 \
                        and self.path(right) == "self.num_units":
                    return '%sif ¬ (Np.len1 values = self_num_units) then throw "%s"\n' % (ind, cls)
            raise Untranslatable("guard %s" % ast.dump(t)[:80])
        if isinstance(s, ast.Assign) and len(s.targets) == 1 and isinstance(s.targets[0], ast.Name):
            x, t = self.expr(s.value)
            name = s.targets[0].id
            if name in self.env and self.env[name] != t and not (name == "result"):
                raise Untranslatable("%s changes type" % name)
            self.env[name] = t
            if x.startswith("MONADIC2:"):
                # np.equal(values[idx3], other): the fancy indexing may raise
                inner = x[len("MONADIC2:"):]
                # inner = (Np.eq3 (Np.take3 a k) b)
                import re
                m = re.match(r"\(Np\.eq3 (\(Np\.take3 .*?\)\)) (\(Np\.sel4 self_data \d\))\)$", inner)
                if not m:
                    raise Untranslatable("monadic expression shape")
                return "%slet taken_ ← %s\n%slet %s : %s := (Np.eq3 taken_ %s)\n" % (ind, m.group(1), ind, name, t, m.group(2))
            if "MONADIC" in x:
                raise Untranslatable("fancy indexing outside np.equal")
            return "%slet %s : %s := %s\n" % (ind, name, t, x)
        raise Untranslatable("statement %s" % type(s).__name__)


HEADER = """import Ds.Np
/-!
# GenQ.Query — GENERATED by harness/translate_query.py from /repo's current source; do not edit.
`Provenance.query` from the shape checks to the returned mask / indices.
-/
set_option linter.unusedVariables false
namespace GenQ

"""


def generate(repo=REPO):
    src = open(os.path.join(repo, "datascope/utility/provenance.py")).read()
    report = {}
    try:
        tree = ast.parse(src)
        cls = next((n for n in tree.body if isinstance(n, ast.ClassDef) and n.name == "Provenance"), None)
        fn = next((n for n in (cls.body if cls else []) if isinstance(n, ast.FunctionDef) and n.name == "query"), None)
        if fn is None:
            raise Untranslatable("Provenance.query not found")
        body = [s for s in fn.body if not (isinstance(s, ast.Expr) and isinstance(s.value, ast.Constant))]
        # input glue in front: `if isinstance(values, dict): …` and `if not isinstance(values, np.ndarray): values = np.array(values)`
        k = 0
        glue = []
        while k < len(body) and isinstance(body[k], ast.If) and "isinstance" in ast.dump(body[k].test):
            glue.append(ast.unparse(body[k].test))
            k += 1
        if len(glue) != 2:
            raise Untranslatable("expected the two isinstance normalisations of `values` in front, found %r" % glue)
        core = body[k:]
        # tail: `if dtype == int: result = np.argwhere(result)` ; `return result`
        if len(core) < 3 or not isinstance(core[-1], ast.Return) or not (isinstance(core[-1].value, ast.Name) and core[-1].value.id == "result"):
            raise Untranslatable("tail: return result")
        tail = core[-2]
        if not (isinstance(tail, ast.If) and not tail.orelse and ast.unparse(tail.test) == "dtype == int" and len(tail.body) == 1
                and isinstance(tail.body[0], ast.Assign) and ast.unparse(tail.body[0]) == "result = np.argwhere(result)"):
            raise Untranslatable("tail: `if dtype == int: result = np.argwhere(result)`")
        q = Q()
        lines = ""
        for s in core[:-2]:
            lines += q.stmt(s, "  ")
        if q.env.get("result") != B1:
            raise Untranslatable("result is not a 1-D mask at the end (%s)" % q.env.get("result"))
        sig = "(self_data : Np.A4 Int) (self_num_units : Int) (values : List Int)"
        text = HEADER
        text += "/-- translated from `Provenance.query` (dtype=bool) -/\ndef query_mask %s : Except String (List Bool) := do\n%s  pure result\n\n" % (sig, lines)
        text += "/-- translated from `Provenance.query` (dtype=int): `np.argwhere` of the mask -/\ndef query_idx %s : Except String (List Int) := do\n%s  let result : (List Int) := (Np.argwhere1 result)\n  pure result\n\nend GenQ\n" % (sig, lines)
        report["Provenance.query"] = dict(ok=True, input_glue=glue)
        return text, report
    except Untranslatable as e:
        report["Provenance.query"] = dict(ok=False, why=str(e))
    except SyntaxError as e:
        report["Provenance.query"] = dict(ok=False, why="syntax: %s" % e)
    return HEADER + "end GenQ\n", report


def write(repo=REPO, out=OUT):
    text, report = generate(repo)
    os.makedirs(os.path.dirname(out), exist_ok=True)
    old = open(out).read() if os.path.exists(out) else None
    if old != text:
        with open(out + ".tmp", "w") as f:
            f.write(text)
        os.replace(out + ".tmp", out)
    report["_changed"] = old != text
    return report


if __name__ == "__main__":
    if "--print" in sys.argv:
        t, r = generate()
        print(t)
        print(r, file=sys.stderr)
    else:
        print(write())
