"""prompt for a seeding sub-agent: mkseedprompt.py <property id> <round>  (the agent sees the property text, its worktree and the one-line summaries of earlier seeds; nothing else from /verif)"""
import json,sys,glob
pid=sys.argv[1]
props={json.loads(l)['id']:json.loads(l) for l in open('/verif/properties.jsonl')}
p=props[pid]
prev=[]
for mp in sorted(glob.glob('/verif/seeded/*/meta.json')):
    m=json.load(open(mp)); prev.append("- (%s) %s" % (m.get('property'), m.get('summary','')[:200]))
rnd=sys.argv[2]
wt="/tmp/mut%s_%s"%(rnd,pid)
print(f"""You are helping to evaluate a verification effort by SEEDING A REALISTIC BUG. You get a scratch git worktree of the Python library easeml/datascope (Shapley data-importance scores over sklearn pipelines) at {wt} (a checkout of the current HEAD; the Cython extension is already built in place there; run Python as /venv/bin/python with `cd {wt}`). Work ONLY inside {wt}; never touch /repo or /verif (do not read /verif either). There is no network.

The semantic property under study ({pid}): "{p['title']}"
Statement: {p['statement']}
Quantified over: {p['quantifier']['text']}
Anchored in: {', '.join(p['anchors'].get('files', []))}

Your task: make ONE small change to the library source (under {wt}/datascope/, .py or .pyx; if you edit the .pyx rebuild with `/venv/bin/python setup.py build_ext --inplace --force`) that BREAKS this property while the code still imports and the existing test suite still passes. Prefer a change that needs something specific to manifest — a particular input shape or size, an unusual but legitimate input, a multi-step sequence of operations, a tie, a boundary value, state carried between calls, two cooperating sites that each look fine alone — not one that ordinary use would expose at once, and not a crash on every call. It should look like a plausible refactoring slip, off-by-one, wrong axis/index, dropped term, over-eager optimisation, caching, or wrong default, not sabotage. Do not edit tests. Do not change behaviour outside what is needed. Read the anchored source files carefully first and look for a clause of the property, a code path or an input class that the earlier changes below have NOT touched.

Earlier rounds already produced the following changes — do NOT repeat any of them or a close variant (same function AND same mechanism):
{chr(10).join(prev)}

Deliver, in {wt}/seed/:
  1. `patch.diff` — `git diff` of your change (source only, not the seed/ directory; if you changed the .pyx do not include the regenerated .c).
  2. `demo.py` — a small self-contained program (run as `/venv/bin/python seed/demo.py` from the worktree root) that exits 0 and prints PASS on the ORIGINAL code and exits 1 and prints FAIL on the changed code, by checking the property on a concrete input (compute the expected value independently, e.g. by brute-force enumeration with fractions, not by calling the same code path). In demo.py insert the worktree root at the front of sys.path (`sys.path.insert(0, os.getcwd())`) and assert that `datascope.__file__` lies inside the worktree, because /venv has an editable install pointing elsewhere.
  3. `meta.json` — {{"property": "{pid}", "summary": one sentence on the change, "needs": what is needed for the violation to manifest, "files": [...changed files]}}.
Then verify yourself: (a) with the change applied, `OMP_NUM_THREADS=1 OPENBLAS_NUM_THREADS=1 MKL_NUM_THREADS=1 /venv/bin/python -m pytest -q -p no:cacheprovider -k "not benchmark" tests` passes (about 2 minutes with those variables — ALWAYS set them, other agents share the machine); (b) `demo.py` FAILs with the change; (c) after `git apply -R seed/patch.diff` `demo.py` PASSes; then `git apply seed/patch.diff` again so the worktree is left WITH the change applied. NEVER use `git stash` (the stash is shared between worktrees). Reply with the contents of meta.json, the diff, and the observed outputs of (a), (b), (c).""")
