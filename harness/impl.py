"""Loading the implementation under test from /repo's *current working tree*.

* `datascope` is imported from /repo (never from site-packages).
* The Cython kernel is re-cythonized and compiled from /repo/datascope/importance/shapley_cy.pyx into a
  scratch directory on every run; that fresh build is installed as `datascope.importance.shapley_cy`
  before `datascope.importance` is imported, so the `.so` lying in the tree is never what is exercised
  (it is loaded separately, when present, only to report staleness).
"""
import importlib
import importlib.util
import os
import shutil
import subprocess
import sys
import sysconfig
import warnings

REPO = os.environ.get("VERIF_REPO", "/repo")
PYX = os.path.join(REPO, "datascope", "importance", "shapley_cy.pyx")

_state = {}


def build_kernel(workdir):
    """cythonize + gcc the pyx into workdir; returns path of the shared object."""
    import numpy as np
    os.makedirs(workdir, exist_ok=True)
    src = os.path.join(workdir, "shapley_cy.pyx")
    so_prev = os.path.join(workdir, "shapley_cy" + sysconfig.get_config_var("EXT_SUFFIX"))
    if os.path.exists(src) and os.path.exists(so_prev) and open(src, "rb").read() == open(PYX, "rb").read():
        return so_prev          # same source already compiled in this run's scratch directory (subprocess reuse)
    shutil.copyfile(PYX, src)
    c = os.path.join(workdir, "shapley_cy.c")
    r = subprocess.run([sys.executable, "-m", "cython", "-3", src, "-o", c], capture_output=True, text=True)
    if r.returncode != 0:
        raise RuntimeError("cython failed:\n" + r.stdout + r.stderr)
    so = os.path.join(workdir, "shapley_cy" + sysconfig.get_config_var("EXT_SUFFIX"))
    inc = [sysconfig.get_paths()["include"], np.get_include()]
    cmd = ["gcc", "-shared", "-fPIC", "-O2", "-w"] + ["-I" + i for i in inc] + [c, "-o", so]
    r = subprocess.run(cmd, capture_output=True, text=True)
    if r.returncode != 0:
        raise RuntimeError("gcc failed:\n" + r.stdout + r.stderr)
    return so


def load(workdir, need_kernel=True):
    """Import datascope from REPO with the freshly built kernel.  Returns the `datascope` module namespace dict."""
    if _state.get("loaded"):
        return _state
    if REPO not in sys.path:
        sys.path.insert(0, REPO)
    for m in list(sys.modules):
        if m == "datascope" or m.startswith("datascope."):
            del sys.modules[m]
    warnings.filterwarnings("ignore", category=DeprecationWarning)
    so = build_kernel(os.path.join(workdir, "kernel"))
    spec = importlib.util.spec_from_file_location("datascope.importance.shapley_cy", so)
    mod = importlib.util.module_from_spec(spec)
    sys.modules["datascope.importance.shapley_cy"] = mod
    spec.loader.exec_module(mod)
    import datascope.importance as imp  # noqa
    import datascope.importance.shapley as shapley
    import datascope.importance.oracle as oracle
    import datascope.importance.utility as utility
    import datascope.utility as dutil
    import datascope.utility.provenance as provenance
    import datascope.utility.add as add
    assert os.path.realpath(shapley.__file__).startswith(os.path.realpath(REPO)), shapley.__file__
    assert shapley.compute_all_importances_cy is mod.compute_all_importances_cy
    _state.update(loaded=True, shapley=shapley, oracle=oracle, utility=utility, dutil=dutil,
                  provenance=provenance, add=add, imp=imp, kernel_cy=mod.compute_all_importances_cy,
                  kernel_py=shapley.compute_all_importances, kernel_so=so)
    # the binary lying in the tree (informational)
    stale = None
    try:
        tree_so = [f for f in os.listdir(os.path.dirname(PYX)) if f.startswith("shapley_cy.") and f.endswith(".so")]
        if tree_so:
            sp = importlib.util.spec_from_file_location("_tree_shapley_cy", os.path.join(os.path.dirname(PYX), tree_so[0]))
            # a second copy of the same extension cannot be initialised twice under one name in CPython 3.12
            # reliably, so the comparison is done in a subprocess by C13 only
            stale = os.path.join(os.path.dirname(PYX), tree_so[0])
    except Exception:
        stale = None
    _state["tree_so"] = stale
    return _state
