#!/venv/bin/python
"""translate_aval.py — regenerate lean/GenV/Value.lean: the saturating value arithmetic of the decision diagrams —
`AValue._clip`, `AValue.__add__`, `AValue.__sub__`, `AValue.__index__` (datascope/utility/add.py) and `ATally._clip` (datascope/importance/oracle.py).

Values are integer vectors (`List Int`); class attributes (`self.maxvalue`, `self.infvalue`, `self.numtuples`, `self.numneighbors`, `self.slots_with`,
`self.slots_without`, `self.domainsize`) are parameters; `self._clip` is a parameter `clip`, the constructor call `type(self)(array)` a parameter `ctor`
(for an array of the class's shape `__init__` stores the array and clips it once more; the TIEV theorems take `ctor := clip`).  `other = type(self)(other) if
not isinstance(other, AValue) else other` is operand coercion of non-AValue operands and is dropped: the generated functions take two value arrays.
"""
import ast
import os
import sys

HERE = os.path.dirname(os.path.abspath(__file__))
sys.path.insert(0, HERE)
from translate import Untranslatable, REPO, VERIF  # noqa: E402

OUT = os.path.join(VERIF, "lean", "GenV", "Value.lean")
VI, I, B = "(List Int)", "Int", "Bool"
SELF_ATTRS = {"self.maxvalue": VI, "self.infvalue": VI, "self.numtuples": I, "self.numneighbors": I, "self.slots_with": VI, "self.slots_without": VI,
              "self.domainsize": I, "self._value": VI, "other._value": VI}


class V:
    def __init__(self):
        self.used = []
        self.env = {}

    def path(self, e):
        parts = []
        while isinstance(e, ast.Attribute):
            parts.append(e.attr)
            e = e.value
        if isinstance(e, ast.Name):
            parts.append(e.id)
            return ".".join(reversed(parts))
        return None

    def attr(self, p):
        name = p.replace(".", "_").replace("__", "_")
        if (name, SELF_ATTRS[p]) not in self.used:
            self.used.append((name, SELF_ATTRS[p]))
        return name, SELF_ATTRS[p]

    def expr(self, e):
        if isinstance(e, ast.Name):
            if e.id in self.env:
                return e.id, self.env[e.id]
            raise Untranslatable("name %s" % e.id)
        if isinstance(e, ast.Constant) and isinstance(e.value, int) and not isinstance(e.value, bool):
            return "(%d : Int)" % e.value, I
        if isinstance(e, ast.Attribute):
            p = self.path(e)
            if p in SELF_ATTRS:
                return self.attr(p)
            raise Untranslatable("attribute %s" % p)
        if isinstance(e, ast.BoolOp) and isinstance(e.op, ast.Or):
            xs = [self.expr(v) for v in e.values]
            if any(t != B for _, t in xs):
                raise Untranslatable("or of non-booleans")
            return "(" + " || ".join(x for x, _ in xs) + ")", B
        if isinstance(e, ast.Compare) and len(e.ops) == 1:
            (a, ta), (b, tb) = self.expr(e.left), self.expr(e.comparators[0])
            op = type(e.ops[0])
            if ta == VI and tb == I and op in (ast.Lt, ast.Gt):
                return "(Np.cmpVS %s %s %s)" % ("true" if op is ast.Lt else "false", a, b), "(List Bool)"
            if ta == VI and tb == VI and op is ast.Gt:
                return "(Np.gtVV %s %s)" % (a, b), "(List Bool)"
            if ta == I and tb == I and op in (ast.Gt, ast.Lt):
                return "(decide (%s %s %s))" % (a, ">" if op is ast.Gt else "<", b), B
            raise Untranslatable("comparison %s %s" % (ta, tb))
        if isinstance(e, ast.BinOp):
            (a, ta), (b, tb) = self.expr(e.left), self.expr(e.right)
            op = {ast.Add: "+", ast.Sub: "-", ast.Mult: "*"}.get(type(e.op))
            if op is None:
                raise Untranslatable("operator")
            if ta == VI and tb == VI:
                return "(List.zipWith (fun x_ y_ => x_ %s y_) %s %s)" % (op, a, b), VI
            if ta == VI and tb == I:
                return "(List.map (fun x_ => x_ %s %s) %s)" % (op, b, a), VI
            if ta == I and tb == I:
                return "(%s %s %s)" % (a, op, b), I
            raise Untranslatable("%s on %s %s" % (op, ta, tb))
        if isinstance(e, ast.Subscript):
            a, ta = self.expr(e.value)
            if ta == VI and isinstance(e.slice, ast.Slice) and e.slice.upper is None and e.slice.step is None and e.slice.lower is not None:
                lo, tl = self.expr(e.slice.lower)
                if tl == I:
                    return "(Np.slice1 %s (some %s) none)" % (a, lo), VI
            k, tk = self.expr(e.slice)
            if ta == VI and tk == I:
                return "(Np.get1 %s %s)" % (a, k), I
            if ta == VI and tk == VI:
                return "(Np.takeI %s %s)" % (a, k), VI
            raise Untranslatable("subscript %s[%s]" % (ta, tk))
        if isinstance(e, ast.IfExp):
            c, tc = self.expr(e.test)
            (a, ta), (b, tb) = self.expr(e.body), self.expr(e.orelse)
            if tc == B and ta == tb:
                return "(if %s then %s else %s)" % (c, a, b), ta
            raise Untranslatable("conditional expression")
        if isinstance(e, ast.Call):
            p = self.path(e.func)
            kws = {k.arg: k.value for k in e.keywords}
            if p == "np.any" and len(e.args) == 1 and not kws:
                x, t = self.expr(e.args[0])
                if t == "(List Bool)":
                    return "(%s.any id)" % x, B
            if p == "np.sum" and len(e.args) == 1 and not kws:
                x, t = self.expr(e.args[0])
                if t == VI:
                    return "(Np.sumI %s)" % x, I
            if p == "np.prod" and len(e.args) == 1 and not kws:
                x, t = self.expr(e.args[0])
                if t == VI:
                    return "(Np.prodI %s)" % x, I
            if p == "np.array" and len(e.args) == 1 and not kws:
                return self.expr(e.args[0])
            if p == "np.array_equal" and len(e.args) == 2 and not kws:
                (a, ta), (b, tb) = self.expr(e.args[0]), self.expr(e.args[1])
                if ta == VI and tb == VI:
                    return "(decide (%s = %s))" % (a, b), B
            if p == "int" and len(e.args) == 1 and not kws:
                x, t = self.expr(e.args[0])
                if t == I:
                    return x, I
            if p == "self._clip" and len(e.args) == 1 and not kws:
                x, t = self.expr(e.args[0])
                if t == VI:
                    if ("clip", "List Int → List Int") not in self.used:
                        self.used.append(("clip", "List Int → List Int"))
                    return "(clip %s)" % x, VI
            if isinstance(e.func, ast.Call) and isinstance(e.func.func, ast.Name) and e.func.func.id == "type" and len(e.func.args) == 1 \
                    and isinstance(e.func.args[0], ast.Name) and e.func.args[0].id == "self" and len(e.args) == 1 and not kws:
                x, t = self.expr(e.args[0])
                if t == VI:
                    if ("ctor", "List Int → List Int") not in self.used:
                        self.used.append(("ctor", "List Int → List Int"))
                    return "(ctor %s)" % x, VI
            if isinstance(e.func, ast.Name) and e.func.id == "sum" and len(e.args) == 1 and isinstance(e.args[0], ast.GeneratorExp) and not kws:
                g = e.args[0]
                if len(g.generators) == 1 and isinstance(g.generators[0].target, ast.Name) and not g.generators[0].ifs:
                    it = g.generators[0].iter
                    if isinstance(it, ast.Call) and isinstance(it.func, ast.Name) and it.func.id == "range" and len(it.args) == 1:
                        n, tn = self.expr(it.args[0])
                        v = g.generators[0].target.id
                        saved = dict(self.env)
                        self.env[v] = I
                        body, tb = self.expr(g.elt)
                        self.env = saved
                        if tn == I and tb == I:
                            return "(Np.sumI ((Np.range (0 : Int) %s (1 : Int)).map (fun (%s : Int) => %s)))" % (n, v, body), I
            if isinstance(e.func, ast.Attribute) and e.func.attr == "shape":
                pass
            raise Untranslatable("call %s" % ast.dump(e)[:100])
        raise Untranslatable("expression %s" % type(e).__name__)

    def body(self, stmts, ind):
        s = [x for x in stmts if not (isinstance(x, ast.Expr) and isinstance(x.value, ast.Constant))]
        if not s:
            raise Untranslatable("empty body")
        st, rest = s[0], s[1:]
        if isinstance(st, ast.Return):
            x, t = self.expr(st.value)
            return ind + x + "\n", t
        if isinstance(st, ast.If) and not st.orelse and len(st.body) == 1 and isinstance(st.body[0], ast.Return):
            c, tc = self.expr(st.test)
            if tc != B:
                raise Untranslatable("test type")
            a, ta = self.expr(st.body[0].value)
            b, tb = self.body(rest, ind + "  ")
            if ta != tb:
                raise Untranslatable("branch types")
            return "%sif %s then %s else\n%s" % (ind, c, a, b), ta
        if isinstance(st, ast.Assign) and len(st.targets) == 1 and isinstance(st.targets[0], ast.Name):
            name = st.targets[0].id
            # `other = type(self)(other) if not isinstance(other, AValue) else other`: operand coercion, dropped (operands are value arrays)
            if name == "other" and isinstance(st.value, ast.IfExp) and "isinstance" in ast.dump(st.value.test):
                return self.body(rest, ind)
            # x.shape[0]
            if isinstance(st.value, ast.Subscript) and isinstance(st.value.value, ast.Attribute) and st.value.value.attr == "shape":
                a, ta = self.expr(st.value.value.value)
                if ta == VI and isinstance(st.value.slice, ast.Constant) and st.value.slice.value == 0:
                    self.env[name] = I
                    b, tb = self.body(rest, ind)
                    return "%slet %s : Int := (Np.len1 %s)\n%s" % (ind, name, a, b), tb
            x, t = self.expr(st.value)
            self.env[name] = t
            b, tb = self.body(rest, ind)
            return "%slet %s : %s := %s\n%s" % (ind, name, t, x, b), tb
        raise Untranslatable("statement %s" % type(st).__name__)


def translate(cls_node, meth, lean_name, arg_types):
    node = next((n for n in cls_node.body if isinstance(n, ast.FunctionDef) and n.name == meth), None)
    if node is None:
        raise Untranslatable("method %s not found" % meth)
    v = V()
    params = []
    for a in node.args.args:
        if a.arg == "self":
            continue
        if a.arg == "other":
            continue
        if a.arg not in arg_types:
            raise Untranslatable("parameter %s" % a.arg)
        v.env[a.arg] = arg_types[a.arg]
        params.append("(%s : %s)" % (a.arg, arg_types[a.arg]))
    body, t = v.body(node.body, "  ")
    ps = ["(%s : %s)" % (n, ty) for n, ty in v.used] + params
    return "def %s %s : %s :=\n%s" % (lean_name, " ".join(ps), t, body)


HEADER = """import Ds.Np
/-!
# GenV.Value — GENERATED by harness/translate_aval.py from /repo's current source; do not edit.
Saturating value arithmetic of the decision diagrams (`AValue`, `ATally`).
-/
set_option linter.unusedVariables false
namespace GenV

"""


def generate(repo=REPO):
    report, parts = {}, []
    jobs = [("datascope/utility/add.py", "AValue", "_clip", "avalue_clip", {"value": VI}),
            ("datascope/importance/oracle.py", "ATally", "_clip", "atally_clip", {"value": VI}),
            ("datascope/utility/add.py", "AValue", "__add__", "avalue_add", {}),
            ("datascope/utility/add.py", "AValue", "__sub__", "avalue_sub", {}),
            ("datascope/utility/add.py", "AValue", "__index__", "avalue_index", {})]
    for path, cls, meth, lean, at in jobs:
        key = "%s.%s" % (cls, meth)
        try:
            tree = ast.parse(open(os.path.join(repo, path)).read())
            c = next((n for n in tree.body if isinstance(n, ast.ClassDef) and n.name == cls), None)
            if c is None:
                raise Untranslatable("class %s not found" % cls)
            parts.append("/-- translated from `%s` -/\n%s" % (key, translate(c, meth, lean, at)))
            report[key] = dict(ok=True)
        except Untranslatable as e:
            report[key] = dict(ok=False, why=str(e))
        except SyntaxError as e:
            report[key] = dict(ok=False, why="syntax: %s" % e)
    return HEADER + "\n".join(parts) + "\nend GenV\n", report


def write(repo=REPO, out=OUT):
    text, report = generate(repo)
    os.makedirs(os.path.dirname(out), exist_ok=True)
    old = open(out).read() if os.path.exists(out) else None
    if old != text:
        with open(out + ".tmp", "w") as f:
            f.write(text)
        os.replace(out + ".tmp", out)
    report["_changed"] = old != text
    return report


if __name__ == "__main__":
    if "--print" in sys.argv:
        t, r = generate()
        print(t)
        print(r, file=sys.stderr)
    else:
        print(write())
