#!/venv/bin/python
"""translate_util.py — regenerate lean/GenU/Elem.lean from /repo's datascope/importance/utility.py: the element-wise tables of the accuracy and
ROC-AUC utilities (`SklearnModelAccuracy.elementwise_score`, `.elementwise_null_score`, `SklearnModelRocAuc.elementwise_score`,
`.elementwise_null_score`) — the functions property C14 is about.

They are numpy-broadcast code over label vectors.  Labels are `Int`; `np.unique` is a parameter `np_unique : List Int → List Int` (numpy's sorted
distinct values; the theorems hold for whatever it returns).  Vocabulary (lean/Ds/Np.lean): `np.equal.outer` / `np.not_equal.outer` → Boolean
matrices, `*` of Boolean arrays = and, `.astype(float)` / `np.array(…, dtype=float)` = 0/1 scalars, `np.full_like`, `np.equal(v, c).sum(dtype=float)` = a
count, `np.mean`, matrix `± / *` scalar, `np.inf` as the initial value of a running minimum (type `Option α`, `none` = +∞).  Loops over a label vector
are folds; an `if` without jumps updates existing names.  Statements about pandas inputs (`if not isinstance(y_test, ndarray): y_test = y_test.to_numpy()`)
are dropped: the translated functions take arrays.
"""
import ast
import os
import sys

HERE = os.path.dirname(os.path.abspath(__file__))
sys.path.insert(0, HERE)
from translate import Untranslatable, REPO, VERIF  # noqa: E402

OUT = os.path.join(VERIF, "lean", "GenU", "Elem.lean")

I, F, B = "Int", "α", "Bool"
VI, VF, VB = "(List Int)", "(List α)", "(List Bool)"
MF, MB = "(List (List α))", "(List (List Bool))"
INF = "(Option α)"          # a running minimum that starts at +inf


class U:
    def __init__(self, node):
        self.node = node
        self.env = {"y_train": VI, "y_test": VI}
        self.uses_unique = False

    def attr_path(self, e):
        parts = []
        while isinstance(e, ast.Attribute):
            parts.append(e.attr)
            e = e.value
        if isinstance(e, ast.Name):
            parts.append(e.id)
            return ".".join(reversed(parts))
        return None

    def kw(self, call):
        return {k.arg: k.value for k in call.keywords}

    def is_float_dtype(self, e):
        return isinstance(e, ast.Name) and e.id == "float"

    def is_array_dtype(self, e):
        """`dtype=` of np.full_like that is the dtype of some array / scalar (`y_test.dtype`, `np.asarray(x).dtype`) or np.result_type of such.
        Labels are unbounded `Int` here, so every such fill is exact in the translation; whether the chosen numpy dtype can really HOLD the
        filled value (training class wider than the validation labels' dtype: finding F19) is outside this model and is what the C14 check
        runs against the implementation with training / validation labels of different dtypes."""
        if isinstance(e, ast.Attribute) and e.attr == "dtype":
            return True
        if isinstance(e, ast.Call) and self.attr_path(e.func) == "np.result_type" and e.args and not e.keywords:
            return all(self.is_array_dtype(a) for a in e.args)
        return False

    def expr(self, e):
        if isinstance(e, ast.Name):
            if e.id in self.env:
                return e.id, self.env[e.id]
            raise Untranslatable("name %s" % e.id)
        if isinstance(e, ast.Constant) and isinstance(e.value, float) and e.value == 0.5:
            return "((Np.ofInt (1 : Int) : α) / (Np.ofInt (2 : Int)))", F
        if isinstance(e, ast.Constant) and isinstance(e.value, int) and not isinstance(e.value, bool):
            return "(%d : Int)" % e.value, I
        p = self.attr_path(e) if isinstance(e, ast.Attribute) else None
        if p == "np.inf":
            return "(none : Option α)", INF
        if isinstance(e, ast.Compare) and len(e.ops) == 1:
            a, ta = self.expr(e.left)
            b, tb = self.expr(e.comparators[0])
            if isinstance(e.ops[0], ast.Eq) and ta == VI and tb == VI:
                return "(Np.eqVV %s %s)" % (a, b), VB
            if isinstance(e.ops[0], ast.Gt) and ta == INF and tb == F:
                return "(Np.gtInf %s %s)" % (a, b), B
            raise Untranslatable("comparison of %s and %s" % (ta, tb))
        if isinstance(e, ast.BinOp):
            a, ta = self.expr(e.left)
            b, tb = self.expr(e.right)
            op = {ast.Add: "+", ast.Sub: "-", ast.Mult: "*", ast.Div: "/"}.get(type(e.op))
            if op is None:
                raise Untranslatable("operator")
            if op == "*" and ta == MB and tb == MB:
                return "(Np.and2 %s %s)" % (a, b), MB
            if op == "*" and ta == VB and tb == VB:
                return "(Np.and1 %s %s)" % (a, b), VB
            if ta == MF and tb == F:
                return "(Np.mapM2 (fun x_ => x_ %s %s) %s)" % (op, b, a), MF
            if ta == VF and tb == F:
                return "(List.map (fun x_ => x_ %s %s) %s)" % (op, b, a), VF
            if ta == MF and tb == MF and op in "+-":
                return "(Np.zipM2 (fun x_ y_ => x_ %s y_) %s %s)" % (op, a, b), MF
            if ta == VF and tb == VF and op in "+-":
                return "(List.zipWith (fun x_ y_ => x_ %s y_) %s %s)" % (op, a, b), VF
            if ta == F and tb == F:
                return "(%s %s %s)" % (a, op, b), F
            raise Untranslatable("%s of %s and %s" % (op, ta, tb))
        if isinstance(e, ast.Subscript) and isinstance(e.value, ast.Name):
            a, ta = self.expr(e.value)
            k, tk = self.expr(e.slice)
            if ta == VI and tk == I:
                return "(Np.get1 %s %s)" % (a, k), I
            raise Untranslatable("subscript")
        if isinstance(e, ast.Call):
            f = e.func
            kws = self.kw(e)
            p = self.attr_path(f)
            # method calls on a value: x.astype(float), x.sum(dtype=float)
            if isinstance(f, ast.Attribute) and f.attr == "astype" and len(e.args) == 1 and self.is_float_dtype(e.args[0]) and not kws:
                x, t = self.expr(f.value)
                if t == MB:
                    return "(Np.b2f2 %s)" % x, MF
                if t == VB:
                    return "(Np.b2f1 %s)" % x, VF
                raise Untranslatable("astype on %s" % t)
            if isinstance(f, ast.Attribute) and f.attr == "sum" and not e.args and set(kws) == {"dtype"} and self.is_float_dtype(kws["dtype"]):
                x, t = self.expr(f.value)
                if t == VB:
                    return "(Np.countTrueF %s)" % x, F
                raise Untranslatable(".sum on %s" % t)
            if p == "np.unique" and len(e.args) == 1 and not kws:
                x, t = self.expr(e.args[0])
                if t == VI:
                    self.uses_unique = True
                    return "(np_unique %s)" % x, VI
            if p in ("np.equal.outer", "np.not_equal.outer") and len(e.args) == 2 and not kws:
                (a, ta), (b, tb) = self.expr(e.args[0]), self.expr(e.args[1])
                if ta == VI and tb == VI:
                    return "(Np.%s %s %s)" % ("outerEq" if "not" not in p else "outerNe", a, b), MB
            if p in ("np.equal", "np.not_equal") and len(e.args) == 2 and not kws:
                (a, ta), (b, tb) = self.expr(e.args[0]), self.expr(e.args[1])
                neg = "not" in p
                if ta == VI and tb == VI:
                    return "(Np.%s %s %s)" % ("neVV" if neg else "eqVV", a, b), VB
                if ta == VI and tb == I:
                    return "(Np.%s %s %s)" % ("neVS" if neg else "eqVS", a, b), VB
            if p == "np.full_like" and len(e.args) == 2 and set(kws) <= {"dtype"}:
                (a, ta), (b, tb) = self.expr(e.args[0]), self.expr(e.args[1])
                d = kws.get("dtype")
                if d is not None and not self.is_array_dtype(d):
                    raise Untranslatable("full_like dtype")
                if ta == VI and tb == I:
                    return "(Np.fullLike %s %s)" % (a, b), VI
            if isinstance(f, ast.Name) and f.id == "_constant_prediction" and len(e.args) == 2 and not kws:
                # module helper: the prediction vector holding the class x for every test example (its choice of dtype - wide enough to hold x - is
                # outside this integer model; the C14 run exercises it on labels of different dtypes)
                (a, ta), (b, tb) = self.expr(e.args[0]), self.expr(e.args[1])
                if ta == VI and tb == I:
                    return "(Np.fullLike %s %s)" % (a, b), VI
            if p == "np.array" and len(e.args) == 1 and set(kws) == {"dtype"} and self.is_float_dtype(kws["dtype"]):
                x, t = self.expr(e.args[0])
                if t == VB:
                    return "(Np.b2f1 %s)" % x, VF
            if p == "np.mean" and len(e.args) == 1 and not kws:
                x, t = self.expr(e.args[0])
                if t == VF:
                    return "(Np.mean1 %s)" % x, F
            if p == "np.zeros_like" and len(e.args) == 1 and set(kws) <= {"dtype"}:
                x, t = self.expr(e.args[0])
                if t == VI and (not kws or self.is_float_dtype(kws["dtype"])):
                    return "(Np.zerosLikeF %s)" % x, VF
            if p == "np.zeros" and len(e.args) == 1 and not kws and isinstance(e.args[0], ast.Tuple) and len(e.args[0].elts) == 2:
                (a, ta), (b, tb) = self.expr(e.args[0].elts[0]), self.expr(e.args[0].elts[1])
                if ta == I and tb == I:
                    return "(Np.zeros2 %s %s)" % (a, b), MF
            if p == "np.argmin" and len(e.args) == 1 and not kws:
                x, t = self.expr(e.args[0])
                if t == VI:
                    return "(Np.argminI %s)" % x, I
            if isinstance(f, ast.Name) and f.id == "len" and len(e.args) == 1 and not kws:
                x, t = self.expr(e.args[0])
                if t in (VI, VF):
                    return "(Np.len1 %s)" % x, I
            if isinstance(f, ast.Name) and f.id == "float" and len(e.args) == 1 and not kws:
                x, t = self.expr(e.args[0])
                if t == I:
                    return "(Np.ofInt %s : α)" % x, F
            raise Untranslatable("call %s" % ast.dump(e)[:100])
        raise Untranslatable("expression %s" % type(e).__name__)

    def assigned(self, stmts):
        out = []
        for s in stmts:
            for n in ast.walk(s):
                if isinstance(n, (ast.Assign, ast.AugAssign)):
                    tg = n.targets if isinstance(n, ast.Assign) else [n.target]
                    for t in tg:
                        for x in (t.elts if isinstance(t, ast.Tuple) else [t]):
                            if isinstance(x, ast.Name) and x.id not in out:
                                out.append(x.id)
        return out

    def let(self, name, x, t, ind):
        if name in self.env and self.env[name] != t:
            if self.env[name] == INF and t == F:
                x, t = "(some %s)" % x, INF
            else:
                raise Untranslatable("%s changes type from %s to %s" % (name, self.env[name], t))
        self.env[name] = t
        return "%slet %s : %s := %s\n" % (ind, name, t, x)

    def stmts(self, body, ind):
        out = ""
        for s in body:
            out += self.stmt(s, ind)
        return out

    def stmt(self, s, ind):
        if isinstance(s, ast.Expr) and isinstance(s.value, ast.Constant):
            return ""
        if isinstance(s, ast.If) and isinstance(s.test, ast.UnaryOp) and isinstance(s.test.op, ast.Not) and isinstance(s.test.operand, ast.Call) \
                and isinstance(s.test.operand.func, ast.Name) and s.test.operand.func.id == "isinstance" and not s.orelse:
            # `if not isinstance(y_test, ndarray): y_test = y_test.to_numpy()`: the translated function takes arrays
            if len(s.body) == 1 and isinstance(s.body[0], ast.Assign) and "to_numpy" in ast.dump(s.body[0].value):
                return ""
            raise Untranslatable("isinstance branch")
        if isinstance(s, ast.Assign) and len(s.targets) == 1:
            tg = s.targets[0]
            if isinstance(tg, ast.Name):
                x, t = self.expr(s.value)
                return self.let(tg.id, x, t, ind)
            if isinstance(tg, ast.Tuple) and len(tg.elts) == 2 and all(isinstance(x, ast.Name) for x in tg.elts) and isinstance(s.value, ast.Call) \
                    and self.attr_path(s.value.func) == "np.unique" and len(s.value.args) == 1:
                kws = self.kw(s.value)
                if set(kws) == {"return_counts"} and isinstance(kws["return_counts"], ast.Constant) and kws["return_counts"].value is True:
                    x, t = self.expr(s.value.args[0])
                    if t == VI:
                        self.uses_unique = True
                        a, b = tg.elts[0].id, tg.elts[1].id
                        return self.let(a, "(np_unique %s)" % x, VI, ind) + self.let(b, "(Np.countsOf %s %s)" % (a, x), VI, ind)
            raise Untranslatable("assignment target")
        if isinstance(s, ast.AugAssign) and isinstance(s.target, ast.Name):
            e = ast.BinOp(left=ast.Name(id=s.target.id, ctx=ast.Load()), op=s.op, right=s.value)
            x, t = self.expr(e)
            return self.let(s.target.id, x, t, ind)
        if isinstance(s, ast.For) and isinstance(s.target, ast.Name) and not s.orelse:
            seq, ts = self.expr(s.iter)
            if ts != VI:
                raise Untranslatable("loop over %s" % ts)
            carried = [n for n in self.assigned(s.body) if n in self.env]
            if not carried:
                raise Untranslatable("loop without carried state")
            before = dict(self.env)
            tys = [self.env[n] for n in carried]
            st_ty = "(" + " × ".join(tys) + ")" if len(carried) > 1 else tys[0]
            ind2 = ind + "    "

            def proj(k):
                return "st_" if len(carried) == 1 else "st_" + ".2" * k + ("" if k == len(carried) - 1 else ".1")
            self.env[s.target.id] = I
            body = "".join("%slet %s : %s := %s\n" % (ind2, n, self.env[n], proj(k)) for k, n in enumerate(carried))
            body += self.stmts(s.body, ind2)
            for n, t in zip(carried, tys):
                if self.env[n] != t:
                    raise Untranslatable("carried %s changes type" % n)
            tup = "(" + ", ".join(carried) + ")" if len(carried) > 1 else carried[0]
            out = "%slet st_ : %s := %s.foldl (fun (st_ : %s) (%s : Int) =>\n%s%s%s) %s\n" % (ind, st_ty, seq, st_ty, s.target.id, body, ind2, tup, tup)
            self.env = before
            for k, n in enumerate(carried):
                out += "%slet %s : %s := %s\n" % (ind, n, self.env[n], proj(k))
            return out
        if isinstance(s, ast.If) and not s.orelse:
            c, tc = self.expr(s.test)
            if tc != B:
                raise Untranslatable("test of type %s" % tc)
            names = self.assigned(s.body)
            if any(n not in self.env for n in names):
                raise Untranslatable("`if` defining new names")
            saved = dict(self.env)
            lets = ""
            for st in s.body:
                lets += self.stmt(st, "").strip().replace("\n", " ") + "; "
            self.env = saved
            tup = "(" + ", ".join(names) + ")" if len(names) > 1 else names[0]
            tty = "(" + " × ".join(self.env[n] for n in names) + ")" if len(names) > 1 else self.env[names[0]]
            out = "%slet ite_ : %s := if %s then (%s%s) else %s\n" % (ind, tty, c, lets, tup, tup)
            for k, n in enumerate(names):
                pr = "ite_" if len(names) == 1 else "ite_" + ".2" * k + ("" if k == len(names) - 1 else ".1")
                out += "%slet %s : %s := %s\n" % (ind, n, self.env[n], pr)
            return out
        if isinstance(s, ast.Return):
            x, t = self.expr(s.value)
            self.ret = t
            return "%s%s\n" % (ind, x)
        raise Untranslatable("statement %s" % type(s).__name__)

    def emit(self, lean_name):
        self.ret = None
        body = self.stmts(self.node.body, "  ")
        if self.ret is None:
            raise Untranslatable("no return")
        ps = ["(np_unique : List Int → List Int)"] if self.uses_unique else []
        ps += ["(y_train : List Int)", "(y_test : List Int)"]
        return "def %s %s : %s :=\n%s" % (lean_name, " ".join(ps), self.ret, body)


HEADER = """import Ds.Np
/-!
# GenU.Elem — GENERATED by harness/translate_util.py from /repo's current source; do not edit.
Element-wise tables of the accuracy and ROC-AUC utilities.
-/
set_option linter.unusedVariables false
namespace GenU
variable {α : Type} [Inhabited α] [Add α] [Sub α] [Mul α] [Div α] [Neg α] [NatCast α] [LT α] [DecidableRel (α := α) (· < ·)]

"""

JOBS = [("SklearnModelAccuracy", "elementwise_score", "acc_elementwise_score"),
        ("SklearnModelAccuracy", "elementwise_null_score", "acc_elementwise_null_score"),
        ("SklearnModelRocAuc", "elementwise_score", "auc_elementwise_score"),
        ("SklearnModelRocAuc", "elementwise_null_score", "auc_elementwise_null_score")]
# SklearnModelRocAuc.elementwise_null_score is inside the subset as well (the vocabulary is in place) but no equivalence theorem has been written
# for it; it stays hand-modelled (Ds.Util.aucNullElem) and is not generated, so that a harmless edit there does not break this tie.


def generate(repo=REPO):
    src = open(os.path.join(repo, "datascope/importance/utility.py")).read()
    report, parts = {}, []
    try:
        tree = ast.parse(src)
    except SyntaxError as e:
        return HEADER + "end GenU\n", {"utility.py": dict(ok=False, why="syntax: %s" % e)}
    for cls_name, meth, lean in JOBS:
        key = "%s.%s" % (cls_name, meth)
        try:
            cls = next((n for n in tree.body if isinstance(n, ast.ClassDef) and n.name == cls_name), None)
            node = next((n for n in (cls.body if cls else []) if isinstance(n, ast.FunctionDef) and n.name == meth), None)
            if node is None:
                raise Untranslatable("not found")
            parts.append("/-- translated from `%s` -/\n%s" % (key, U(node).emit(lean)))
            report[key] = dict(ok=True)
        except Untranslatable as e:
            report[key] = dict(ok=False, why=str(e))
    return HEADER + "\n".join(parts) + "\nend GenU\n", report


def write(repo=REPO, out=OUT):
    text, report = generate(repo)
    os.makedirs(os.path.dirname(out), exist_ok=True)
    old = open(out).read() if os.path.exists(out) else None
    if old != text:
        with open(out + ".tmp", "w") as f:
            f.write(text)
        os.replace(out + ".tmp", out)
    report["_changed"] = old != text
    return report


if __name__ == "__main__":
    if "--print" in sys.argv:
        t, r = generate()
        print(t)
        print(r, file=sys.stderr)
    else:
        print(write())
