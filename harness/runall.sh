#!/bin/bash
# runall.sh [tier] [seed]  — runs every claimed check sequentially, prints one summary line each
cd "$(dirname "$0")/.."
tier=${1:-quick}; export VERIF_SEED=${2:-1}
for p in C01 C02 C03 C04 C05 C06 C07 C08 C09 C10 C11 C12 C13 C14 C15 C16 C17 C18 C19 C20; do
  out=$(./check $p --tier $tier 2>&1); code=$?
  echo "$p exit=$code $(echo "$out" | grep -c '^VIOLATION') viol | $(echo "$out" | tail -1)"
done
