#!/venv/bin/python
"""translate_mc.py — regenerate lean/GenM/Walk.lean: ONE PERMUTATION WALK of ShapleyImportance._shapley_montecarlo.

Translated: the statements of the outer loop body from the per-iteration resets (`importance = np.zeros(n_units)`, `query = …`,
`new_score = null_score`, `truncation_counter = 0`) through the whole inner loop
`for j, idx in enumerate(np.append(-1, idxs), start=-1): …` — prefix growth `query[units[idx]] = world[idx]`, what is handed to
`provenance.query`, the reset `new_score = null_score`, the `try`/`except` classes and escalated warnings, `continue` for the empty
prefix, the marginal `importance[idx] = new_score - old_score`, the tolerance band test, the truncation counter (advance / reset) and the
`break`.  Not translated (hand model + correspondence): drawing the permutation, the clock / timeout, `all_importances[:, i]` and the final average.

On top of translate_skel.py: `if`/`else` with `continue` / `break` inside loop bodies (the loop becomes `Np.forBreakM`, a left fold whose
state carries a "break taken" flag), tuple loop targets over `enumerate(…, start=k)`, comparisons, `and`, `np.abs`, `np.append(scalar, array)`.
"""
import ast
import os
import sys

HERE = os.path.dirname(os.path.abspath(__file__))
sys.path.insert(0, HERE)
from translate import Fn, Untranslatable, INT, FLT, A1, module_int_constants, REPO, VERIF  # noqa: E402
from translate_skel import SkelFn, ROWS, lty  # noqa: E402

OUT = os.path.join(VERIF, "lean", "GenM", "Walk.lean")
BOOL = "bool"


def lt(t):
    return "Bool" if t == BOOL else lty(t)


class WalkFn(SkelFn):
    # ---- expressions
    def expr(self, e):
        if isinstance(e, ast.Compare) and len(e.ops) == 1 and len(e.comparators) == 1:
            a, ta = self.expr(e.left)
            b, tb = self.expr(e.comparators[0])
            sym = {ast.Lt: "<", ast.LtE: "≤", ast.Gt: ">", ast.GtE: "≥", ast.Eq: "=", ast.NotEq: "≠"}.get(type(e.ops[0]))
            if sym is None or ta not in (INT, FLT) or tb not in (INT, FLT):
                raise Untranslatable("comparison")
            t = FLT if FLT in (ta, tb) else INT
            return "(decide (%s %s %s))" % (self.coerce(a, ta, t), sym, self.coerce(b, tb, t)), BOOL
        if isinstance(e, ast.BoolOp) and isinstance(e.op, ast.And):
            xs = [self.expr(v) for v in e.values]
            if any(t != BOOL for _, t in xs):
                raise Untranslatable("`and` of non-booleans")
            return "(" + " && ".join(x for x, _ in xs) + ")", BOOL
        if isinstance(e, ast.Call):
            f = e.func
            if isinstance(f, ast.Attribute) and isinstance(f.value, ast.Name) and f.value.id == "np" and f.attr == "abs" and len(e.args) == 1 and not e.keywords:
                x, t = self.expr(e.args[0])
                if t == FLT:
                    return "(Np.absS %s)" % x, FLT
            if isinstance(f, ast.Attribute) and isinstance(f.value, ast.Name) and f.value.id == "np" and f.attr == "append" and len(e.args) == 2 and not e.keywords:
                a, ta = self.expr(e.args[0])
                b, tb = self.expr(e.args[1])
                if ta == INT and tb == A1(INT):
                    return "(Np.append1 [%s] %s)" % (a, b), A1(INT)
            if isinstance(f, ast.Attribute) and isinstance(f.value, ast.Name) and f.value.id == "np" and f.attr == "zeros" and len(e.args) == 1:
                kws = {k.arg: k.value for k in e.keywords}
                shp = e.args[0]
                if isinstance(shp, ast.Tuple) and len(shp.elts) == 1:
                    shp = shp.elts[0]
                if set(kws) == {"dtype"} and isinstance(kws["dtype"], ast.Name) and kws["dtype"].id == "int":
                    return "(Np.rep (0 : Int) %s)" % self.int_expr(shp), A1(INT)
                if not kws:
                    return "(Np.zeros1 %s)" % self.int_expr(shp), A1(FLT)
        return SkelFn.expr(self, e)

    def bind(self, name, txt, t, ind):
        if name in self.env and self.env[name] != t:
            raise Untranslatable("%s changes type from %r to %r" % (name, self.env[name], t))
        self.env[name] = t
        return "%slet %s : %s := %s\n" % (ind, name, lt(t), txt)

    # ---- control flow inside loop bodies
    def has_jump(self, stmts):
        for s in stmts:
            for n in ast.walk(s):
                if isinstance(n, (ast.Break, ast.Continue)):
                    return True
        return False

    def tup(self, carried):
        return "(" + ", ".join(carried) + ")" if len(carried) > 1 else carried[0]

    def body_k(self, stmts, carried, ind):
        """statements of a loop body -> lines ending in `pure (<carried>, <break taken>)`"""
        if not stmts:
            return "%spure (%s, false)\n" % (ind, self.tup(carried))
        s, rest = stmts[0], stmts[1:]
        if isinstance(s, ast.Continue):
            return "%spure (%s, false)\n" % (ind, self.tup(carried))
        if isinstance(s, ast.Break):
            return "%spure (%s, true)\n" % (ind, self.tup(carried))
        if isinstance(s, ast.If):
            c, tc = self.expr(s.test)
            if tc != BOOL:
                raise Untranslatable("test of type %r" % (tc,))
            if self.has_jump([s]):
                saved = dict(self.env)
                a = self.body_k(list(s.body) + rest, carried, ind + "  ")
                self.env = dict(saved)
                b = self.body_k(list(s.orelse) + rest, carried, ind + "  ")
                self.env = dict(saved)
                return "%sif %s then\n%s%selse\n%s" % (ind, c, a, ind, b)
            # no jump inside: both branches are pure updates of names that already exist
            names = [n for n in self.assigned(list(s.body) + list(s.orelse)) if n in self.env]
            fresh = [n for n in self.assigned(list(s.body) + list(s.orelse)) if n not in self.env]
            if fresh or not names:
                raise Untranslatable("`if` defining new names %r" % (fresh,))

            def branch(bs):
                saved = dict(self.env)
                lets = ""
                for st in bs:
                    line = Fn.stmt(self, st, "")
                    lets += line.strip().replace("\n", " ") + "; " if line.strip() else ""
                self.env = saved
                return "(" + lets + self.tup(names) + ")"
            tys = [self.env[n] for n in names]
            tty = lt(("tuple", tys)) if len(names) > 1 else lt(tys[0])
            out = "%slet ite_ : %s := if %s then %s else %s\n" % (ind, tty, c, branch(s.body), branch(s.orelse))
            for k, n in enumerate(names):
                proj = "ite_" if len(names) == 1 else "ite_" + ".2" * k + ("" if k == len(names) - 1 else ".1")
                out += "%slet %s : %s := %s\n" % (ind, n, lt(self.env[n]), proj)
            return out + self.body_k(rest, carried, ind)
        return self.stmt(s, ind) + self.body_k(rest, carried, ind)

    def loop(self, s, ind):
        if s.orelse:
            raise Untranslatable("for/else")
        it = s.iter
        pre = ""
        if isinstance(it, ast.Call) and isinstance(it.func, ast.Name) and it.func.id == "enumerate" and len(it.args) == 1 \
                and isinstance(s.target, ast.Tuple) and len(s.target.elts) == 2 and all(isinstance(x, ast.Name) for x in s.target.elts):
            kws = {k.arg: k.value for k in it.keywords}
            if set(kws) - {"start"}:
                raise Untranslatable("enumerate keywords")
            start = self.int_expr(kws["start"]) if "start" in kws else "(0 : Int)"
            seq, ts = self.expr(it.args[0])
            if ts != A1(INT):
                raise Untranslatable("enumerate over %r" % (ts,))
            lst = "(Np.enumerateFrom %s %s)" % (start, seq)
            var, vty = "jx_", "(Int × Int)"
            names = [x.id for x in s.target.elts]
            binds = [(names[0], INT, "jx_.1"), (names[1], INT, "jx_.2")]
        elif isinstance(it, ast.Call) and isinstance(it.func, ast.Name) and it.func.id in ("range", "prange") and isinstance(s.target, ast.Name):
            a = [self.int_expr(x) for x in it.args]
            lst = {1: "(Np.range (0 : Int) %s (1 : Int))", 2: "(Np.range %s %s (1 : Int))", 3: "(Np.range %s %s %s)"}[len(a)] % tuple(a)
            var, vty = s.target.id, "Int"
            binds = []
            names = [s.target.id]
        else:
            raise Untranslatable("loop iterable")
        carried = [n for n in self.assigned(s.body) if n in self.env and n not in names and n not in self.opaque_names]
        if not carried:
            raise Untranslatable("loop without carried state")
        before = dict(self.env)
        tys = [self.env[n] for n in carried]
        st_ty = lt(("tuple", tys)) if len(carried) > 1 else lt(tys[0])
        ind2 = ind + "    "
        body = ""
        for n, t, src in binds:
            self.env[n] = t
            body += "%slet %s : %s := %s\n" % (ind2, n, lt(t), src)
        if not binds:
            self.env[var] = INT
        for k, n in enumerate(carried):
            proj = "st_" if len(carried) == 1 else "st_" + ".2" * k + ("" if k == len(carried) - 1 else ".1")
            body += "%slet %s : %s := %s\n" % (ind2, n, lt(self.env[n]), proj)
        body += self.body_k(list(s.body), carried, ind2)
        out = "%slet st_ : %s ← Np.forBreakM %s %s (fun (st_ : %s) (%s : %s) => do\n%s%s)\n" % (ind, st_ty, lst, self.tup(carried), st_ty, var, vty, body, ind)
        self.env = dict(before)
        for k, n in enumerate(carried):
            proj = "st_" if len(carried) == 1 else "st_" + ".2" * k + ("" if k == len(carried) - 1 else ".1")
            out += "%slet %s : %s := %s\n" % (ind, n, lt(self.env[n]), proj)
        return out


HEADER = """import Ds.Np
/-!
# GenM.Walk — GENERATED by harness/translate_mc.py from /repo's current source; do not edit.
One permutation walk of `ShapleyImportance._shapley_montecarlo` (per-iteration resets + the inner loop); opaque library calls are parameters.
-/
set_option linter.unusedVariables false
namespace GenM
variable {α : Type} [Inhabited α] [Add α] [Sub α] [Mul α] [Div α] [Neg α] [NatCast α] [LE α] [DecidableRel (α := α) (· ≤ ·)]
  [LT α] [DecidableRel (α := α) (· < ·)]

"""

# values the walk reads that are defined outside the translated slice: parameters of the generated function
WALK_INPUTS = [("null_score", FLT), ("mean_score", FLT), ("tolerance", FLT), ("truncation_steps", INT), ("n_units", INT), ("n_units_total", INT),
               ("units", A1(INT)), ("world", A1(INT)), ("idxs", A1(INT)), ("all_truncations", A1(INT)), ("i", INT)]
WALK_OUTPUTS = ["importance", "query", "new_score", "truncation_counter", "all_truncations"]


def generate(repo=REPO):
    src = open(os.path.join(repo, "datascope/importance/shapley.py")).read()
    report, parts = {}, []
    try:
        tree = ast.parse(src)
        fn = next((n for n in ast.walk(tree) if isinstance(n, ast.FunctionDef) and n.name == "_shapley_montecarlo"), None)
        if fn is None:
            raise Untranslatable("function _shapley_montecarlo not found")
        outer = [s for s in fn.body if isinstance(s, ast.For)]
        if len(outer) != 1:
            raise Untranslatable("expected exactly one top-level loop")
        body = outer[0].body
        k0 = next((k for k, s in enumerate(body) if isinstance(s, ast.Assign) and isinstance(s.targets[0], ast.Name) and s.targets[0].id == "idxs"), None)
        k1 = next((k for k, s in enumerate(body) if isinstance(s, ast.For)), None)
        if k0 is None or k1 is None or k1 < k0:
            raise Untranslatable("walk slice not found (idxs = … ; … ; for j, idx in …)")
        if sum(1 for s in body if isinstance(s, ast.For)) != 1:
            raise Untranslatable("expected exactly one inner loop")
        # nothing between the draw of the permutation and the end of the inner loop may be left out; what follows the loop must not touch the walk's state before storing it
        sl = body[k0 + 1:k1 + 1]
        node = ast.FunctionDef(name="mc_walk", args=ast.arguments(posonlyargs=[], args=[ast.arg(arg=n) for n, _ in WALK_INPUTS], kwonlyargs=[], kw_defaults=[], defaults=[]),
                               body=sl + [ast.Return(value=ast.Tuple(elts=[ast.Name(id=n, ctx=ast.Load()) for n in WALK_OUTPUTS], ctx=ast.Load()))], decorator_list=[])
        f = WalkFn(node, dict(WALK_INPUTS),
                   opaque_names=["self", "X_train", "y_train", "X_test", "y_test", "metadata_train", "metadata_test", "warnings", "X_test_preprocessed", "X_train_preprocessed"],
                   opaque_calls={"provenance.query": ("provenance_query", [A1(INT)], ROWS)},
                   opaque_defs={}, consts=module_int_constants(src), lean_name="mc_walk")
        f.walk_outputs = WALK_OUTPUTS
        txt = f.emit()
        parts.append("/-- translated from `ShapleyImportance._shapley_montecarlo` (one permutation: resets + inner loop) -/\n" + txt)
        # what follows the inner loop in the source: recorded so that a change there is visible in the report
        after = [ast.unparse(s)[:80] for s in body[k1 + 1:k1 + 2]]
        report["_shapley_montecarlo.walk"] = dict(ok=True, stored_by=after, **getattr(f, "try_info", {}))
        try:
            parts.append(outer_template(fn, outer[0], k0, k1))
            report["_shapley_montecarlo.outer"] = dict(ok=True)
        except Untranslatable as e:
            report["_shapley_montecarlo.outer"] = dict(ok=False, why=str(e))
    except Untranslatable as e:
        report["_shapley_montecarlo.walk"] = dict(ok=False, why=str(e))
    except SyntaxError as e:
        report["_shapley_montecarlo.walk"] = dict(ok=False, why="syntax: %s" % e)
    return HEADER + "\n".join(parts) + "\nend GenM\n", report


OUTER_PRE = ["n_units_total = provenance.num_units", "n_units = len(units)", "all_importances = np.zeros((n_units, iterations))",
             "all_truncations = np.ones(iterations, dtype=int) * n_units", "start_time = time.time()"]
OUTER_POST = ["scores = np.average(all_importances, axis=1)", "truncations = np.average(all_truncations)"]
OUTER_LEAN = """/-- translated from `ShapleyImportance._shapley_montecarlo`: the loop over iterations around the walk (`walk idxs all_truncations i` stands for the
per-iteration resets and the inner loop, i.e. `mc_walk`; it returns `importance` and `all_truncations`); `perms` are the successive results of
`self.randomstate.permutation(n_units)`, `clock` the successive readings of `time.time()`; the matrix `all_importances` is kept column-wise (`Np.M`) -/
def mc_outer (walk : (List Int) → (List Int) → Int → Except String ((List α) × (List Int))) (perms : List (List Int)) (clock : List α)
    (n_units : Int) (iterations : Int) (timeout : Int) : Except String (List α) := do
  let all_importances : (Np.M α) := (Np.zerosM n_units iterations)
  let all_truncations : (List Int) := (List.map (fun x_ => x_ * n_units) (Np.rep (1 : Int) iterations))
  let start_time : α := (Np.headF clock)
  let clock : (List α) := clock.tail
  let st_ : ((Np.M α) × (List Int) × (List (List Int)) × (List α)) ← Np.forBreakM (Np.range (0 : Int) iterations (1 : Int)) (all_importances, all_truncations, perms, clock) (fun (st_ : ((Np.M α) × (List Int) × (List (List Int)) × (List α))) (i : Int) => do
      let all_importances : (Np.M α) := st_.1
      let all_truncations : (List Int) := st_.2.1
      let perms : (List (List Int)) := st_.2.2.1
      let clock : (List α) := st_.2.2.2
      let idxs : (List Int) := (Np.headL perms)
      let perms : (List (List Int)) := perms.tail
      let w_ ← walk idxs all_truncations i
      let importance : (List α) := w_.1
      let all_truncations : (List Int) := w_.2
      let all_importances : (Np.M α) := Np.setColM all_importances i importance
      let tnow_ : α := (Np.headF clock)
      let clock : (List α) := clock.tail
      let elapsed_time : α := (tnow_ - start_time)
      if ((decide (timeout > (0 : Int))) && (decide (elapsed_time > (Np.ofInt timeout)))) then
        let all_importances : (Np.M α) := (Np.sliceColsM all_importances (i + (1 : Int)))
        pure ((all_importances, all_truncations, perms, clock), true)
      else
        pure ((all_importances, all_truncations, perms, clock), false)
  )
  let all_importances : (Np.M α) := st_.1
  let scores : (List α) := (Np.averageAxis1M all_importances)
  pure scores
"""


def outer_template(fn, outer, k0, k1):
    """the statements of `_shapley_montecarlo` around the walk must be EXACTLY the known skeleton; then the fixed Lean text above is their translation"""
    top = fn.body
    pos = top.index(outer)
    pre = [ast.unparse(s) for s in top[pos - len(OUTER_PRE):pos]]
    if pre != OUTER_PRE:
        raise Untranslatable("statements before the loop: %r" % pre)
    if ast.unparse(outer.target) != "i" or ast.unparse(outer.iter) != "range(iterations)" or outer.orelse:
        raise Untranslatable("outer loop header")
    body = outer.body
    if k0 != 0 or ast.unparse(body[0]) != "idxs = self.randomstate.permutation(n_units)":
        raise Untranslatable("the permutation is not drawn first in the loop body")
    tail = body[k1 + 1:]
    want = ["all_importances[:, i] = importance", "elapsed_time = time.time() - start_time"]
    if [ast.unparse(s) for s in tail[:2]] != want or len(tail) != 3:
        raise Untranslatable("statements after the inner loop: %r" % [ast.unparse(s)[:60] for s in tail])
    t = tail[2]
    if not (isinstance(t, ast.If) and not t.orelse and ast.unparse(t.test) == "timeout > 0 and elapsed_time > timeout"
            and [ast.unparse(x) for x in t.body] == ["all_importances = all_importances[:, :i + 1]", "break"]):
        raise Untranslatable("timeout branch: %s" % ast.unparse(t)[:120])
    post = [ast.unparse(s) for s in top[pos + 1:pos + 1 + len(OUTER_POST)]]
    if post != OUTER_POST:
        raise Untranslatable("statements after the loop: %r" % post)
    rest = top[pos + 1 + len(OUTER_POST):]
    if not (len(rest) == 2 and isinstance(rest[0], ast.Expr) and "logger.debug" in ast.unparse(rest[0]) and ast.unparse(rest[1]) == "return scores"):
        raise Untranslatable("tail of the function: %r" % [ast.unparse(s)[:60] for s in rest])
    return OUTER_LEAN


def _stmt_return(self, s, ind):
    return None


# returning a tuple of the walk's variables
_orig_stmt = WalkFn.stmt


def _stmt(self, s, ind):
    if isinstance(s, ast.Return) and isinstance(s.value, ast.Tuple) and all(isinstance(x, ast.Name) for x in s.value.elts):
        names = [x.id for x in s.value.elts]
        for n in names:
            if n not in self.env:
                raise Untranslatable("walk output %s is not defined" % n)
        self.ret = ("tuple", [self.env[n] for n in names])
        return "%spure (%s)\n" % (ind, ", ".join(names))
    return _orig_stmt(self, s, ind)


WalkFn.stmt = _stmt


def write(repo=REPO, out=OUT):
    text, report = generate(repo)
    os.makedirs(os.path.dirname(out), exist_ok=True)
    old = open(out).read() if os.path.exists(out) else None
    if old != text:
        with open(out + ".tmp", "w") as f:
            f.write(text)
        os.replace(out + ".tmp", out)
    report["_changed"] = old != text
    return report


if __name__ == "__main__":
    if "--print" in sys.argv:
        t, r = generate()
        print(t)
        print(r, file=sys.stderr)
    else:
        print(write())
