"""Structured generators.  Every random choice comes from the rng handed in (seeded from VERIF_SEED)."""
from fractions import Fraction


def rand_lit(rng, n_units, n_cands=2, p_zero=0.2):
    u = rng.randrange(n_units)
    c = rng.randrange(n_cands) if rng.random() < p_zero else rng.randrange(1, n_cands)
    return [u, c]


def rand_conj(rng, n_units, maxw=3, n_cands=2, p_zero=0.2, distinct=False):
    w = rng.randint(1, maxw)
    if distinct:
        us = rng.sample(range(n_units), min(w, n_units))
        return [[u, (rng.randrange(n_cands) if rng.random() < p_zero else rng.randrange(1, n_cands))] for u in us]
    return [rand_lit(rng, n_units, n_cands, p_zero) for _ in range(w)]


def rand_expr_flat(rng, n_units, maxd=3, maxw=3, n_cands=2, p_zero=0.2):
    """a flat expression: eq | conj | disj (JSON form shared with the Lean driver)"""
    k = rng.random()
    if k < 0.25:
        return {"eq": rand_lit(rng, n_units, n_cands, p_zero)}
    if k < 0.55:
        return {"conj": rand_conj(rng, n_units, maxw, n_cands, p_zero)}
    d = rng.randint(1, maxd)
    return {"disj": [rand_conj(rng, n_units, maxw, n_cands, p_zero) for _ in range(d)]}


def rand_expr_tree(rng, n_units, depth=3, n_cands=2):
    """nested &/| tree over flat leaves"""
    if depth == 0 or rng.random() < 0.3:
        return rand_expr_flat(rng, n_units, 2, 2, n_cands)
    op = "and" if rng.random() < 0.5 else "or"
    return {op: [rand_expr_tree(rng, n_units, depth - 1, n_cands), rand_expr_tree(rng, n_units, depth - 1, n_cands)]}


def build_expr(prov_mod, units, e):
    """JSON tree -> real datascope Expression using the library's own operators.  `units[pos]` yields the Unit at a position;
    `units.ck(c)` (optional) maps a candidate INDEX to the candidate KEY the library compares with."""
    ck = getattr(units, "ck", lambda c: c)
    if "eq" in e:
        u, c = e["eq"]
        return units[u] == ck(c)
    if "conj" in e:
        lits = [units[u] == ck(c) for u, c in e["conj"]]
        return prov_mod.Conjunction(*lits)
    if "disj" in e:
        return prov_mod.Disjunction(*[prov_mod.Conjunction(*[units[u] == ck(c) for u, c in cj]) for cj in e["disj"]])
    if "and" in e:
        a, b = e["and"]
        return build_expr(prov_mod, units, a) & build_expr(prov_mod, units, b)
    if "or" in e:
        a, b = e["or"]
        return build_expr(prov_mod, units, a) | build_expr(prov_mod, units, b)
    raise ValueError(e)


def rand_hypergraph(rng, n_units, n_rows, maxw=3, allow_isolated=True):
    """conjunctive provenance: each row needs a set of 1..maxw distinct units (value 1)."""
    rows = []
    for _ in range(n_rows):
        w = rng.randint(1, min(maxw, n_units))
        rows.append(sorted(rng.sample(range(n_units), w)))
    return rows


def rand_hub_hypergraph(rng, n_units, n_rows):
    """conjunctive provenance with a 'hub': one unit that co-occurs with several other units AND owns rows that need it alone
    (rows {h}, {h,a}, {h,b}, ...; the remaining rows are more of the same or random sets of 1-3 units). In the compiled diagram the hub is a
    factor variable of a stacked component and its single-unit rows put their tallies on the header (root) edges; with probability >= 0.7 unit 0 is
    the hub or one of its partners, so that the hub's component - and with it the hub - comes first in the diagram. Needs n_units >= 2, n_rows >= 2."""
    hub = rng.randrange(n_units)
    others = [u for u in range(n_units) if u != hub]
    partners = rng.sample(others, min(len(others), max(1, n_rows - 1), rng.randint(2, 3)))
    if hub != 0 and 0 not in partners and rng.random() < 0.7:
        partners[0] = 0
    rows = [[hub]] + [sorted([hub, p]) for p in partners]
    while len(rows) < n_rows:
        r = rng.random()
        if r < 0.4:
            rows.append([hub])
        elif r < 0.8:
            rows.append(sorted([hub, rng.choice(others)]))
        else:
            rows.append(sorted(rng.sample(range(n_units), rng.randint(1, min(3, n_units)))))
    rng.shuffle(rows)
    return rows


def rand_groups(rng, n_rows, n_units):
    """every row owned by exactly one unit; every unit owns at least one row when possible"""
    g = [rng.randrange(n_units) for _ in range(n_rows)]
    for u in range(min(n_units, n_rows)):
        if u not in g:
            g[rng.randrange(n_rows)] = u
    # make sure all of 0..n_units-1 appear (n_rows >= n_units assumed by callers)
    missing = [u for u in range(n_units) if u not in g]
    for u in missing:
        counts = {x: g.count(x) for x in set(g)}
        donors = [i for i, x in enumerate(g) if counts[x] > 1]
        if not donors:
            break
        g[rng.choice(donors)] = u
    return g


def rand_perm(rng, n):
    p = list(range(n))
    rng.shuffle(p)
    return p


def distinct_distances(rng, n, m):
    """n rows x m points, pairwise distinct per column, small dyadic-friendly integers"""
    cols = []
    for _ in range(m):
        vals = rng.sample(range(1, 8 * n + 8), n)
        cols.append(vals)
    return [[cols[j][i] for j in range(m)] for i in range(n)]


def tied_distances(rng, n, m, levels=3):
    return [[rng.randrange(1, levels + 1) for _ in range(m)] for _ in range(n)]


def frac(x):
    return str(Fraction(x))
