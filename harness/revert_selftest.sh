#!/bin/bash
# For each fix: commit in /repo, re-introduce the defect in the working tree (reverse patch), run the named checks, undo.
# usage: revert_selftest.sh            (prints one line per (commit, check))
cd /repo || exit 2
run() { # commit checks...
  c=$1; shift
  git show $c -- . ':!datascope/importance/shapley_cy.c' | git apply -R --recount 2>/dev/null || { echo "$c: cannot reverse-apply"; return; }
  for p in "$@"; do
    out=$(cd /verif && ./check $p 2>&1 | grep -c "^VIOLATION")
    echo "$c $(git log --format=%s -1 $c | cut -c1-60) | $p violations=$out"
  done
  git checkout -- .
}
run d15bcd7 C02
run c6fc3bd C02 C09
run cfe2498 C09 C02
run c9ef78e C16
run 6f55c15 C13 C06
run e27aad8 C05 C19
run 190c107 C11
run 94c18da C19
run ccd94ff C12 C01
run 5fc5591 C19
run 79b75b1 C04 C06
run 9f4bb17 C10
run d82c9f9 C02
run 52f7a89 C01 C19
run 81229cd C14
run 09ad5cf C19
