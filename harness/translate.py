#!/venv/bin/python
"""translate.py — regenerate lean/Gen/Kernel.lean from /repo's CURRENT source.

A small typed-Python-subset → Lean translator for the loop kernels of datascope:

    datascope/importance/shapley.py      compute_all_importances      (pure-Python reference kernel)
    datascope/importance/shapley_cy.pyx  compute_all_importances_cy   (Cython kernel: cdef lines and C types are parsed too)
    datascope/importance/shapley.py      get_test_batch_size, BATCH_DISTANCE_MATRIX_SIZE

The generated definitions use only the vocabulary of lean/Ds/Np.lean.  `DsProofs/GenProofs.lean` proves that they are equal to the
hand-written model (`Ds.Kernel.importances`, `Ds.Neighbor.getTestBatchSize`) the property theorems are about, so those theorems are
re-checked against what the source says NOW: a change to one of these functions changes the generated text and the equivalence
proof has to go through again.

Subset: assignments to names (also tuple targets from `.shape`), augmented assignment to names and to subscripts, `for v in
range/prange(...)`, `return`, `assert` (ignored), arithmetic + - * / //, unary minus, int/float literals, `float()`, `max/min`,
subscripts `a[i]`, `a[i, j]`, `a[:, j]`, `a[p:q]`, `.shape`, `.shape[k]`, and the numpy calls zeros, vstack, repeat, append, argsort,
full.  Loop-carried state = names assigned in the body that are defined before the loop.  A C variable declared `float` (single
precision) makes every assignment to it go through the uninterpreted function `narrow`, which no equivalence proof survives.
Anything outside the subset raises Untranslatable; the caller then writes a Gen file whose definitions are missing, the proofs no
longer check and the check falls back to searching for a failing input.
"""
import ast
import os
import re
import sys

REPO = os.environ.get("VERIF_REPO", "/repo")
VERIF = os.path.dirname(os.path.dirname(os.path.abspath(__file__)))
OUT = os.path.join(VERIF, "lean", "Gen", "Kernel.lean")


class Untranslatable(Exception):
    pass


# ------------------------------------------------------------------------------------------------ types
INT, FLT = "int", "float"


def A1(e):
    return ("arr1", e)


def A2(e):
    return ("arr2", e)


def lean_ty(t):
    if t == INT:
        return "Int"
    if t == FLT:
        return "α"
    if t[0] == "arr1":
        return "(List %s)" % lean_ty(t[1])
    if t[0] == "arr2":
        return "(Np.A2 %s)" % lean_ty(t[1])
    if t[0] == "tuple":
        return "(" + " × ".join(lean_ty(x) for x in t[1]) + ")"
    raise Untranslatable("type %r" % (t,))


# ------------------------------------------------------------------------------------------------ Cython → Python + declarations
C_SCALARS = {"int": (INT, False), "long": (INT, False), "Py_ssize_t": (INT, False), "INT_t": (INT, False),
             "double": (FLT, False), "FLOAT_t": (FLT, False), "float": (FLT, True)}          # name -> (type, narrowing?)


def preprocess_pyx(src):
    """returns (python source, {var: (type, narrow)}, {ctypedef name: numpy type}) for the pyx file"""
    decls, typedefs, out = {}, {}, []
    for line in src.splitlines():
        s = line.strip()
        m = re.match(r"ctypedef\s+cnp\.(\w+)\s+(\w+)", s)
        if m:
            typedefs[m.group(2)] = m.group(1)
            out.append("")
            continue
        if s.startswith("cimport") or s.startswith("cnp.import_array") or s.startswith("@cython.") or s.startswith("#"):
            out.append("")
            continue
        m = re.match(r"(\s*)cdef\s+cnp\.ndarray\[(\w+),\s*ndim=(\d)\]\s+(\w+)\s*$", line)
        if m:
            decls[m.group(4)] = ("ndarray", m.group(2), int(m.group(3)))
            out.append("")
            continue
        m = re.match(r"(\s*)cdef\s+(\w+)\s+(.*)$", line)
        if m:
            ctype, rest = m.group(2), m.group(3)
            if ctype not in C_SCALARS:
                raise Untranslatable("cdef type %s" % ctype)
            if "=" in rest:
                name, expr = rest.split("=", 1)
                decls[name.strip()] = ("scalar", ctype)
                out.append("%s%s = %s" % (m.group(1), name.strip(), expr.strip()))
            else:
                for name in rest.split(","):
                    decls[name.strip()] = ("scalar", ctype)
                out.append("")
            continue
        m = re.match(r"(\s*)def\s+(\w+)\((.*)\):\s*$", line)
        if m and "cnp.ndarray" in m.group(3):
            params = []
            for p in re.findall(r"cnp\.ndarray\[(\w+),\s*ndim=(\d)\]\s+(\w+)", m.group(3)):
                decls[p[2]] = ("ndarray", p[0], int(p[1]))
                params.append(p[2])
            out.append("%sdef %s(%s):" % (m.group(1), m.group(2), ", ".join(params)))
            continue
        out.append(line)
    return "\n".join(out) + "\n", decls, typedefs


def resolve_decl(d, typedefs):
    """declared C type -> (type, narrow)"""
    def elem(name):
        np_t = typedefs.get(name, name)
        if np_t in ("float64_t",):
            return FLT, False
        if np_t in ("float32_t",):
            return FLT, True
        if np_t in ("int64_t", "int32_t", "int_t", "intp_t"):
            return INT, False
        raise Untranslatable("array element type %s" % name)
    if d[0] == "ndarray":
        e, nar = elem(d[1])
        return (A1(e) if d[2] == 1 else A2(e)), nar
    t, nar = C_SCALARS[d[1]]
    if d[1] in typedefs:
        t, nar = elem(d[1])
    return t, nar


# ------------------------------------------------------------------------------------------------ translator
class Fn:
    def __init__(self, node, param_types, decls=None, typedefs=None, consts=None, lean_name=None):
        self.node = node
        self.env = dict(param_types)            # name -> type
        self.params = [a.arg for a in node.args.args]
        for p in self.params:
            if p not in self.env:
                raise Untranslatable("no type for parameter %s" % p)
        self.decl = {}
        for k, d in (decls or {}).items():
            self.decl[k] = resolve_decl(d, typedefs or {})
        for p in self.params:
            if p in self.decl and self.decl[p][0] != self.env[p]:
                raise Untranslatable("declared type of parameter %s is %r, expected %r" % (p, self.decl[p][0], self.env[p]))
        self.consts = consts or {}
        self.uses_sorter = False
        self.uses_narrow = False
        self.globals_used = []
        self.lean_name = lean_name or node.name
        self.ret = None

    # ---- expressions: returns (lean text, type)
    def coerce(self, txt, t, want):
        if t == want:
            return txt
        if t == INT and want == FLT:
            return "(Np.ofInt %s)" % txt
        raise Untranslatable("cannot use %r as %r" % (t, want))

    def expr(self, e):
        if isinstance(e, ast.Constant):
            if isinstance(e.value, bool) or e.value is None:
                raise Untranslatable("constant %r" % (e.value,))
            if isinstance(e.value, int):
                return ("(%d : Int)" % e.value if e.value >= 0 else "(-%d : Int)" % -e.value), INT
            if isinstance(e.value, float) and e.value == int(e.value) and abs(e.value) < 2 ** 53:
                return "(Np.ofInt (%d : Int) : α)" % int(e.value), FLT
            raise Untranslatable("constant %r" % (e.value,))
        if isinstance(e, ast.Name):
            if e.id in self.env:
                return e.id, self.env[e.id]
            if e.id in self.consts:
                # a module-level integer: a parameter of the translated function (it can be rebound at run time); its current value is emitted beside it
                if e.id not in self.globals_used:
                    self.globals_used.append(e.id)
                return e.id, INT
            raise Untranslatable("unknown name %s" % e.id)
        if isinstance(e, ast.UnaryOp) and isinstance(e.op, ast.USub):
            x, t = self.expr(e.operand)
            if t not in (INT, FLT):
                raise Untranslatable("unary minus on %r" % (t,))
            return "(-%s)" % x, t
        if isinstance(e, ast.BinOp):
            a, ta = self.expr(e.left)
            b, tb = self.expr(e.right)
            if ta not in (INT, FLT) or tb not in (INT, FLT):
                # array / scalar
                if isinstance(e.op, ast.Div) and ta == A1(FLT) and tb in (INT, FLT):
                    return "(Np.divS %s %s)" % (a, self.coerce(b, tb, FLT)), A1(FLT)
                raise Untranslatable("binary operator on %r, %r" % (ta, tb))
            if isinstance(e.op, ast.Div):
                return "(%s / %s)" % (self.coerce(a, ta, FLT), self.coerce(b, tb, FLT)), FLT
            if isinstance(e.op, ast.FloorDiv):
                if ta == INT and tb == INT:
                    return "(Np.floordiv %s %s)" % (a, b), INT
                raise Untranslatable("// on floats")
            op = {ast.Add: "+", ast.Sub: "-", ast.Mult: "*"}.get(type(e.op))
            if op is None:
                raise Untranslatable("operator %s" % type(e.op).__name__)
            t = FLT if FLT in (ta, tb) else INT
            return "(%s %s %s)" % (self.coerce(a, ta, t), op, self.coerce(b, tb, t)), t
        if isinstance(e, ast.Attribute) and e.attr == "shape":
            a, t = self.expr(e.value)
            if t[0] == "arr2":
                return "(Np.shape0 %s, Np.shape1 %s)" % (a, a), ("tuple", [INT, INT])
            if t[0] == "arr1":
                return "(Np.len1 %s)" % a, ("tuple", [INT])
            raise Untranslatable(".shape of %r" % (t,))
        if isinstance(e, ast.Subscript):
            return self.subscript(e)
        if isinstance(e, ast.Call):
            return self.call(e)
        if isinstance(e, (ast.List, ast.Tuple)):
            xs = [self.expr(x) for x in e.elts]
            if xs and all(t == INT for _, t in xs):
                return "[" + ", ".join(x for x, _ in xs) + "]", A1(INT)
            if xs and all(t in (INT, FLT) for _, t in xs):
                return "[" + ", ".join(self.coerce(x, t, FLT) for x, t in xs) + "]", A1(FLT)
            raise Untranslatable("list display")
        raise Untranslatable("expression %s" % type(e).__name__)

    def index_parts(self, sl):
        return list(sl.elts) if isinstance(sl, ast.Tuple) else [sl]

    def subscript(self, e):
        # x.shape[k]
        if isinstance(e.value, ast.Attribute) and e.value.attr == "shape":
            a, t = self.expr(e.value.value)
            k = e.slice
            if not (isinstance(k, ast.Constant) and isinstance(k.value, int)):
                raise Untranslatable("shape index")
            if t[0] == "arr2" and k.value in (0, 1):
                return "(Np.shape%d %s)" % (k.value, a), INT
            if t[0] == "arr1" and k.value == 0:
                return "(Np.len1 %s)" % a, INT
            raise Untranslatable("shape[%r] of %r" % (k.value, t))
        a, t = self.expr(e.value)
        parts = self.index_parts(e.slice)
        if t[0] == "arr1" and len(parts) == 1:
            p = parts[0]
            if isinstance(p, ast.Slice):
                if p.step is not None:
                    raise Untranslatable("slice step")
                lo = "none" if p.lower is None else "(some %s)" % self.int_expr(p.lower)
                hi = "none" if p.upper is None else "(some %s)" % self.int_expr(p.upper)
                return "(Np.slice1 %s %s %s)" % (a, lo, hi), t
            return "(Np.get1 %s %s)" % (a, self.int_expr(p)), t[1]
        if t[0] == "arr2" and len(parts) == 2:
            p, q = parts
            if isinstance(p, ast.Slice) and p.lower is None and p.upper is None and p.step is None and not isinstance(q, ast.Slice):
                return "(Np.col %s %s)" % (a, self.int_expr(q)), A1(t[1])
            if not isinstance(p, ast.Slice) and not isinstance(q, ast.Slice):
                return "(Np.get2 %s %s %s)" % (a, self.int_expr(p), self.int_expr(q)), t[1]
        raise Untranslatable("subscript of %r" % (t,))

    def int_expr(self, e):
        x, t = self.expr(e)
        if t != INT:
            raise Untranslatable("index of type %r" % (t,))
        return x

    def call(self, e):
        f = e.func
        name = f.id if isinstance(f, ast.Name) else (f.attr if isinstance(f, ast.Attribute) and isinstance(f.value, ast.Name) and f.value.id == "np" else None)
        is_np = isinstance(f, ast.Attribute)
        kws = {k.arg: k.value for k in e.keywords}
        if name == "float" and not is_np and len(e.args) == 1:
            x, t = self.expr(e.args[0])
            return self.coerce(x, t, FLT), FLT
        if name in ("max", "min") and not is_np and len(e.args) == 2:
            (a, ta), (b, tb) = self.expr(e.args[0]), self.expr(e.args[1])
            if ta == INT and tb == INT:
                return "(Np.i%s %s %s)" % (name, a, b), INT
            raise Untranslatable("max/min on floats")
        if is_np and name == "zeros":
            shp = e.args[0]
            if isinstance(shp, (ast.List, ast.Tuple)) and len(shp.elts) == 1:
                shp = shp.elts[0]
            d = kws.get("dtype")
            if d is not None and not (isinstance(d, ast.Name) and d.id in ("FLOAT", "float")):
                raise Untranslatable("zeros dtype")
            return "(Np.zeros1 %s)" % self.int_expr(shp), A1(FLT)
        if is_np and name == "vstack" and len(e.args) == 1 and isinstance(e.args[0], ast.Tuple) and len(e.args[0].elts) == 2:
            (a, ta), (b, tb) = [self.expr(x) for x in e.args[0].elts]
            if ta[0] == "arr2" and tb == A1(ta[1]):
                return "(Np.vstack1 %s %s)" % (a, b), ta
            if ta[0] == "arr2" and tb == ta:
                return "(Np.vstack2 %s %s)" % (a, b), ta
            raise Untranslatable("vstack of %r, %r" % (ta, tb))
        if is_np and name == "repeat" and len(e.args) == 2:
            (a, ta), n = self.expr(e.args[0]), self.int_expr(e.args[1])
            if ta in (INT, FLT):
                return "(Np.rep %s %s)" % (a, n), A1(ta)
        if is_np and name == "full" and len(e.args) == 2:
            shp, (v, tv) = e.args[0], self.expr(e.args[1])
            d = kws.get("dtype")
            if d is not None and not (isinstance(d, ast.Name) and d.id in ("int", "INT")) or tv != INT:
                raise Untranslatable("np.full dtype/value")
            if isinstance(shp, ast.Tuple) and len(shp.elts) == 2:
                return "(Np.full2 %s %s %s)" % (self.int_expr(shp.elts[0]), self.int_expr(shp.elts[1]), v), A2(INT)
        if is_np and name == "append" and len(e.args) == 2:
            (a, ta), (b, tb) = self.expr(e.args[0]), self.expr(e.args[1])
            if ta[0] == "arr1" and tb == ta:
                return "(Np.append1 %s %s)" % (a, b), ta
        if is_np and name == "argsort":
            a, ta = self.expr(e.args[0])
            ax = kws.get("axis")
            self.uses_sorter = True
            if ta == A1(FLT) and ax is None and len(e.args) == 1 and not kws:
                return "(argsort %s)" % a, A1(INT)
            if ta == A2(FLT) and isinstance(ax, ast.Constant) and ax.value == 0 and len(e.args) == 1 and set(kws) == {"axis"}:
                return "(Np.argsort0 argsort %s)" % a, A2(INT)
        raise Untranslatable("call %s" % ast.dump(e)[:120])

    # ---- statements
    def assigned(self, body):
        names = []
        for s in body:
            for n in ast.walk(s):
                if isinstance(n, (ast.Assign, ast.AugAssign, ast.AnnAssign)):
                    tg = n.targets if isinstance(n, ast.Assign) else [n.target]
                    for t in tg:
                        for x in ([t] if not isinstance(t, ast.Tuple) else t.elts):
                            base = x
                            while isinstance(base, ast.Subscript):
                                base = base.value
                            if isinstance(base, ast.Name) and base.id not in names:
                                names.append(base.id)
                if isinstance(n, ast.For) and isinstance(n.target, ast.Name) and n.target.id not in names:
                    names.append(n.target.id)
        return names

    def bind(self, name, txt, t, ind):
        """`name = <txt : t>` with declared-type handling"""
        if name in self.decl:
            dt, narrow = self.decl[name]
            if dt in (INT, FLT):
                txt = self.coerce(txt, t, dt)
                t = dt
            elif dt != t:
                raise Untranslatable("%s declared %r, assigned %r" % (name, dt, t))
            if narrow:
                self.uses_narrow = True
                txt = "(narrow %s)" % txt
        if name in self.env and self.env[name] != t:
            raise Untranslatable("%s changes type from %r to %r" % (name, self.env[name], t))
        self.env[name] = t
        return "%slet %s : %s := %s\n" % (ind, name, lean_ty(t), txt)

    def block(self, body, ind):
        out = ""
        for s in body:
            out += self.stmt(s, ind)
        return out

    def stmt(self, s, ind):
        if isinstance(s, ast.Expr) and isinstance(s.value, ast.Constant):
            return ""                        # docstring
        if isinstance(s, ast.Assert):
            return ""
        if isinstance(s, ast.Assign) and len(s.targets) == 1:
            tg = s.targets[0]
            if isinstance(tg, ast.Name):
                x, t = self.expr(s.value)
                return self.bind(tg.id, x, t, ind)
            if isinstance(tg, ast.Tuple) and all(isinstance(x, ast.Name) for x in tg.elts):
                x, t = self.expr(s.value)
                if t[0] != "tuple" or len(t[1]) != len(tg.elts):
                    raise Untranslatable("tuple assignment")
                out = "%slet tup_ := %s\n" % (ind, x)
                acc = "tup_"
                for k, nm in enumerate(tg.elts):
                    last = k == len(tg.elts) - 1
                    comp = acc if last else acc + ".1"
                    out += self.bind(nm.id, comp, t[1][k], ind)
                    acc = acc + ".2"
                return out
            if isinstance(tg, ast.Subscript) and isinstance(tg.value, ast.Name):
                return self.store(tg, s.value, None, ind)
        if isinstance(s, ast.AugAssign):
            if isinstance(s.target, ast.Name):
                e = ast.BinOp(left=ast.Name(id=s.target.id, ctx=ast.Load()), op=s.op, right=s.value)
                x, t = self.expr(e)
                return self.bind(s.target.id, x, t, ind)
            if isinstance(s.target, ast.Subscript) and isinstance(s.target.value, ast.Name):
                return self.store(s.target, s.value, s.op, ind)
        if isinstance(s, ast.For):
            return self.loop(s, ind)
        if isinstance(s, ast.Return):
            x, t = self.expr(s.value)
            self.ret = t
            return "%s%s\n" % (ind, x)
        raise Untranslatable("statement %s" % type(s).__name__)

    def store(self, tg, value, op, ind):
        arr = tg.value.id
        t = self.env.get(arr)
        if t is None or t[0] != "arr1":
            raise Untranslatable("store into %r" % (t,))
        parts = self.index_parts(tg.slice)
        if len(parts) != 1 or isinstance(parts[0], ast.Slice):
            raise Untranslatable("store index")
        i = self.int_expr(parts[0])
        v, tv = self.expr(value)
        v = self.coerce(v, tv, t[1])
        if op is not None:
            sym = {ast.Add: "+", ast.Sub: "-", ast.Mult: "*", ast.Div: "/"}.get(type(op))
            if sym is None:
                raise Untranslatable("augmented store operator")
            v = "(Np.get1 %s %s %s %s)" % (arr, i, sym, v)
        return "%slet %s : %s := Np.set1 %s %s %s\n" % (ind, arr, lean_ty(t), arr, i, v)

    def loop(self, s, ind):
        if s.orelse or not isinstance(s.target, ast.Name):
            raise Untranslatable("for/else or tuple loop target")
        it = s.iter
        if not (isinstance(it, ast.Call) and isinstance(it.func, ast.Name) and it.func.id in ("range", "prange") and 1 <= len(it.args) <= 3 and not it.keywords):
            raise Untranslatable("loop iterable")
        a = [self.int_expr(x) for x in it.args]
        rng = {1: "(Np.range (0 : Int) %s (1 : Int))" % a[0], 2: "(Np.range %s %s (1 : Int))" % tuple(a[:2]) if len(a) >= 2 else "", 3: "(Np.range %s %s %s)" % tuple(a) if len(a) == 3 else ""}[len(a)]
        var = s.target.id
        if var in self.env and self.env[var] != INT:
            raise Untranslatable("loop variable %s shadows a non-integer" % var)
        carried = [n for n in self.assigned(s.body) if n in self.env and n != var]
        if not carried:
            raise Untranslatable("loop without carried state")
        before = dict(self.env)
        self.env[var] = INT
        tys = [self.env[n] for n in carried]
        st_ty = lean_ty(("tuple", tys)) if len(carried) > 1 else lean_ty(tys[0])

        def proj(k):
            if len(carried) == 1:
                return "st_"
            return "st_" + ".2" * k + ("" if k == len(carried) - 1 else ".1")
        ind2 = ind + "    "
        body = "".join("%slet %s : %s := %s\n" % (ind2, n, lean_ty(self.env[n]), proj(k)) for k, n in enumerate(carried))
        body += self.block(s.body, ind2)
        for n, t in zip(carried, tys):
            if self.env[n] != t:
                raise Untranslatable("carried variable %s changes type" % n)
        tup = "(" + ", ".join(carried) + ")" if len(carried) > 1 else carried[0]
        out = "%slet st_ : %s := %s.foldl (fun (st_ : %s) (%s : Int) =>\n%s%s%s) %s\n" % (ind, st_ty, rng, st_ty, var, body, ind2, tup, tup)
        # names first defined inside the body do not survive the loop in the translation: forget them (a later use is then an unknown name)
        self.env = dict(before)
        for k, n in enumerate(carried):
            out += "%slet %s : %s := %s\n" % (ind, n, lean_ty(self.env[n]), proj(k))
        return out

    def emit(self):
        body = self.block(self.node.body, "  ")
        if self.ret is None:
            raise Untranslatable("no return")
        params = []
        if self.uses_sorter:
            params.append("(argsort : List α → List Int)")
        if self.scalar:
            params.append("(narrow : α → α)")
        elif self.uses_narrow:
            raise Untranslatable("single-precision variable in an integer function")
        for g in self.globals_used:
            params.append("(%s : Int)" % g)
        for p in self.params:
            params.append("(%s : %s)" % (p, lean_ty(dict(self.param_types0)[p])))
        return "def %s %s : %s :=\n%s" % (self.lean_name, " ".join(params), lean_ty(self.ret), body)


def translate_function(src, fname, param_types, decls=None, typedefs=None, consts=None, lean_name=None, scalar=True):
    tree = ast.parse(src)
    node = next((n for n in ast.walk(tree) if isinstance(n, ast.FunctionDef) and n.name == fname), None)
    if node is None:
        raise Untranslatable("function %s not found" % fname)
    f = Fn(node, param_types, decls, typedefs, consts, lean_name)
    f.param_types0 = list(param_types.items())
    f.scalar = scalar
    txt = f.emit()
    for g in f.globals_used:
        txt += "\n/-- value of the module constant `%s` in the source -/\ndef const_%s : Int := %d\n" % (g, g, f.consts[g])
    return txt, f


def module_int_constants(src):
    """module-level NAME = <integer expression of literals>"""
    out = {}
    for n in ast.parse(src).body:
        if isinstance(n, ast.Assign) and len(n.targets) == 1 and isinstance(n.targets[0], ast.Name):
            try:
                v = eval(compile(ast.Expression(n.value), "<const>", "eval"), {"__builtins__": {}}, dict(out))
            except Exception:
                continue
            if isinstance(v, int) and not isinstance(v, bool):
                out[n.targets[0].id] = v
    return out


KERNEL_SIG = {"unit_labels": A2(INT), "unit_distances": A2(FLT), "label_utilities": A2(FLT), "null_scores": A1(FLT)}

HEADER = """import Ds.Np
/-!
# Gen.Kernel — GENERATED by harness/translate.py from /repo's current source; do not edit.
-/
set_option linter.unusedVariables false
namespace Gen
variable {α : Type} [Inhabited α] [Add α] [Sub α] [Mul α] [Div α] [Neg α] [NatCast α]

"""


def generate(repo=REPO):
    """returns (lean text, report dict).  A function that cannot be translated is reported and left out of the file."""
    parts, report = [], {}
    py_src = open(os.path.join(repo, "datascope/importance/shapley.py")).read()
    pyx_src = open(os.path.join(repo, "datascope/importance/shapley_cy.pyx")).read()
    consts = module_int_constants(py_src)
    jobs = []
    jobs.append(("compute_all_importances", "py", lambda: translate_function(py_src, "compute_all_importances", KERNEL_SIG, consts=consts)))

    def cy():
        psrc, decls, typedefs = preprocess_pyx(pyx_src)
        return translate_function(psrc, "compute_all_importances_cy", KERNEL_SIG, decls, typedefs)
    jobs.append(("compute_all_importances_cy", "pyx", cy))
    jobs.append(("get_test_batch_size", "py", lambda: translate_function(py_src, "get_test_batch_size", {"n_train": INT, "n_test": INT}, consts=consts, scalar=False)))
    for name, kind, job in jobs:
        try:
            txt, f = job()
            parts.append("/-- translated from `%s` (%s) -/\n%s" % (name, kind, txt))
            report[name] = dict(ok=True, uses_narrow=f.uses_narrow, uses_sorter=f.uses_sorter)
        except Untranslatable as e:
            report[name] = dict(ok=False, why=str(e))
        except SyntaxError as e:
            report[name] = dict(ok=False, why="syntax: %s" % e)
    text = HEADER + "\n".join(parts) + "\nend Gen\n"
    return text, report


def write(repo=REPO, out=OUT):
    text, report = generate(repo)
    os.makedirs(os.path.dirname(out), exist_ok=True)
    old = open(out).read() if os.path.exists(out) else None
    if old != text:
        with open(out + ".tmp", "w") as f:
            f.write(text)
        os.replace(out + ".tmp", out)
    report["_changed"] = old != text
    return report


if __name__ == "__main__":
    if "--print" in sys.argv:
        t, r = generate()
        print(t)
        print(r, file=sys.stderr)
    else:
        print(write())
