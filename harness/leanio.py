"""Lean side: build (flock-serialised), source/axiom audit, driver process."""
import fcntl
import json
import os
import re
import subprocess
import time

VERIF = os.path.dirname(os.path.dirname(os.path.abspath(__file__)))
LEAN_DIR = os.path.join(VERIF, "lean")
DRIVER = os.path.join(LEAN_DIR, ".lake", "build", "bin", "dsdriver")
GENDRIVER = os.path.join(LEAN_DIR, ".lake", "build", "bin", "gendriver")
GENBDRIVER = os.path.join(LEAN_DIR, ".lake", "build", "bin", "genbdriver")
GENMDRIVER = os.path.join(LEAN_DIR, ".lake", "build", "bin", "genmdriver")
GENQDRIVER = os.path.join(LEAN_DIR, ".lake", "build", "bin", "genqdriver")
# Ties: parts of the source that are TRANSLATED to Lean on every run (lean/Gen*, regenerated from the repository) and proved equal to the model
# (lean/Tie*).  Each tie is its own lake library + audit file + driver, so a source change that breaks one translation only affects the
# properties registered for that tie.
TIES = {
    "kernel": dict(translator="translate", targets=["Gen", "Tie", "gendriver"], audit="AuditTie.lean", root="Tie", driver=GENDRIVER,
                   modules=["Gen.Kernel", "Tie.Properties"],
                   what="compute_all_importances, compute_all_importances_cy, get_test_batch_size (harness/translate.py -> lean/Gen/Kernel.lean)",
                   reg=[("C01", ["DsProofs.Tie.TIE_C01_cy", "DsProofs.Tie.TIE_C01_py", "DsProofs.Tie.TIE_cy_model", "DsProofs.Tie.TIE_py_model"]),
                        ("C13", ["DsProofs.Tie.TIE_cy_eq_py", "DsProofs.Tie.TIE_cy_eq_py_any", "DsProofs.Tie.TIE_cy_model", "DsProofs.Tie.TIE_py_model"]),
                        ("C06", ["DsProofs.Tie.TIE_cy_model"]),
                        ("C08", ["DsProofs.Tie.TIE_cy_model"]),
                        ("C07", ["DsProofs.Tie.TIE_batch_size", "DsProofs.Tie.TIE_batch_size_model"])]),
    "brute": dict(translator="translate_skel", targets=["GenB", "TieB", "genbdriver"], audit="AuditTieB.lean", root="TieB", driver=GENBDRIVER,
                  modules=["GenB.Brute", "TieB.Properties"],
                  what="control skeleton of ShapleyImportance._shapley_bruteforce (harness/translate_skel.py -> lean/GenB/Brute.lean)",
                  reg=[("C03", ["DsProofs.TieB.TIEB_brute_model", "DsProofs.TieB.TIEB_C03", "DsProofs.TieB.TIEB_C03_uncaught"]),
                       ("C06", ["DsProofs.TieB.TIEB_C06"]),
                       ("C08", ["DsProofs.TieB.TIEB_brute_model"]),
                       ("C15", ["DsProofs.TieB.TIEB_brute_model", "DsProofs.TieB.TIEB_C03_uncaught"])]),
    "mcwalk": dict(translator="translate_mc", targets=["GenM", "TieM", "genmdriver"], audit="AuditTieM.lean", root="TieM", driver=GENMDRIVER,
                   modules=["GenM.Walk", "TieM.Properties"],
                   what="one permutation walk of ShapleyImportance._shapley_montecarlo: per-iteration resets + inner loop (harness/translate_mc.py -> lean/GenM/Walk.lean)",
                   report_keys=["_shapley_montecarlo.walk"],
                   reg=[("C04", ["DsProofs.TieM.TIEM_walk", "DsProofs.TieM.TIEM_column", "DsProofs.TieM.TIEM_C04_marginals"]),
                        ("C16", ["DsProofs.TieM.TIEM_walk", "DsProofs.TieM.TIEM_column"]),
                        ("C06", ["DsProofs.TieM.TIEM_column"]),
                        ("C15", ["DsProofs.TieM.TIEM_walk"])]),
    "utilelem": dict(translator="translate_util", targets=["GenU", "TieU"], audit="AuditTieU.lean", root="TieU", driver=None,
                     modules=["GenU.Elem", "TieU.Properties"],
                     what="SklearnModelAccuracy.elementwise_score / elementwise_null_score, SklearnModelRocAuc.elementwise_score / elementwise_null_score (harness/translate_util.py -> lean/GenU/Elem.lean)",
                     reg=[("C14", ["DsProofs.TieU.TIEU_acc_elem", "DsProofs.TieU.TIEU_acc_null", "DsProofs.TieU.TIEU_auc_elem", "DsProofs.TieU.TIEU_C14_acc",
                                   "DsProofs.TieU.TIEU_C14_acc_null", "DsProofs.TieU.TIEU_C14_auc", "DsProofs.TieU.TIEU_auc_null"])]),
    "query": dict(translator="translate_query", targets=["GenQ", "TieQ", "genqdriver"], audit="AuditTieQ.lean", root="TieQ", driver=GENQDRIVER,
                  modules=["GenQ.Query", "TieQ.Properties"],
                  what="Provenance.query from the shape checks to the returned mask / indices (harness/translate_query.py -> lean/GenQ/Query.lean)",
                  reg=[("C05", ["DsProofs.TieQ.TIEQ_mask", "DsProofs.TieQ.TIEQ_idx", "DsProofs.TieQ.TIEQ_C05", "DsProofs.TieQ.TIEQ_C05_idx"]),
                       ("C03", ["DsProofs.TieQ.TIEQ_mask"]),
                       ("C12", ["DsProofs.TieQ.TIEQ_mask"]),
                       ("C19", ["DsProofs.TieQ.TIEQ_mask", "DsProofs.TieQ.TIEQ_idx"])]),
    "valuearith": dict(translator="translate_aval", targets=["GenV", "TieV"], audit="AuditTieV.lean", root="TieV", driver=None,
                       modules=["GenV.Value", "TieV.Properties"],
                       what="AValue._clip / __add__ / __sub__ / __index__ and ATally._clip (harness/translate_aval.py -> lean/GenV/Value.lean)",
                       reg=[("C10", ["DsProofs.TieV.TIEV_avalue_clip", "DsProofs.TieV.TIEV_atally_clip", "DsProofs.TieV.TIEV_add", "DsProofs.TieV.TIEV_add_box",
                                     "DsProofs.TieV.TIEV_sub", "DsProofs.TieV.TIEV_index"])]),
    "addcall": dict(translator="translate_add", targets=["GenA", "TieA"], audit="AuditTieA.lean", root="TieA", driver=None,
                    modules=["GenA.Call", "TieA.Properties"],
                    what="ADD.__call__ (harness/translate_add.py -> lean/GenA/Call.lean)",
                    reg=[("C10", ["DsProofs.TieA.TIEA_call"])]),
    "mcouter": dict(translator="translate_mc", targets=["GenM", "TieMO"], audit="AuditTieMO.lean", root="TieMO", driver=None,
                    modules=["GenM.Walk", "TieMO.Properties"],
                    what="the loop over iterations of ShapleyImportance._shapley_montecarlo around the walk: clock, timeout slice, break, average (template translation, harness/translate_mc.py -> lean/GenM/Walk.lean)",
                    report_keys=["_shapley_montecarlo.outer"],
                    reg=[("C16", ["DsProofs.TieMO.TIEMO_outer", "DsProofs.TieMO.TIEMO_C16_nonempty"])]),
    "container": dict(translator="translate_cont", targets=["GenC", "TieC"], audit="AuditTieC.lean", root="TieC", driver=None,
                      modules=["GenC.Container", "TieC.Properties"],
                      what="_pad_array, Provenance.__setitem__ / insert / __delitem__ with an integer index, fork, __getitem__ with an index list (template translation, harness/translate_cont.py -> lean/GenC/Container.lean)",
                      reg=[("C19", ["DsProofs.TieC.TIEC_setitem", "DsProofs.TieC.TIEC_insert", "DsProofs.TieC.TIEC_delitem", "DsProofs.TieC.TIEC_getitem"]),
                           ("C12", ["DsProofs.TieC.TIEC_fork", "DsProofs.TieC.TIEC_getitem"])]),
    "addops": dict(translator="translate_addops", targets=["GenD", "TieD"], audit="AuditTieD.lean", root="TieD", driver=None,
                   modules=["GenD.Ops", "TieD.Properties", "TieD.Reach"],
                   what="ADD.restrict, ADD.modelcount, ADD.sum, ADD.concatenate, ADD.stack, ADD.get_update_location, ADD.update, ADD.construct_chain, oracle.compile (all but its graph routines), ShapleyOracle.__init__, ShapleyOracle.query (harness/translate_addops.py -> lean/GenD/Ops.lean)",
                   reg=[("C10", ["DsProofs.TieD.TIED_restrict", "DsProofs.TieD.TIED_modelcount", "DsProofs.TieD.TIED_restrict_reach", "DsProofs.TieD.TIED_modelcount_reach",
                                 "DsProofs.TieD.reach_shape", "DsProofs.TieD.TIED_sum", "DsProofs.TieD.TIED_update", "DsProofs.TieD.TIED_chain", "DsProofs.TieD.TIED_concat", "DsProofs.TieD.TIED_stack", "DsProofs.TieD.TIED_getloc"]),
                        ("C09", ["DsProofs.TieD.TIED_query", "DsProofs.TieD.TIED_init", "DsProofs.TieD.TIED_restrict_reach", "DsProofs.TieD.TIED_modelcount_reach", "DsProofs.TieD.TIED_sum", "DsProofs.TieD.TIED_concat", "DsProofs.TieD.TIED_stack", "DsProofs.TieD.TIED_getloc", "DsProofs.TieD.TIED_compile"]),
                        ("C02", ["DsProofs.TieD.TIED_query", "DsProofs.TieD.TIED_compile"])]),
    "exprops": dict(translator="translate_expr", targets=["GenE", "TieE"], audit="AuditTieE.lean", root="TieE", driver=None,
                    modules=["GenE.Ops", "TieE.Properties"],
                    what="the operators & and | of Equality / Conjunction / Disjunction, 18 branches (harness/translate_expr.py -> lean/GenE/Ops.lean)",
                    reg=[("C11", ["DsProofs.TieE.TIEE_and", "DsProofs.TieE.TIEE_or", "DsProofs.TieE.TIEE_C11_and", "DsProofs.TieE.TIEE_C11_or"])]),
    "exprdata": dict(translator="translate_exprdata", targets=["GenE", "TieE"], audit="AuditTieED.lean", root="TieE", driver=None,
                     modules=["GenE.Data", "TieE.DataProofs"],
                     what="Expression.data / from_data of Equality, Conjunction, Disjunction (template translation, harness/translate_exprdata.py -> lean/GenE/Data.lean)",
                     reg=[("C11", ["DsProofs.TieE.TIEE_conj_data", "DsProofs.TieE.TIEE_disj_data", "DsProofs.TieE.TIEE_from_data", "DsProofs.TieE.TIEE_roundtrip",
                                   "DsProofs.TieE.TIEE_roundtrip_stored", "DsProofs.TieE.TIEE_data_from_data"]),
                          ("C19", ["DsProofs.TieE.TIEE_from_data", "DsProofs.TieE.TIEE_roundtrip_stored"])]),
    "units": dict(translator="translate_units", targets=["GenR", "TieR"], audit="AuditTieR.lean", root="TieR", driver=None,
                  modules=["GenR.Units", "TieR.Properties"],
                  what="the unit / candidate registry: Units.__init__ / __getitem__ / union / prefix, Units.Unit.__eq__, Equality.data, the lookups of Equality.from_data (template translation, harness/translate_units.py -> lean/GenR/Units.lean)",
                  reg=[("C11", ["DsProofs.TieR.TIER_init", "DsProofs.TieR.TIER_getitem", "DsProofs.TieR.TIER_eq_ok", "DsProofs.TieR.TIER_eq_err", "DsProofs.TieR.TIER_from_data",
                                "DsProofs.TieR.TIER_union", "DsProofs.TieR.TIER_prefix", "DsProofs.TieR.TIER_union_prefixed", "DsProofs.TieR.TIER_roundtrip"]),
                       ("C12", ["DsProofs.TieR.TIER_init", "DsProofs.TieR.TIER_getitem"])]),
    "provinit": dict(translator="translate_init", targets=["GenI", "TieI"], audit="AuditTieI.lean", root="TieI", driver=None,
                     modules=["GenI.Init", "TieI.Properties"],
                     what="Provenance.__init__: the data path for 1-D data (default container, group identifiers) and the expressions path (padding and stacking of the formulas) (template translation, harness/translate_init.py -> lean/GenI/Init.lean)",
                     reg=[("C12", ["DsProofs.TieI.TIEI_default", "DsProofs.TieI.TIEI_groups"]),
                          ("C01", ["DsProofs.TieI.TIEI_default", "DsProofs.TieI.TIEI_groups"]),
                          ("C11", ["DsProofs.TieI.TIEI_exprs"]),
                          ("C05", ["DsProofs.TieI.TIEI_exprs"])]),
    "front": dict(translator="translate_front", targets=["GenS", "TieS"], audit="AuditTieS.lean", root="TieS", driver=None,
                  modules=["GenS.Front", "TieS.Properties"],
                  what="the front end of a run: Importance.fit / score, ShapleyImportance.__init__ / _fit / _score / _shapley - argument routing to the three algorithms, provenance choice, units / world resolution (harness/translate_front.py -> lean/GenS/Front.lean)",
                  reg=[("C06", ["DsProofs.TieS.TIES_route", "DsProofs.TieS.TIES_knobs"]),
                       ("C04", ["DsProofs.TieS.TIES_route", "DsProofs.TieS.TIES_knobs"]),
                       ("C16", ["DsProofs.TieS.TIES_route", "DsProofs.TieS.TIES_knobs"]),
                       ("C20", ["DsProofs.TieS.TIES_route", "DsProofs.TieS.TIES_knobs"]),
                       ("C03", ["DsProofs.TieS.TIES_route", "DsProofs.TieS.TIES_methods"]),
                       ("C01", ["DsProofs.TieS.TIES_route", "DsProofs.TieS.TIES_provenance", "DsProofs.TieS.TIES_provenance_default", "DsProofs.TieS.TIES_units_default",
                                "DsProofs.TieS.TIES_world_default"]),
                       ("C12", ["DsProofs.TieS.TIES_units", "DsProofs.TieS.TIES_units_keys", "DsProofs.TieS.TIES_world", "DsProofs.TieS.TIES_provenance",
                                "DsProofs.TieS.TIES_provenance_arg_wins"]),
                       ("C17", ["DsProofs.TieS.TIES_units_keys", "DsProofs.TieS.TIES_units_default", "DsProofs.TieS.TIES_units_unknown"])]),
    "ucall": dict(translator="translate_ucall", targets=["GenK", "TieK"], audit="AuditTieK.lean", root="TieK", driver=None,
                  modules=["GenK.UCall", "TieK.Properties"],
                  what="the failure handler of SklearnModelUtility.__call__, SklearnModelUtility.null_score (harness/translate_ucall.py -> lean/GenK/UCall.lean)",
                  reg=[("C15", ["DsProofs.TieK.TIEK_supplied", "DsProofs.TieK.TIEK_layer1", "DsProofs.TieK.TIEK_total", "DsProofs.TieK.TIEK_fallback"]),
                       ("C14", ["DsProofs.TieK.TIEK_null_score"])]),
    "nbr": dict(translator="translate_nbr", targets=["GenN", "TieN"], audit="AuditTieN.lean", root="TieN", driver=None,
                modules=["GenN.Neighbor", "TieN.Properties"],
                what="compute_shapley_add, get_unit_labels_and_distances, compute_shapley_1nn_mapfork, the batch loop of _shapley_neighbor (harness/translate_nbr.py -> lean/GenN/Neighbor.lean)",
                reg=[("C02", ["DsProofs.TieN.TIEN_add_sums", "DsProofs.TieN.TIEN_add_model", "DsProofs.TieN.TIEN_C02"]),
                     ("C01", ["DsProofs.TieN.TIEN_reduce", "DsProofs.TieN.TIEN_reduce_simple", "DsProofs.TieN.TIEN_mapfork", "DsProofs.TieN.TIEN_loop"]),
                     ("C07", ["DsProofs.TieN.TIEN_loop", "DsProofs.TieN.TIEN_one_batch"]),
                     ("C12", ["DsProofs.TieN.TIEN_reduce"]),
                     ("C06", ["DsProofs.TieN.TIEN_add_sums"]),
                     ("C08", ["DsProofs.TieN.TIEN_add_sums"])]),
    "joint": dict(translator="translate_joint", targets=["GenJ", "TieJ"], audit="AuditTieJ.lean", root="TieJ", driver=None,
                  modules=["GenJ.Joint", "TieJ.Properties"],
                  what="JointUtility.null_score / mean_score / elementwise_score / elementwise_null_score / __call__ (harness/translate_joint.py -> lean/GenJ/Joint.lean)",
                  reg=[("C08", ["DsProofs.TieJ.TIEJ_null_score", "DsProofs.TieJ.TIEJ_mean_score", "DsProofs.TieJ.TIEJ_elementwise_score",
                                "DsProofs.TieJ.TIEJ_elementwise_null_score", "DsProofs.TieJ.TIEJ_call", "DsProofs.TieJ.TIEJ_call_none"])]),
}


def ties_for(prop_id):
    return [name for name, t in TIES.items() if any(p == prop_id for p, _ in t["reg"])]


TIE_PROPS = {p for t in TIES.values() for p, _ in t["reg"]}
ALLOWED_AXIOMS = {"propext", "Classical.choice", "Quot.sound"}
FORBIDDEN = re.compile(r"\bsorry\b|\badmit\b|^\s*axiom\s|native_decide|bv_decide|implemented_by|\bunsafe\s|maxHeartbeats\s+0\b", re.M)


def _strip_comments(src):
    # remove /- ... -/ (nested) and -- comments
    out, i, depth = [], 0, 0
    while i < len(src):
        if src.startswith("/-", i):
            depth += 1
            i += 2
        elif depth and src.startswith("-/", i):
            depth -= 1
            i += 2
        elif depth:
            i += 1
        elif src.startswith("--", i):
            j = src.find("\n", i)
            i = len(src) if j < 0 else j
        else:
            out.append(src[i])
            i += 1
    return "".join(out)


def build(targets=("Ds", "DsProofs", "dsdriver"), timeout=3000):
    """lake build under an exclusive lock.  Returns (ok, log)."""
    os.makedirs(os.path.join(LEAN_DIR, ".lake"), exist_ok=True)
    lock = open(os.path.join(LEAN_DIR, ".lake", "verif.lock"), "w")
    fcntl.flock(lock, fcntl.LOCK_EX)
    try:
        t0 = time.time()
        r = subprocess.run(["lake", "build"] + list(targets), cwd=LEAN_DIR, capture_output=True, text=True, timeout=timeout)
        return r.returncode == 0, (r.stdout + r.stderr)[-6000:], time.time() - t0
    finally:
        fcntl.flock(lock, fcntl.LOCK_UN)
        lock.close()


def _closure():
    """Lean files of this project reachable from the build roots (Ds, DsProofs, Driver, Audit)"""
    seen, todo = set(), ["Ds", "DsProofs", "Driver", "Audit", "Gen", "Tie", "GenDriver", "AuditTie", "GenB", "TieB", "GenBDriver", "AuditTieB", "GenJ", "TieJ", "AuditTieJ", "GenM", "TieM", "GenMDriver", "AuditTieM", "GenU", "TieU", "AuditTieU", "GenQ", "TieQ", "GenQDriver", "AuditTieQ", "GenV", "TieV", "AuditTieV", "GenA", "TieA", "AuditTieA", "TieMO", "AuditTieMO", "GenC", "TieC", "AuditTieC"]
    while todo:
        m = todo.pop()
        path = os.path.join(LEAN_DIR, m.replace(".", "/") + ".lean")
        if m in seen or not os.path.exists(path):
            continue
        seen.add(m)
        for line in open(path):
            mm = re.match(r"\s*import\s+([A-Za-z0-9_.]+)", line)
            if mm:
                todo.append(mm.group(1))
    return sorted(os.path.join(LEAN_DIR, m.replace(".", "/") + ".lean") for m in seen)


def source_audit():
    """forbidden tokens in any Lean source that is part of the build (comments stripped)."""
    hits = []
    for p in _closure():
        src = _strip_comments(open(p).read())
        for m in FORBIDDEN.finditer(src):
            hits.append((os.path.relpath(p, LEAN_DIR), m.group(0).strip()))
    return hits


_AX_CACHE = {}


def axiom_audit():
    """Runs DsProofs/Audit.lean; returns {theorem: [axioms]} and the raw output."""
    if "r" in _AX_CACHE:
        return _AX_CACHE["r"]
    r = subprocess.run(["lake", "env", "lean", "Audit.lean"], cwd=LEAN_DIR, capture_output=True, text=True, timeout=1200)
    out = r.stdout + r.stderr
    res = {}
    for m in re.finditer(r"'([^']+)' depends on axioms: \[([^\]]*)\]", out, re.S):
        res[m.group(1)] = [a.strip() for a in m.group(2).replace("\n", " ").split(",") if a.strip()]
    for m in re.finditer(r"'([^']+)' does not depend on any axioms", out):
        res[m.group(1)] = []
    _AX_CACHE["r"] = (r.returncode == 0, res, out[-4000:])
    return _AX_CACHE["r"]


def obligations_for(prop_id):
    """Theorem names the Audit file lists for a property: lines `-- C01: name, name`."""
    path = os.path.join(LEAN_DIR, "Audit.lean")
    names = []
    for line in open(path):
        m = re.match(r"--\s*@(C\d\d)\s+(.*)", line)
        if m and m.group(1) == prop_id:
            names += [x.strip() for x in m.group(2).split() if x.strip()]
    return names


class Driver:
    def __init__(self):
        self.p = subprocess.Popen([DRIVER], stdin=subprocess.PIPE, stdout=subprocess.PIPE, text=True, bufsize=1)
        self.n = 0

    def ask(self, req):
        self.p.stdin.write(json.dumps(req) + "\n")
        self.p.stdin.flush()
        line = self.p.stdout.readline()
        if not line:
            raise RuntimeError("driver died on request %s" % json.dumps(req)[:300])
        self.n += 1
        ans = json.loads(line)
        if "bad" in ans:
            raise RuntimeError("driver rejected request: %s  (%s)" % (ans["bad"], json.dumps(req)[:300]))
        return ans

    def close(self):
        try:
            self.p.stdin.close()
            self.p.wait(timeout=5)
        except Exception:
            self.p.kill()


def modules_for(prop_id):
    """Lean modules holding the theorems registered for a property (from mkaudit's registry)."""
    import importlib, sys
    here = os.path.dirname(os.path.abspath(__file__))
    if here not in sys.path:
        sys.path.insert(0, here)
    mk = importlib.import_module("mkaudit")
    mods = []
    for pid, m, _ in mk.REG:
        if pid == prop_id and m not in mods:
            mods.append(m)
    for name in ties_for(prop_id):
        if os.environ.get("VERIF_TIE_OK_" + name) == "1":
            mods += TIES[name]["modules"]
    return mods


def leanchecker(mods, timeout=1500):
    """independent re-check of the compiled modules (thorough tier)"""
    if not mods:
        return None, "no modules"
    t0 = time.time()
    r = subprocess.run(["lake", "env", "leanchecker"] + mods, cwd=LEAN_DIR, capture_output=True, text=True, timeout=timeout)
    return r.returncode == 0, ("%s (%.0fs)" % ((r.stdout + r.stderr)[-300:].strip(), time.time() - t0))


# ---- the translated source (Gen) and the theorems that tie it to the model (Tie) ---------------------------------------------------------

def tie_obligations_for(prop_id, name=None):
    return [t for nm, tie in TIES.items() if name in (None, nm) for p, ts in tie["reg"] if p == prop_id for t in ts]


def write_audit_tie(name):
    tie = TIES[name]
    names = []
    for _, ts in tie["reg"]:
        for t in ts:
            if t not in names:
                names.append(t)
    txt = "import %s\n/-! axiom audit of the theorems about the translated source (generated by harness/leanio.py) -/\n" % tie["root"] + "".join("#print axioms %s\n" % t for t in names)
    path = os.path.join(LEAN_DIR, tie["audit"])
    if not os.path.exists(path) or open(path).read() != txt:
        open(path, "w").write(txt)


_TIE_CACHE = {}


def tie_build(name="kernel", timeout=1800):
    """regenerate the Lean text of tie `name` from the repository's current source, rebuild its libraries and driver, audit the axioms.
    Returns dict(ok, problems, report, axioms, secs)."""
    if name in _TIE_CACHE:
        return _TIE_CACHE[name]
    tie = TIES[name]
    import importlib, sys
    here = os.path.dirname(os.path.abspath(__file__))
    if here not in sys.path:
        sys.path.insert(0, here)
    tr = importlib.import_module(tie["translator"])
    os.makedirs(os.path.join(LEAN_DIR, ".lake"), exist_ok=True)
    lock = open(os.path.join(LEAN_DIR, ".lake", "verif.lock"), "w")
    fcntl.flock(lock, fcntl.LOCK_EX)
    problems, axioms, report = [], {}, {}
    t0 = time.time()
    try:
        if not _TIE_CACHE.get("_all_written"):
            # every generated file is brought up to date with /repo first: libraries of one tie import generated text of another (TieI -> TieC -> GenC), and a file left over
            # from a run against another tree must never be compiled
            _TIE_CACHE["_all_written"] = True
            for other in TIES.values():
                try:
                    importlib.import_module(other["translator"]).write()
                except Exception:  # noqa
                    pass          # reported by the tie that owns the translator
        try:
            report = tr.write()
        except Exception as e:  # noqa
            problems.append("translator crashed: %r" % (e,))
        for fn, r in report.items():
            if tie.get("report_keys") and fn not in tie["report_keys"]:
                continue          # a function of the same generated file that belongs to another tie
            if isinstance(r, dict) and r.get("ok") is False:
                problems.append("source function %s is outside the translatable subset: %s" % (fn, r.get("why")))
            if isinstance(r, dict) and r.get("uses_narrow"):
                problems.append("source function %s assigns to a single-precision variable" % fn)
        write_audit_tie(name)
        r = subprocess.run(["lake", "build"] + tie["targets"], cwd=LEAN_DIR, capture_output=True, text=True, timeout=timeout)
        ok = r.returncode == 0
        if not ok:
            problems.append("lake build %s failed (the translated source is no longer proved equal to the model): " % " ".join(tie["targets"]) + (r.stdout + r.stderr)[-1500:])
            try:
                if tie["driver"]:
                    os.remove(tie["driver"])          # never run a stale translation
            except OSError:
                pass
        else:
            a = subprocess.run(["lake", "env", "lean", tie["audit"]], cwd=LEAN_DIR, capture_output=True, text=True, timeout=600)
            out = a.stdout + a.stderr
            for m in re.finditer(r"'([^']+)' depends on axioms: \[([^\]]*)\]", out, re.S):
                axioms[m.group(1)] = [x.strip() for x in m.group(2).replace("\n", " ").split(",") if x.strip()]
            for m in re.finditer(r"'([^']+)' does not depend on any axioms", out):
                axioms[m.group(1)] = []
            if a.returncode != 0:
                problems.append("%s does not check: " % tie["audit"] + out[-600:])
    finally:
        fcntl.flock(lock, fcntl.LOCK_UN)
        lock.close()
    _TIE_CACHE[name] = dict(ok=not problems, problems=problems, report=report, axioms=axioms, secs=round(time.time() - t0, 1))
    return _TIE_CACHE[name]


class GenDriver(Driver):
    def __init__(self):
        self.p = subprocess.Popen([GENDRIVER], stdin=subprocess.PIPE, stdout=subprocess.PIPE, text=True, bufsize=1)
        self.n = 0


class GenBDriver(Driver):
    def __init__(self):
        self.p = subprocess.Popen([GENBDRIVER], stdin=subprocess.PIPE, stdout=subprocess.PIPE, text=True, bufsize=1)
        self.n = 0


class GenMDriver(Driver):
    def __init__(self):
        self.p = subprocess.Popen([GENMDRIVER], stdin=subprocess.PIPE, stdout=subprocess.PIPE, text=True, bufsize=1)
        self.n = 0


class GenQDriver(Driver):
    def __init__(self):
        self.p = subprocess.Popen([GENQDRIVER], stdin=subprocess.PIPE, stdout=subprocess.PIPE, text=True, bufsize=1)
        self.n = 0
