"""Lean side: build (flock-serialised), source/axiom audit, driver process."""
import fcntl
import json
import os
import re
import subprocess
import time

VERIF = os.path.dirname(os.path.dirname(os.path.abspath(__file__)))
LEAN_DIR = os.path.join(VERIF, "lean")
DRIVER = os.path.join(LEAN_DIR, ".lake", "build", "bin", "dsdriver")
ALLOWED_AXIOMS = {"propext", "Classical.choice", "Quot.sound"}
FORBIDDEN = re.compile(r"\bsorry\b|\badmit\b|^\s*axiom\s|native_decide|bv_decide|implemented_by|\bunsafe\s|maxHeartbeats\s+0\b", re.M)


def _strip_comments(src):
    # remove /- ... -/ (nested) and -- comments
    out, i, depth = [], 0, 0
    while i < len(src):
        if src.startswith("/-", i):
            depth += 1
            i += 2
        elif depth and src.startswith("-/", i):
            depth -= 1
            i += 2
        elif depth:
            i += 1
        elif src.startswith("--", i):
            j = src.find("\n", i)
            i = len(src) if j < 0 else j
        else:
            out.append(src[i])
            i += 1
    return "".join(out)


def build(targets=("Ds", "DsProofs", "dsdriver"), timeout=3000):
    """lake build under an exclusive lock.  Returns (ok, log)."""
    os.makedirs(os.path.join(LEAN_DIR, ".lake"), exist_ok=True)
    lock = open(os.path.join(LEAN_DIR, ".lake", "verif.lock"), "w")
    fcntl.flock(lock, fcntl.LOCK_EX)
    try:
        t0 = time.time()
        r = subprocess.run(["lake", "build"] + list(targets), cwd=LEAN_DIR, capture_output=True, text=True, timeout=timeout)
        return r.returncode == 0, (r.stdout + r.stderr)[-6000:], time.time() - t0
    finally:
        fcntl.flock(lock, fcntl.LOCK_UN)
        lock.close()


def _closure():
    """Lean files of this project reachable from the build roots (Ds, DsProofs, Driver, Audit)"""
    seen, todo = set(), ["Ds", "DsProofs", "Driver", "Audit"]
    while todo:
        m = todo.pop()
        path = os.path.join(LEAN_DIR, m.replace(".", "/") + ".lean")
        if m in seen or not os.path.exists(path):
            continue
        seen.add(m)
        for line in open(path):
            mm = re.match(r"\s*import\s+([A-Za-z0-9_.]+)", line)
            if mm:
                todo.append(mm.group(1))
    return sorted(os.path.join(LEAN_DIR, m.replace(".", "/") + ".lean") for m in seen)


def source_audit():
    """forbidden tokens in any Lean source that is part of the build (comments stripped)."""
    hits = []
    for p in _closure():
        src = _strip_comments(open(p).read())
        for m in FORBIDDEN.finditer(src):
            hits.append((os.path.relpath(p, LEAN_DIR), m.group(0).strip()))
    return hits


_AX_CACHE = {}


def axiom_audit():
    """Runs DsProofs/Audit.lean; returns {theorem: [axioms]} and the raw output."""
    if "r" in _AX_CACHE:
        return _AX_CACHE["r"]
    r = subprocess.run(["lake", "env", "lean", "Audit.lean"], cwd=LEAN_DIR, capture_output=True, text=True, timeout=1200)
    out = r.stdout + r.stderr
    res = {}
    for m in re.finditer(r"'([^']+)' depends on axioms: \[([^\]]*)\]", out, re.S):
        res[m.group(1)] = [a.strip() for a in m.group(2).replace("\n", " ").split(",") if a.strip()]
    for m in re.finditer(r"'([^']+)' does not depend on any axioms", out):
        res[m.group(1)] = []
    _AX_CACHE["r"] = (r.returncode == 0, res, out[-4000:])
    return _AX_CACHE["r"]


def obligations_for(prop_id):
    """Theorem names the Audit file lists for a property: lines `-- C01: name, name`."""
    path = os.path.join(LEAN_DIR, "Audit.lean")
    names = []
    for line in open(path):
        m = re.match(r"--\s*@(C\d\d)\s+(.*)", line)
        if m and m.group(1) == prop_id:
            names += [x.strip() for x in m.group(2).split() if x.strip()]
    return names


class Driver:
    def __init__(self):
        self.p = subprocess.Popen([DRIVER], stdin=subprocess.PIPE, stdout=subprocess.PIPE, text=True, bufsize=1)
        self.n = 0

    def ask(self, req):
        self.p.stdin.write(json.dumps(req) + "\n")
        self.p.stdin.flush()
        line = self.p.stdout.readline()
        if not line:
            raise RuntimeError("driver died on request %s" % json.dumps(req)[:300])
        self.n += 1
        ans = json.loads(line)
        if "bad" in ans:
            raise RuntimeError("driver rejected request: %s  (%s)" % (ans["bad"], json.dumps(req)[:300]))
        return ans

    def close(self):
        try:
            self.p.stdin.close()
            self.p.wait(timeout=5)
        except Exception:
            self.p.kill()


def modules_for(prop_id):
    """Lean modules holding the theorems registered for a property (from mkaudit's registry)."""
    import importlib, sys
    here = os.path.dirname(os.path.abspath(__file__))
    if here not in sys.path:
        sys.path.insert(0, here)
    mk = importlib.import_module("mkaudit")
    mods = []
    for pid, m, _ in mk.REG:
        if pid == prop_id and m not in mods:
            mods.append(m)
    return mods


def leanchecker(mods, timeout=1500):
    """independent re-check of the compiled modules (thorough tier)"""
    if not mods:
        return None, "no modules"
    t0 = time.time()
    r = subprocess.run(["lake", "env", "leanchecker"] + mods, cwd=LEAN_DIR, capture_output=True, text=True, timeout=timeout)
    return r.returncode == 0, ("%s (%.0fs)" % ((r.stdout + r.stderr)[-300:].strip(), time.time() - t0))
