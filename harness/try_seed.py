#!/usr/bin/env python3
"""try_seed.py <worktree> <name> <check> [<check>...] [--official]
Confirms a seeded change (demo fails with it, passes without it), runs the named checks against it and records everything
under /verif/seeded/<name>/.  Default: checks run with VERIF_REPO=<worktree> (the change stays out of /repo);
--official applies seed/patch.diff to /repo, runs the checks there and restores /repo."""
import json
import os
import shutil
import subprocess
import sys

VERIF = os.path.dirname(os.path.dirname(os.path.abspath(__file__)))
PY = "/venv/bin/python"


def sh(cmd, cwd=None, env=None, timeout=3600):
    r = subprocess.run(cmd, shell=True, cwd=cwd, env=env, capture_output=True, text=True, timeout=timeout)
    return r.returncode, (r.stdout + r.stderr)


def main():
    args = [a for a in sys.argv[1:] if not a.startswith("--")]
    official = "--official" in sys.argv
    wt, name, checks = args[0], args[1], args[2:]
    out = os.path.join(VERIF, "seeded", name)
    os.makedirs(out, exist_ok=True)
    seed = os.path.join(wt, "seed")
    old = json.load(open(os.path.join(out, "meta.json"))) if os.path.exists(os.path.join(out, "meta.json")) else {}
    for f in ("patch.diff", "demo.py", "meta.json"):
        if os.path.exists(os.path.join(seed, f)):
            shutil.copyfile(os.path.join(seed, f), os.path.join(out, f))
    meta = json.load(open(os.path.join(out, "meta.json"))) if os.path.exists(os.path.join(out, "meta.json")) else {}
    for k in ("runs", "note"):
        if k in old:
            meta[k] = old[k]
    # demo with the change (worktree as left by the agent), then without (reverse patch; never `git stash`: the stash is shared between worktrees)
    env1 = dict(os.environ, OMP_NUM_THREADS="1", OPENBLAS_NUM_THREADS="1", MKL_NUM_THREADS="1")
    patch = os.path.join(out, "patch.diff")
    pyx = "pyx" in open(patch).read()
    c, o = sh("git diff --quiet -- datascope", cwd=wt)
    if c == 0:                       # change not applied in the worktree: apply it
        sh("git apply %s" % patch, cwd=wt)
    c1, o1 = sh("%s seed/demo.py" % PY, cwd=wt, env=env1)
    sh("git apply -R %s" % patch, cwd=wt)
    if pyx:
        sh("%s setup.py build_ext --inplace >/dev/null 2>&1; rm -rf build" % PY, cwd=wt)
    c0, o0 = sh("%s seed/demo.py" % PY, cwd=wt, env=env1)
    sh("git apply %s" % patch, cwd=wt)
    if pyx:
        sh("%s setup.py build_ext --inplace >/dev/null 2>&1; rm -rf build" % PY, cwd=wt)
    if "--tests" in sys.argv:
        ct, ot = sh("%s -m pytest -q -p no:cacheprovider -k 'not benchmark' tests 2>&1 | tail -1" % PY, cwd=wt, env=env1)
        meta["tests_with_change"] = ot.strip()
    meta["confirmed"] = dict(demo_with_change=dict(exit=c1, tail=o1.strip().splitlines()[-1:] if o1.strip() else []),
                             demo_without_change=dict(exit=c0, tail=o0.strip().splitlines()[-1:] if o0.strip() else []))
    results = {}
    env = dict(os.environ)
    if official:
        c, o = sh("git -C /repo apply %s" % os.path.join(out, "patch.diff"))
        if c != 0:
            print("cannot apply to /repo:", o)
            sys.exit(2)
    else:
        env["VERIF_REPO"] = wt
    try:
        for chk in checks:
            c, o = sh("./check %s --tier quick" % chk, cwd=VERIF, env=env)
            viol = [l for l in o.splitlines() if l.startswith("VIOLATION")]
            what = []
            for l in viol[:2]:
                try:
                    rp = l.split("replay=")[1].split()[0]
                    what.append(json.load(open(rp)).get("what"))
                except Exception:
                    pass
            results[chk] = dict(exit=c, violations=len(viol), no_failing_input=sum("no-failing-input-found" in l for l in viol), first=what,
                                summary=o.strip().splitlines()[-1] if o.strip() else "")
    finally:
        if official:
            sh("git -C /repo checkout -- .")
    meta.setdefault("runs", []).append(dict(mode="official:/repo" if official else "VERIF_REPO=worktree", checks=results))
    json.dump(meta, open(os.path.join(out, "meta.json"), "w"), indent=1)
    print(name, "demo with/without:", c1, c0, "|", {k: (v["exit"], v["violations"]) for k, v in results.items()})


if __name__ == "__main__":
    main()
