import GenM.Walk
