import GenB.Brute
