import TieD.ReachProofs
import TieD.SumProofs
import TieD.UpdateProofs
import TieD.ConcatProofs
import TieD.StackProofs
import TieD.LocProofs
import TieD.CompileProofs
/-!
# TIED on every reachable diagram — no shape hypothesis left

`Reach` = any nesting of chain / tree / concatenate / stack / update / restrict / sum (the operations the oracle performs).  `reach_shape` shows that every such
diagram has regular array shape, children in range and the root in range, so the hypotheses `Shape`, `ChildBound`, `root < diameter` of `TIED_restrict` and
`TIED_modelcount` are discharged once and for all.
-/
open Ds Ds.Dd Ds.GenCall Ds.GenOps

namespace DsProofs.TieD

/-- `ADD.restrict` as written, on every reachable diagram on which the model's `restrict` succeeds -/
theorem TIED_restrict_reach {V : Type} [AddCommMonoid V] (d d' : Diagram V) (u c : ℕ) (vsub : V → V → V) (is_inf : V → Bool) (vindex : V → Int)
    (hr : Reach d) (hu : u ∈ d.units) (hnd : d.units.Nodup) (hc : c < d.C) (h : d.restrict u c = .ok d') :
    letI : Inhabited V := ⟨0⟩
    GenD.add_restrict (· + ·) vsub is_inf vindex (unitsI d.units) (d.root : Int) (nodesOf d.levels) (childOf d.levels) (adderOf d.levels)
        (d.diameter : Int) (d.C : Int) (u : Int) (c : Int)
      = fieldsOf d' :=
  TIED_restrict d d' u c vsub is_inf vindex (reach_shape d hr).1 hu hnd hc h

/-- `ADD.modelcount` as written, on every reachable diagram over clipped values: the model's `modelcount`, i.e. (`C10_modelcount_aval`) the histogram -/
theorem TIED_modelcount_reach (D : Dom) (d : Diagram (AVal D)) (hr : Reach d) (hd : 0 < D.dim) :
    letI : Inhabited (AVal D) := ⟨0⟩
    GenD.add_modelcount (· + ·) AVal.sub (fun v => v.isNone) (fun v => ((D.index v : ℕ) : Int)) D.domain
        (unitsI d.units) (d.root : Int) (nodesOf d.levels) (childOf d.levels) (adderOf d.levels) (d.diameter : Int) (d.C : Int)
      = d.modelcount AVal.sub? (D.vecs.map (AVal.clip D)) :=
  TIED_modelcount D d (reach_shape d hr).1 (Reach.inv hr).1 hd (reach_shape d hr).2.2 (reach_childBound d hr)

/-- `ADD.sum` as written (product construction, `setdefault` numbering of the node pairs), on reachable operands with at least one candidate: the arrays of the model's
`Diagram.sum`, to which `C10_sum` (pointwise sum of the operands) applies.  (With zero candidates the source never marks a node as existing while the model does —
`SumP.sum_needs_candidate`; no diagram of the library has zero candidates.) -/
theorem TIED_sum {V : Type} [AddCommMonoid V] (a b s : Diagram V) (ha : Reach a) (hb : Reach b) (hC : 0 < a.C) (h : a.sum b = .ok s) :
    letI : Inhabited V := ⟨0⟩
    GenD.add_sum (· + ·) (0 : V) (unitsI a.units) (a.root : Int) (nodesOf a.levels) (childOf a.levels) (adderOf a.levels) (a.diameter : Int) (a.C : Int)
        (b.root : Int) (childOf b.levels) (adderOf b.levels) (b.diameter : Int)
      = (unitsI s.units, (s.root : Int), nodesOf s.levels, childOf s.levels, adderOf s.levels, (s.diameter : Int)) :=
  sum_eq a b s ha hb hC h

/-- `ADD.update(location, avalue, increment)` as written (template: NumPy fancy indexing — `+=` reads the ORIGINAL entries, so an entry listed twice is incremented once),
on a location list without repetitions (what `get_update_location` / `compile` produce: `LocSpec`): the edge values of the model's `Diagram.update` -/
theorem TIED_update {V : Type} [Add V] [Zero V] (d : Diagram V) (loc : List (ℕ × ℕ × ℕ)) (v : V) (inc : Bool) (hnd : loc.Nodup) :
    letI : Inhabited V := ⟨0⟩
    GenD.add_update (· + ·) (adderOf d.levels) (loc.map (fun e => ((e.1 : Int), (e.2.1 : Int), (e.2.2 : Int)))) v inc
      = adderOf (d.update loc v inc).levels :=
  update_eq d loc v inc hnd

/-- `ADD.construct_chain` as written (template) builds the model's `chain` -/
theorem TIED_chain {V : Type} [Add V] [Zero V] (units : List ℕ) (C : ℕ) :
    GenD.construct_chain (0 : V) (unitsI units) (C : Int)
      = (unitsI (chain (V := V) units C).units, ((chain (V := V) units C).root : Int), nodesOf (chain (V := V) units C).levels, childOf (chain (V := V) units C).levels,
         adderOf (chain (V := V) units C).levels, ((chain (V := V) units C).diameter : Int)) :=
  chain_eq units C

/-- `ADD.concatenate` as written (template: `np.pad` of every operand to the largest diameter, levels one after the other, the EXISTING nodes of each operand's last
level re-routed to the root of the next operand; the result object is created with the constructor's 2 candidates), on reachable operands: the fields of the model's
`Diagram.concatenate`, to which `C10_concat` applies -/
theorem TIED_concat {V : Type} [AddCommMonoid V] (els : List (Diagram V)) (d : Diagram V) (hr : ∀ e ∈ els, Reach e) (h : concatenate els = .ok d) :
    letI : Inhabited V := ⟨0⟩
    GenD.add_concatenate (0 : V) (2 : Int) (els.map fld) = fld d :=
  concat_eq els d hr h

/-- `ADD.stack` as written (template: the header tree over the factor units written through slice assignments, the elements side by side with their child pointers shifted by
the running diameter offsets, the last header level routed to the elements' roots; NumPy's shape rules for slice assignment and `np.concatenate(..., out=)` in the vocabulary),
on reachable elements with 2 candidates and equally many units (the side conditions of `Reach.stack`; `compile` passes copies of ONE chain): the translated method succeeds and
returns exactly the fields of the model's `stack` -/
theorem TIED_stack {V : Type} [AddCommMonoid V] (factors : List ℕ) (els : List (Diagram V)) (d : Diagram V) (n : ℕ) (hr : ∀ e ∈ els, Reach e)
    (hside : ∀ e ∈ els, e.C = 2 ∧ e.units.length = n) (h : stack factors els = .ok d) :
    letI : Inhabited V := ⟨0⟩
    GenD.add_stack (0 : V) (unitsI factors) (els.map fld) (2 : Int) = .ok (fld d) :=
  stack_eq factors els d n hr hside h

/-- `ADD.get_update_location` as written (template: the assignment sorted by unit position, the walk down the levels with Python `set`s of node numbers kept as sorted
duplicate-free lists, the `while` loop unrolled with fuel, every array access bounds-checked), on a reachable diagram and an assignment of candidate indices: whenever the model's
`getUpdateLocation` succeeds, the translated method succeeds with the same edges -/
theorem TIED_getloc {V : Type} [AddCommMonoid V] (d : Diagram V) (asg : List (ℕ × ℕ)) (loc : List (ℕ × ℕ × ℕ)) (hr : Reach d) (hv : ∀ uv ∈ asg, uv.2 < d.C)
    (h : d.getUpdateLocation asg = .ok loc) :
    GenD.add_get_update_location (unitsI d.units) (d.root : Int) (nodesOf d.levels) (childOf d.levels) (d.C : Int)
        (asg.map (fun uv => (uv.1 : Int))) (asg.map (fun uv => (uv.2 : Int)))
      = .ok (locI loc) :=
  getloc_eq d asg loc hr hv h

/-- `oracle.compile` as written (template): the rejection of disjunctions, the single-literal branch (one chain over all units; a row's location is its literal) and the ASSEMBLY
of the general branch — per component a chain over its sorted leaves, stacked under its sorted factors when it has any, all components concatenated, one `get_update_location`
per row — composed from `TIED_chain`, `TIED_stack`, `TIED_concat`, `TIED_getloc`.  The GRAPH part of the general branch (pairings, degrees, `scipy.sparse.csgraph.connected_components`,
the greedy leaf choice over `np.argsort(degrees)`) is NOT translated: the translated function takes its two results as parameters and the theorem instantiates them with the model's
`components` / `leafUnits` (the correspondence checks of C09 / C02 compare the real graph routines with these).  Whenever the model's `compile` succeeds, the translation succeeds with
the same diagram fields and the same locations, provided the stored literals are what a `Provenance` holds: non-negative unit positions and candidate indices `< 2` (the model reads
them with `.toNat` and does not bound the candidate index; `CompileExample.row_value_two`, `row_unit_negative`, `simple_unit_negative` show the statement fails otherwise).  That the
candidate count is 2 in the general branch and that every component is sorted are DERIVED from the model's success (`nCands_two`, `components_pairwise`). -/
theorem TIED_compile {V : Type} [AddCommMonoid V] (p : Prov.P) (c : Ds.Oracle.Compiled V) (h : Ds.Oracle.compile (V := V) p = .ok c)
    (hlit1 : p.nConj = 1 → ∀ r ∈ p.data, ∀ l ∈ (r.getD 0 []).head?, 0 ≤ l.1 ∧ 0 ≤ l.2)
    (hlitG : p.nConj ≠ 1 → ∀ r ∈ p.data, ∀ l ∈ r.getD 0 [], l.1 ≠ -1 → l.2 ≠ -1 → 0 ≤ l.1 ∧ 0 ≤ l.2 ∧ l.2 < 2) :
    letI : Inhabited V := ⟨0⟩
    GenD.compile (0 : V) (p.nDisj : Int) (p.nConj : Int) (p.nUnits : Int) (p.nCands : Int) (dataI p)
        ((Ds.Oracle.components p.nUnits (pairsP p)).map unitsI) (unitsI (Ds.Oracle.leafUnits p.nUnits (pairsP p)))
      = .ok (fld c.add, c.locs.map locI) :=
  compile_eq p c h hlit1 hlitG

end DsProofs.TieD
