import TieD.Properties
/-!
# TieD.ReachProofs — every diagram the model's constructors can build satisfies the array-shape hypotheses of `TIED_restrict` / `TIED_modelcount`
-/
open Ds Ds.Dd Ds.GenCall Ds.GenOps

namespace DsProofs.TieD
set_option linter.unusedSectionVars false
variable {V : Type} [AddCommMonoid V]

/-- every child entry of every node of every level is a node index -/
def ChildrenInRange (d : Diagram V) : Prop := ∀ lv ∈ d.levels, ∀ nd ∈ lv, ∀ ch ∈ nd.child, ch < d.diameter

/-! ### the per-node / per-level invariant -/

/-- a node of the right shape whose children are node indices -/
def NodeOK (C diam : ℕ) (nd : Node V) : Prop :=
  nd.child.length = C ∧ nd.adder.length = C ∧ ∀ ch ∈ nd.child, ch < diam

/-- a level of the right shape -/
def LevelOK (C diam : ℕ) (lv : Level V) : Prop := lv.length = diam ∧ ∀ nd ∈ lv, NodeOK C diam nd

/-- the invariant -/
def Good (d : Diagram V) : Prop := d.root < d.diameter ∧ ∀ lv ∈ d.levels, LevelOK d.C d.diameter lv

theorem NodeOK.mono {C d d' : ℕ} {nd : Node V} (h : NodeOK C d nd) (hle : d ≤ d') : NodeOK C d' nd :=
  ⟨h.1, h.2.1, fun ch hch => lt_of_lt_of_le (h.2.2 ch hch) hle⟩

theorem nodeOK_blank (C diam : ℕ) (hd : 0 < diam) : NodeOK C diam (blank C : Node V) := by
  refine ⟨by simp [blank], by simp [blank], ?_⟩
  intro ch hch
  simp only [blank, List.mem_replicate] at hch
  rw [hch.2]; exact hd

theorem nodeOK_liveZero (C diam : ℕ) (hd : 0 < diam) : NodeOK C diam (liveZero C : Node V) := by
  refine ⟨by simp [liveZero], by simp [liveZero], ?_⟩
  intro ch hch
  simp only [liveZero, List.mem_replicate] at hch
  rw [hch.2]; exact hd

theorem NodeOK.ch_lt {diam : ℕ} {nd : Node V} (h : ∀ ch ∈ nd.child, ch < diam) (hd : 0 < diam) (c : ℕ) : nd.ch c < diam := by
  unfold Node.ch
  by_cases h2 : c < nd.child.length
  · rw [List.getD_eq_getElem?_getD, List.getElem?_eq_getElem h2]; exact h _ (List.getElem_mem h2)
  · rw [List.getD_eq_getElem?_getD, List.getElem?_eq_none (by omega)]; exact hd

theorem nodeAt_mem_or (lv : Level V) (j : ℕ) : nodeAt lv j ∈ lv ∨ nodeAt lv j = ⟨false, [], []⟩ := by
  unfold nodeAt
  by_cases h1 : j < lv.length
  · left; rw [List.getD_eq_getElem?_getD, List.getElem?_eq_getElem h1]; exact List.getElem_mem h1
  · right; rw [List.getD_eq_getElem?_getD, List.getElem?_eq_none (by omega)]; rfl

/-- following any edge out of any slot of a level whose children are in range stays in range -/
theorem nodeAt_ch_lt {C diam : ℕ} {lv : Level V} (h : ∀ nd ∈ lv, NodeOK C diam nd) (hd : 0 < diam) (j c : ℕ) :
    (nodeAt lv j).ch c < diam := by
  rcases nodeAt_mem_or lv j with hn | hn
  · exact NodeOK.ch_lt (h _ hn).2.2 hd c
  · rw [hn]; exact hd

theorem Good.pos {d : Diagram V} (h : Good d) : 0 < d.diameter := by have := h.1; omega

/-! ### chain -/

theorem chain_good (units : List ℕ) (C : ℕ) : Good (chain units C : Diagram V) := by
  refine ⟨by simp [chain], ?_⟩
  intro lv hlv
  simp only [chain, List.mem_map] at hlv
  obtain ⟨_, _, rfl⟩ := hlv
  refine ⟨rfl, ?_⟩
  intro nd hnd
  simp only [List.mem_singleton] at hnd
  subst hnd
  exact nodeOK_liveZero C 1 (by omega)

/-! ### update -/

theorem levelOK_of_shape {C diam : ℕ} {la lb : Level V} (h : List.Forall₂ NodeShape la lb)
    (hr : LevelOK C diam la) : LevelOK C diam lb := by
  refine ⟨h.length_eq ▸ hr.1, ?_⟩
  intro nd hnd
  obtain ⟨j, hj, rfl⟩ := List.getElem_of_mem hnd
  have hj' : j < la.length := by rw [h.length_eq]; exact hj
  have := nodeShape_nodeAt h j
  rw [nodeAt_eq_getElem hj, nodeAt_eq_getElem hj'] at this
  have hok := hr.2 _ (List.getElem_mem hj')
  exact ⟨this.2.1 ▸ hok.1, this.2.2 ▸ hok.2.1, this.2.1 ▸ hok.2.2⟩

theorem sameShape_levelOK {L L' : List (Level V)} (h : SameShape L L') (C diam : ℕ)
    (hr : ∀ lv ∈ L, LevelOK C diam lv) : ∀ lv ∈ L', LevelOK C diam lv := by
  induction h with
  | nil => simp
  | cons h _ ih =>
    intro lv hlv
    simp only [List.mem_cons] at hlv
    rcases hlv with rfl | hlv
    · exact levelOK_of_shape h (hr _ (by simp))
    · exact ih (fun lv' h' => hr lv' (by simp [h'])) lv hlv

theorem update_good (d : Diagram V) (loc : List (ℕ × ℕ × ℕ)) (v : V) (inc : Bool) (h : Good d) :
    Good (d.update loc v inc) :=
  ⟨h.1, sameShape_levelOK (foldl_upd1_shape v inc loc d.levels) _ _ h.2⟩

/-! ### tree -/

theorem tree_good (units : List ℕ) (C : ℕ) (d : Diagram V) (h : tree units C = .ok d) : Good d := by
  have hC := (tree_spec units C d h).2.2.2.1
  rw [tree_eq] at h
  by_cases h0 : units.length = 0
  · rw [if_pos h0] at h; cases h
  by_cases h1 : C ≠ 2 ∧ 2 ≤ units.length
  · rw [if_neg h0, if_pos h1] at h; cases h
  rw [if_neg h0, if_neg h1] at h
  simp only [Except.ok.injEq] at h
  subst h
  have hpos : 0 < C ^ (units.length - 1) := by
    rcases hC with rfl | h
    · exact Nat.one_le_two_pow
    · rw [h]; simp
  refine ⟨hpos, ?_⟩
  intro lv hlv
  simp only [List.mem_map, List.mem_range] at hlv
  obtain ⟨i, hi, rfl⟩ := hlv
  unfold treeLevel
  split
  · rename_i hin
    have hC2 : C = 2 := by rcases hC with h | h <;> omega
    subst hC2
    refine ⟨by simp, ?_⟩
    intro nd hnd
    simp only [List.mem_map, List.mem_range] at hnd
    obtain ⟨j, _, rfl⟩ := hnd
    split
    · rename_i hj
      refine ⟨by simp, by simp, ?_⟩
      intro ch hch
      simp only [List.mem_map, List.mem_range] at hch
      obtain ⟨c, hc, rfl⟩ := hch
      have h1 : 2 * j + c < 2 ^ (i + 1) := by rw [pow_succ]; omega
      exact lt_of_lt_of_le h1 (Nat.pow_le_pow_right (by omega) (by omega))
    · exact nodeOK_blank 2 _ hpos
  · refine ⟨by simp, ?_⟩
    intro nd hnd
    rw [List.mem_replicate] at hnd
    rw [hnd.2]; exact nodeOK_liveZero C _ hpos

/-! ### concatenate -/

theorem padLevel_ok (C dE diam : ℕ) (lv : Level V) (h : LevelOK C dE lv) (hle : dE ≤ diam) (hd : 0 < diam) :
    LevelOK C diam (padLevel C lv diam) := by
  refine ⟨by simp [padLevel, h.1]; omega, ?_⟩
  intro nd hnd
  simp only [padLevel, List.mem_append, List.mem_replicate] at hnd
  rcases hnd with hnd | ⟨_, rfl⟩
  · exact (h.2 nd hnd).mono hle
  · exact nodeOK_blank C diam hd

theorem redirect_ok (diam r : ℕ) (hr : r < diam) (lv : Level V) (h : LevelOK 2 diam lv) :
    LevelOK 2 diam (redirect r lv) := by
  refine ⟨by simp [redirect, h.1], ?_⟩
  intro nd hnd
  simp only [redirect, List.mem_map] at hnd
  obtain ⟨nd', hnd', rfl⟩ := hnd
  split
  · refine ⟨by simp, (h.2 _ hnd').2.1, ?_⟩
    intro ch hch
    simp only [List.mem_replicate] at hch
    rw [hch.2]; exact hr
  · exact h.2 _ hnd'

theorem go_ok (diam : ℕ) (hd : 0 < diam) (els : List (Diagram V))
    (h : ∀ e ∈ els, Good e ∧ e.C = 2 ∧ e.diameter ≤ diam) :
    ∀ lv ∈ concatenate.go diam els, LevelOK 2 diam lv := by
  have hpad : ∀ e ∈ els, ∀ lv ∈ e.levels.map (padLevel 2 · diam), LevelOK 2 diam lv := by
    intro e he lv hlv
    simp only [List.mem_map] at hlv
    obtain ⟨lv', hlv', rfl⟩ := hlv
    obtain ⟨h1, h2, h3⟩ := h e he
    exact padLevel_ok 2 e.diameter diam lv' (h2 ▸ h1.2 lv' hlv') h3 hd
  match els with
  | [] => simp [concatenate.go]
  | [e] => rw [concatenate.go.eq_2]; exact hpad e (by simp)
  | e :: e' :: rest =>
    rw [go_cons_cons]
    intro lv hlv
    rw [List.mem_append] at hlv
    have hr : e'.root < diam := lt_of_lt_of_le (h e' (by simp)).1.1 (h e' (by simp)).2.2
    rcases hlv with hlv | hlv
    · exact forall_mem_modify _ _ (hpad e (by simp)) (fun x hx => redirect_ok diam _ hr x hx) lv hlv
    · exact go_ok diam hd (e' :: rest) (fun x hx => h x (by simp [hx])) lv hlv

theorem concat_good (els : List (Diagram V)) (d : Diagram V) (h : concatenate els = .ok d)
    (hr : ∀ e ∈ els, Good e) : Good d := by
  cases els with
  | nil => cases h
  | cons e0 rest =>
    rw [concatenate_eq] at h
    by_cases h1 : ∃ e ∈ e0 :: rest, e.C ≠ e0.C
    · rw [if_pos h1] at h; cases h
    rw [if_neg h1] at h
    by_cases h2 : e0.C ≠ 2
    · rw [if_pos h2] at h; cases h
    rw [if_neg h2] at h
    by_cases h3 : ∃ e ∈ e0 :: rest, e.units = []
    · rw [if_pos h3] at h; cases h
    rw [if_neg h3] at h
    simp only [Except.ok.injEq] at h
    subst h
    have hC2 : ∀ e ∈ e0 :: rest, e.C = 2 := by
      intro e he
      have : e.C = e0.C := by by_contra hh; exact h1 ⟨e, he, hh⟩
      rw [this]; exact not_not.mp h2
    have hle : ∀ e ∈ e0 :: rest, e.diameter ≤ diamOf (e0 :: rest) := by
      intro e he
      exact (foldl_max_ge _ 0).2 _ (List.mem_map.mpr ⟨e, he, rfl⟩)
    have hroot : e0.root < diamOf (e0 :: rest) := lt_of_lt_of_le (hr e0 (by simp)).1 (hle e0 (by simp))
    refine ⟨hroot, ?_⟩
    exact go_ok _ (by omega) _ (fun e he => ⟨hr e he, hC2 e he, hle e he⟩)

/-! ### restrict -/

theorem foldInto_ok (C diam : ℕ) (hd : 0 < diam) (lv next : Level V) (value : ℕ) (h : LevelOK C diam lv)
    (hn : ∀ nd ∈ next, NodeOK C diam nd) : LevelOK C diam (foldInto C lv next value) := by
  refine ⟨by simp [foldInto, h.1], ?_⟩
  intro nd hnd
  simp only [foldInto, List.mem_map] at hnd
  obtain ⟨nd', hnd', rfl⟩ := hnd
  split
  · refine ⟨by simp, by simp, ?_⟩
    intro ch hch
    simp only [List.mem_map, List.mem_range] at hch
    obtain ⟨c, _, rfl⟩ := hch
    exact nodeAt_ch_lt hn hd _ _
  · exact h.2 _ hnd'

theorem restrictPos_ok (C diam : ℕ) (hd : 0 < diam) (k value : ℕ) (L : List (Level V))
    (h : ∀ lv ∈ L, LevelOK C diam lv) : ∀ lv ∈ restrictPos C k value L, LevelOK C diam lv := by
  induction k generalizing L with
  | zero =>
    match L with
    | lv :: next :: rest =>
      intro x hx
      simp only [restrictPos, List.mem_cons] at hx
      rcases hx with rfl | hx
      · exact foldInto_ok C diam hd lv next value (h lv (by simp)) (h next (by simp)).2
      · exact h x (by simp [hx])
    | [_] => exact h
    | [] => exact h
  | succ k ih =>
    match L with
    | lv :: rest =>
      intro x hx
      simp only [restrictPos, List.mem_cons] at hx
      rcases hx with rfl | hx
      · exact h _ (by simp)
      · exact ih rest (fun y hy => h y (by simp [hy])) x hx
    | [] => exact h

theorem levelOK_modify (C diam : ℕ) (lv : Level V) (i : ℕ) (f : Node V → Node V)
    (hf : ∀ nd, (f nd).child = nd.child ∧ (f nd).adder.length = C) (h : LevelOK C diam lv) :
    LevelOK C diam (lv.modify i f) := by
  refine ⟨by simp [h.1], ?_⟩
  intro nd hnd
  obtain ⟨j, hj, rfl⟩ := List.getElem_of_mem hnd
  have hj' : j < lv.length := by simpa using hj
  have hok := h.2 _ (List.getElem_mem hj')
  rw [List.getElem_modify]
  split
  · refine ⟨?_, (hf _).2, ?_⟩
    · rw [(hf _).1]; exact hok.1
    · rw [(hf _).1]; exact hok.2.2
  · exact hok

theorem restrict_good (d d' : Diagram V) (u c : ℕ) (hr : Good d) (h : d.restrict u c = .ok d') : Good d' := by
  have hd := hr.pos
  by_cases hu : u ∈ d.units
  swap
  · rw [restrict_notMem d u c hu] at h; cases h
  by_cases hc : c < d.C
  swap
  · rw [restrict_ge d u c hu (Nat.le_of_not_lt hc)] at h; cases h
  by_cases h0 : d.units.idxOf u = 0
  · rw [restrict_first d u c hu hc h0] at h
    match hL : d.levels with
    | lv :: next :: rest =>
      rw [hL] at h
      by_cases hlt : (nodeAt lv d.root).ch c < next.length
      · have : restrictRoot d.C d.root c (lv :: next :: rest) =
            .ok ((nodeAt lv d.root).ch c,
              next.modify ((nodeAt lv d.root).ch c) (pushRoot d.C ((nodeAt lv d.root).ad c)) :: rest) := by
          simp only [restrictRoot, if_pos hlt]; rfl
        rw [this] at h
        simp only [Except.ok.injEq] at h
        subst h
        have hn : LevelOK d.C d.diameter next := hr.2 next (by rw [hL]; simp)
        refine ⟨?_, ?_⟩
        · show (nodeAt lv d.root).ch c < d.diameter
          rw [← hn.1]; exact hlt
        · intro x hx
          simp only [List.mem_cons] at hx
          rcases hx with rfl | hx
          · exact levelOK_modify _ _ _ _ _ (fun nd => ⟨rfl, by simp [pushRoot]⟩) hn
          · exact hr.2 x (by rw [hL]; simp [hx])
      · have : restrictRoot d.C d.root c (lv :: next :: rest) = .error Err.indexError := by
          simp only [restrictRoot, if_neg hlt]; rfl
        rw [this] at h; cases h
    | [_] => rw [hL] at h; cases h
    | [] => rw [hL] at h; cases h
  · rw [restrict_later d u c hu hc h0] at h
    simp only [Except.ok.injEq] at h
    subst h
    exact ⟨hr.1, restrictPos_ok _ _ hd _ _ _ hr.2⟩

/-! ### stack -/

theorem offsetOf_add_le (els : List (Diagram V)) (m : ℕ) (hm : m < els.length) :
    offsetOf els m + els[m].diameter ≤ (els.map (·.diameter)).sum := by
  unfold offsetOf
  induction els generalizing m with
  | nil => simp at hm
  | cons a l ih =>
    cases m with
    | zero => simp
    | succ m =>
      have := ih m (by simpa using hm)
      simp only [List.take_succ_cons, List.map_cons, List.sum_cons, List.getElem_cons_succ]
      omega

theorem hdrLevel_ok (k width : ℕ) (last : ℕ → ℕ → ℕ) (i : ℕ) (hi : i < k) (hwid : 2 ^ k ≤ width)
    (hlast : ∀ j c, j < 2 ^ (k - 1) → c < 2 → last j c < width) :
    LevelOK 2 width (hdrLevel (V := V) k width last i) := by
  have hpos : 0 < width := lt_of_lt_of_le Nat.one_le_two_pow hwid
  refine ⟨by simp [hdrLevel], ?_⟩
  intro nd hnd
  simp only [hdrLevel, List.mem_map, List.mem_range] at hnd
  obtain ⟨j, _, rfl⟩ := hnd
  split
  · rename_i hj
    refine ⟨by simp, by simp, ?_⟩
    intro ch hch
    simp only [List.mem_map, List.mem_range] at hch
    obtain ⟨c, hc, rfl⟩ := hch
    split
    · rename_i hik
      have h1 : 2 * j + c < 2 ^ (i + 1) := by rw [pow_succ]; omega
      exact lt_of_lt_of_le h1 (le_trans (Nat.pow_le_pow_right (by omega) (by omega)) hwid)
    · have : i = k - 1 := by omega
      exact hlast j c (this ▸ hj) hc
  · exact nodeOK_blank 2 _ hpos

theorem bodyLevel_ok (els : List (Diagram V)) (n i : ℕ) (hi : i < n)
    (hg : ∀ e ∈ els, Good e) (hC : ∀ e ∈ els, e.C = 2) (hdep : ∀ e ∈ els, e.levels.length = n) :
    LevelOK 2 ((els.map (·.diameter)).sum) (bodyLevel els i) := by
  have hlv : ∀ e ∈ els, LevelOK 2 e.diameter (e.levels.getD i []) := by
    intro e he
    have := (hg e he).2 _ (level_mem (by rw [hdep e he]; exact hi))
    rw [hC e he] at this; exact this
  constructor
  · unfold bodyLevel
    rw [List.length_flatMap, ← sum_diam_zs]
    congr 1
    apply List.map_congr_left
    intro eo heo
    simp only [List.length_map]
    exact (hlv _ (List.of_mem_zip heo).1).1
  · intro nd hnd
    simp only [bodyLevel, List.mem_flatMap, List.mem_map] at hnd
    obtain ⟨eo, heo, nd', hnd', rfl⟩ := hnd
    obtain ⟨m, hm, rfl⟩ := List.getElem_of_mem heo
    have hm' : m < els.length := by simpa [length_offsetsOf] using hm
    rw [zs_getElem els m hm'] at hnd' ⊢
    have hok := (hlv _ (List.getElem_mem hm')).2 _ hnd'
    refine ⟨by simp [shiftNode, hok.1], by simp [shiftNode, hok.2.1], ?_⟩
    intro ch hch
    simp only [shiftNode, List.mem_map] at hch
    obtain ⟨ch', hch', rfl⟩ := hch
    have h1 := hok.2.2 ch' hch'
    have h2 := offsetOf_add_le els m hm'
    omega

theorem stack_good (factors : List ℕ) (e0 : Diagram V) (rest : List (Diagram V)) (d : Diagram V) (n : ℕ)
    (h : stack factors (e0 :: rest) = .ok d) (hg : ∀ e ∈ e0 :: rest, Good e) (hC : ∀ e ∈ e0 :: rest, e.C = 2)
    (hdep : ∀ e ∈ e0 :: rest, e.levels.length = n) : Good d := by
  rw [stack_eq] at h
  by_cases h1 : e0.C ≠ 2
  · rw [if_pos h1] at h; cases h
  rw [if_neg h1] at h
  by_cases h2 : (e0 :: rest).length ≠ 2 ^ factors.length
  · rw [if_pos h2] at h; cases h
  rw [if_neg h2] at h
  by_cases h3 : factors.length = 0
  · rw [if_pos h3] at h; cases h
  rw [if_neg h3] at h
  simp only [Except.ok.injEq] at h
  subst h
  have h2' : (e0 :: rest).length = 2 ^ factors.length := not_not.mp h2
  generalize hels : e0 :: rest = els at *
  have he0 : e0 ∈ els := by rw [← hels]; simp
  have hn : e0.levels.length = n := hdep e0 he0
  have hwid : 2 ^ factors.length ≤ (els.map (·.diameter)).sum := by
    rw [← h2', ← List.length_map (f := fun x : Diagram V => x.diameter)]
    apply List.length_le_sum_of_one_le
    intro i hi
    simp only [List.mem_map] at hi
    obtain ⟨e, he, rfl⟩ := hi
    exact (hg e he).pos
  refine ⟨lt_of_lt_of_le Nat.one_le_two_pow hwid, ?_⟩
  intro lv hlv
  simp only [List.mem_append, List.mem_map, List.mem_range] at hlv
  rcases hlv with ⟨i, hi, rfl⟩ | ⟨i, hi, rfl⟩
  · apply hdrLevel_ok _ _ _ _ hi hwid
    intro j c hj hc
    have hpow : 2 ^ factors.length = 2 ^ (factors.length - 1) * 2 := by
      rw [← pow_succ]; congr 1; omega
    have hm : 2 * j + c < els.length := by rw [h2', hpow]; omega
    show (rootsOf els).getD (2 * j + c) 0 < _
    rw [rootsOf_getD els _ hm]
    have h4 := (hg _ (List.getElem_mem hm)).1
    have h5 := offsetOf_add_le els _ hm
    omega
  · exact bodyLevel_ok els n i (hn ▸ hi) hg hC hdep

/-! ### sum -/

theorem intern_idx (tbl : List Pair) (p : Pair) : (intern tbl p).2 < (intern tbl p).1.length := by
  unfold intern
  by_cases h : tbl.idxOf p < tbl.length
  · simp only [h, if_true]
  · simp only [h, if_false]; simp

theorem internAll_idx (tbl ps : List Pair) : ∀ k ∈ (internAll tbl ps).2, k < (internAll tbl ps).1.length := by
  induction ps generalizing tbl with
  | nil => simp [internAll]
  | cons q qs ih =>
    intro k hk
    simp only [internAll, List.mem_cons] at hk ⊢
    rcases hk with rfl | hk
    · exact lt_of_lt_of_le (intern_idx tbl q) (internAll_spec (intern tbl q).1 qs).1.length_le
    · exact ih _ k hk

/-- the nodes of a level of `sum`: `C` children, `C` edge values, every child a position of the next level's table -/
theorem sumLevel_nodes (C : ℕ) (la lb : Level V) (tbl pairs : List Pair) :
    ∀ nd ∈ (sumLevel C la lb tbl pairs).2, NodeOK C (sumLevel C la lb tbl pairs).1.length nd := by
  induction pairs generalizing tbl with
  | nil => simp [sumLevel]
  | cons p ps ih =>
    intro nd hnd
    simp only [sumLevel, List.mem_cons] at hnd ⊢
    rcases hnd with rfl | hnd
    · refine ⟨?_, by simp, ?_⟩
      · have := (internAll_spec tbl (reqs C la lb p)).2.1
        simpa [reqs] using this
      · intro ch hch
        exact lt_of_lt_of_le (internAll_idx tbl _ ch hch) (sumLevel_spec C la lb _ ps).1.length_le
    · exact ih _ nd hnd

theorem sumLevel_tbl (C da db : ℕ) (hda : 0 < da) (hdb : 0 < db) (la lb : Level V)
    (hla : ∀ nd ∈ la, NodeOK C da nd) (hlb : ∀ nd ∈ lb, NodeOK C db nd) (pairs : List Pair) :
    (sumLevel C la lb [] pairs).1.Nodup ∧ (∀ q ∈ (sumLevel C la lb [] pairs).1, q.1 < da ∧ q.2 < db) ∧
      (sumLevel C la lb [] pairs).1.length ≤ da * db := by
  obtain ⟨n1, n2⟩ := sumLevel_nodup C la lb [] pairs List.nodup_nil
  have hq : ∀ q ∈ (sumLevel C la lb [] pairs).1, q.1 < da ∧ q.2 < db := by
    intro q hq
    rcases n2 q hq with hq1 | ⟨p, _, hq1⟩
    · simp at hq1
    · simp only [reqs, List.mem_map, List.mem_range] at hq1
      obtain ⟨c, _, rfl⟩ := hq1
      exact ⟨nodeAt_ch_lt hla hda _ _, nodeAt_ch_lt hlb hdb _ _⟩
  exact ⟨n1, hq, length_le_of_nodup_range _ n1 da db hq⟩

theorem sumLevels_ok (C da db : ℕ) (hda : 0 < da) (hdb : 0 < db) (LA LB : List (Level V))
    (hA : ∀ lv ∈ LA, ∀ nd ∈ lv, NodeOK C da nd) (hB : ∀ lv ∈ LB, ∀ nd ∈ lv, NodeOK C db nd)
    (pairs : List Pair) (hnd : pairs.Nodup) (hp : ∀ p ∈ pairs, p.1 < da ∧ p.2 < db) :
    ∀ lv ∈ sumLevels C LA LB pairs, lv.length ≤ da * db ∧ ∀ nd ∈ lv, NodeOK C (da * db) nd := by
  induction LA generalizing LB pairs with
  | nil => simp [sumLevels]
  | cons la ra ih =>
    cases LB with
    | nil => simp [sumLevels]
    | cons lb rb =>
      intro lv hlv
      simp only [sumLevels, List.mem_cons] at hlv
      obtain ⟨t1, t2, t3⟩ := sumLevel_tbl C da db hda hdb la lb (hA la (by simp)) (hB lb (by simp)) pairs
      rcases hlv with rfl | hlv
      · refine ⟨?_, fun nd hnd => (sumLevel_nodes C la lb [] pairs nd hnd).mono t3⟩
        rw [sumLevel_length]
        exact length_le_of_nodup_range pairs hnd da db hp
      · exact ih rb (fun x hx => hA x (by simp [hx])) (fun x hx => hB x (by simp [hx])) _ t1 t2 lv hlv

theorem sum_good (a b s : Diagram V) (ga : Good a) (gb : Good b) (h : a.sum b = .ok s) : Good s := by
  rw [sum_eq] at h
  by_cases hne : a.units ≠ b.units ∨ a.C ≠ b.C
  · rw [if_pos hne] at h; cases h
  rw [if_neg hne] at h
  simp only [Except.ok.injEq] at h
  subst h
  have hC : a.C = b.C := by by_contra hh; exact hne (Or.inr hh)
  have hpos : 0 < a.diameter * b.diameter := Nat.mul_pos ga.pos gb.pos
  refine ⟨hpos, ?_⟩
  intro lv hlv
  simp only [List.mem_map] at hlv
  obtain ⟨lv', hlv', rfl⟩ := hlv
  have := sumLevels_ok a.C a.diameter b.diameter ga.pos gb.pos a.levels b.levels (fun x hx => (ga.2 x hx).2)
    (fun x hx => hC ▸ (gb.2 x hx).2) [(a.root, b.root)] (by simp)
    (by intro p hp; simp only [List.mem_singleton] at hp; subst hp; exact ⟨ga.1, gb.1⟩) lv' hlv'
  refine ⟨by simp only [padLevel, List.length_append, List.length_replicate]; omega, ?_⟩
  intro nd hnd
  simp only [padLevel, List.mem_append, List.mem_replicate] at hnd
  rcases hnd with hnd | ⟨_, rfl⟩
  · exact this.2 nd hnd
  · exact nodeOK_blank _ _ hpos

/-! ### the invariant over `Reach` -/

theorem reach_good {d : Diagram V} (h : Reach d) : Good d := by
  induction h with
  | chain units C => exact chain_good units C
  | tree units C d h => exact tree_good units C d h
  | concat els d _ h ih => exact concat_good els d h ih
  | stack factors els d n hre hside h ih =>
    cases els with
    | nil => cases h
    | cons e0 rest =>
      exact stack_good factors e0 rest d n h ih (fun e he => (hside e he).1)
        (fun e he => by rw [(hre e he).inv.1.len]; exact (hside e he).2)
  | update d loc v inc _ ih => exact update_good d loc v inc ih
  | restrict d d' u c _ h ih => exact restrict_good d d' u c ih h
  | sum a b s _ _ h iha ihb => exact sum_good a b s iha ihb h

/-- `Reach` (chain / tree / concatenate / stack / update / restrict / sum, any nesting) ⇒ regular array shape, children in range, root in range -/
theorem reach_shape (d : Diagram V) (h : Reach d) : Shape d ∧ ChildrenInRange d ∧ d.root < d.diameter := by
  have g := reach_good h
  refine ⟨⟨h.inv.1.len, fun lv hlv => ⟨(g.2 lv hlv).1, fun nd hnd => ?_⟩⟩, ?_, g.1⟩
  · have := (g.2 lv hlv).2 nd hnd
    exact ⟨this.1, this.2.1⟩
  · intro lv hlv nd hnd
    exact ((g.2 lv hlv).2 nd hnd).2.2

/-- hence the hypotheses of `TIED_modelcount` hold on every reachable diagram -/
theorem reach_childBound (d : Diagram V) (h : Reach d) : ChildBound d.C d.diameter d.levels d.root := by
  obtain ⟨_, h2, h3⟩ := reach_shape d h
  exact ChildBound.of_forall d.C d.diameter d.levels h2 d.root h3

end DsProofs.TieD

#print axioms DsProofs.TieD.reach_shape
#print axioms DsProofs.TieD.reach_childBound
