import TieD.Defs
import TieD.CountTable
import DsProofs.AddProofs
import DsProofs.AValProofs
/-!
# TieD.CountProofs — the translated `ADD.modelcount` is the model's `Diagram.modelcount` on tally / box values

`modelcount_eq` needs one hypothesis more than shape, `WF` and `root < diameter`: `ChildBound` — the child entries (candidates `< C`) of the
last level's nodes that are reachable from the root through active nodes are `< diameter`.  The model's recurrence `mc` never looks at the
children of the last level (`mc [] _ e` ignores the node index), the translated code reads row `child` of the initial table there (Python
raises `IndexError` when there is no such row, the `Np` primitives read 0).  `CountEx.bad` below is a well-formed diagram of regular shape on
which the two sides differ (`[0, 0, 2]` against `[2, 0, 0]`).  `ChildBound.of_forall`: it holds as soon as no child entry reaches the diameter.
Unreachable nodes, inactive nodes and the children of all other levels are unconstrained (a child `≥ diameter` of an inner level reads 0 on both sides).
-/
open Ds Ds.Dd Ds.GenCall Ds.GenOps

namespace DsProofs.TieD

section Code
variable (D : Dom)

/-- innermost statement: `result_current[j, k] += result_previous[child, index(e - adder)]` unless `e - adder` is invalid -/
def cellStep (prev : List (List Int)) (nd : Node (AVal D)) (j k : ℕ) (e : AVal D) (st : List (List Int)) (c : ℕ) : List (List Int) :=
  if (AVal.sub e (nd.ad c)).isNone = true then st
  else Np.setL2 st (j : Int) (k : Int)
    (Np.getL2 st (j : Int) (k : Int) + Np.getL2 prev ((nd.ch c : ℕ) : Int) ((D.index (AVal.sub e (nd.ad c)) : ℕ) : Int))

/-- body of the loop over `enumerate(adomain)` -/
def rowStep (C : ℕ) (prev : List (List Int)) (nd : Node (AVal D)) (j : ℕ) (st : List (List Int)) (p : AVal D × ℕ) : List (List Int) :=
  if p.1.isNone = true then st else (List.range C).foldl (cellStep D prev nd j p.2 p.1) st

/-- body of the loop over the nodes of a level -/
def nodeStep (C : ℕ) (prev : List (List Int)) (lv : Level (AVal D)) (st : List (List Int)) (j : ℕ) : List (List Int) :=
  if (nodeAt lv j).active = true then (D.domain.zipIdx 0).foldl (rowStep D C prev (nodeAt lv j) j) st else st

/-- body of the loop over the levels -/
def levelStep (C diam : ℕ) (prev : List (List Int)) (lv : Level (AVal D)) : List (List Int) :=
  (List.range diam).foldl (nodeStep D C prev lv) (Np.zerosL2 (diam : Int) (D.domain.length : Int))

theorem map_getD_getD {α β : Type} (o : Option α) (f : α → β) (a : α) (b : β) (h : f a = b) :
    (Option.map f o).getD b = f (o.getD a) := by
  cases o <;> simp [h]

theorem dec_ite (b : Bool) : decide ((if b = true then (1 : Int) else 0) ≠ 0) = b := by cases b <;> rfl

theorem getL2_nodes_c (levels : List (Level (AVal D))) (i j : ℕ) :
    Np.getL2 (nodesOf levels) (i : Int) (j : Int) = if (nodeAt (levels.getD i []) j).active = true then 1 else 0 := by
  unfold Np.getL2 nodesOf nodeAt
  simp only [Np.get1_natCast, List.getD_eq_getElem?_getD, List.getElem?_map]
  cases levels[i]? with
  | none => rfl
  | some lv =>
    simp only [Option.map_some, Option.getD_some, List.getElem?_map]
    exact map_getD_getD _ _ _ _ rfl

/-- the translated function, loop by loop, on the arrays of a list of levels -/
theorem modelcount_unfold (units : List ℕ) (root C diam : ℕ) (levels : List (Level (AVal D))) :
    @GenD.add_modelcount (AVal D) ⟨0⟩ (· + ·) AVal.sub (fun v => v.isNone) (fun v => ((D.index v : ℕ) : Int)) D.domain
        (unitsI units) (root : Int) (nodesOf levels) (childOf levels) (adderOf levels) (diam : Int) (C : Int)
      = (let t := (List.range units.length).reverse.foldl (fun st i => levelStep D C diam st (levels.getD i []))
            (Np.setColL2 (Np.zerosL2 (diam : Int) (D.domain.length : Int)) (0 : Int) (1 : Int))
         let row := t.getD root []
         Np.set1 row (-1) ((2 : Int) ^ units.length - Np.sumI row)) := by
  unfold GenD.add_modelcount
  simp only [Np.len1, unitsI, List.length_map, foldl_enumerate, Np.range_up, ← List.map_reverse, List.foldl_map,
    getL2_nodes_c, get3_adder, get3_child, Np.get1_natCast, Np.ipow, Int.toNat_natCast, dec_ite]
  rfl

/-! ### what the loops compute, entry by entry -/

/-- contribution of candidate `c` -/
def term (prev : List (List Int)) (nd : Node (AVal D)) (e : AVal D) (c : ℕ) : Int :=
  if (AVal.sub e (nd.ad c)).isNone = true then 0 else g prev (nd.ch c) (D.index (AVal.sub e (nd.ad c)))

/-- entry of a valid value `e` in the row of an active node -/
def cell (C : ℕ) (prev : List (List Int)) (nd : Node (AVal D)) (e : AVal D) : Int :=
  if e.isNone = true then 0 else ((List.range C).map (term D prev nd e)).sum

theorem cellStep_spec {r m : ℕ} (prev : List (List Int)) (nd : Node (AVal D)) (j k : ℕ) (e : AVal D)
    (st : List (List Int)) (c : ℕ) (hd : Dim r m st) :
    Dim r m (cellStep D prev nd j k e st c) ∧ ∀ j' k', j' < r → k' < m →
      g (cellStep D prev nd j k e st c) j' k' = g st j' k' + if j' = j ∧ k' = k then term D prev nd e c else 0 := by
  unfold cellStep term
  by_cases h : (AVal.sub e (nd.ad c)).isNone = true
  · simp only [if_pos h, ite_self, add_zero]
    exact ⟨hd, fun _ _ _ _ => trivial⟩
  · simp only [if_neg h, getL2_nat]
    have := addL2_spec hd j k (g prev (nd.ch c) (D.index (AVal.sub e (nd.ad c))))
    simp only [getL2_nat] at this
    exact this

theorem rowStep_spec {r m : ℕ} (C : ℕ) (prev : List (List Int)) (nd : Node (AVal D)) (j : ℕ)
    (st : List (List Int)) (p : AVal D × ℕ) (hd : Dim r m st) :
    Dim r m (rowStep D C prev nd j st p) ∧ ∀ j' k', j' < r → k' < m →
      g (rowStep D C prev nd j st p) j' k' = g st j' k' + if j' = j ∧ k' = p.2 then cell D C prev nd p.1 else 0 := by
  unfold rowStep cell
  by_cases h : p.1.isNone = true
  · simp only [if_pos h, ite_self, add_zero]
    exact ⟨hd, fun _ _ _ _ => trivial⟩
  · simp only [if_neg h]
    obtain ⟨h1, h2⟩ := foldl_delta r m (List.range C) (cellStep D prev nd j p.2 p.1)
      (fun c j' k' => if j' = j ∧ k' = p.2 then term D prev nd p.1 c else 0)
      (fun cur c _ hcur => cellStep_spec D prev nd j p.2 p.1 cur c hcur) st hd
    refine ⟨h1, fun j' k' hj' hk' => ?_⟩
    rw [h2 j' k' hj' hk', sum_map_const_ite]

theorem nodeStep_spec {r m : ℕ} (C : ℕ) (prev : List (List Int)) (lv : Level (AVal D))
    (st : List (List Int)) (j : ℕ) (hd : Dim r m st) :
    Dim r m (nodeStep D C prev lv st j) ∧ ∀ j' k', j' < r → k' < m →
      g (nodeStep D C prev lv st j) j' k' = g st j' k' +
        if j' = j then (if (nodeAt lv j).active = true then (D.domain[k']?.map (cell D C prev (nodeAt lv j))).getD 0 else 0) else 0 := by
  unfold nodeStep
  by_cases h : (nodeAt lv j).active = true
  · simp only [if_pos h]
    obtain ⟨h1, h2⟩ := foldl_delta r m (D.domain.zipIdx 0) (rowStep D C prev (nodeAt lv j) j)
      (fun p j' k' => if j' = j ∧ k' = p.2 then cell D C prev (nodeAt lv j) p.1 else 0)
      (fun cur p _ hcur => rowStep_spec D C prev (nodeAt lv j) j cur p hcur) st hd
    refine ⟨h1, fun j' k' hj' hk' => ?_⟩
    rw [h2 j' k' hj' hk']
    simp only [ite_and]
    rw [sum_map_const_ite, sum_zipIdx_ite]
    simp
  · simp only [if_neg h, ite_self, add_zero]
    exact ⟨hd, fun _ _ _ _ => trivial⟩

theorem levelStep_spec (C diam : ℕ) (prev : List (List Int)) (lv : Level (AVal D)) :
    Dim diam D.domain.length (levelStep D C diam prev lv) ∧ ∀ j k, j < diam → k < D.domain.length →
      g (levelStep D C diam prev lv) j k =
        if (nodeAt lv j).active = true then (D.domain[k]?.map (cell D C prev (nodeAt lv j))).getD 0 else 0 := by
  unfold levelStep
  obtain ⟨z1, z2⟩ := zerosL2_spec diam D.domain.length
  obtain ⟨h1, h2⟩ := foldl_delta diam D.domain.length (List.range diam) (nodeStep D C prev lv)
    (fun j j' k' => if j' = j then
      (if (nodeAt lv j).active = true then (D.domain[k']?.map (cell D C prev (nodeAt lv j))).getD 0 else 0) else 0)
    (fun cur j _ hcur => nodeStep_spec D C prev lv cur j hcur) _ z1
  refine ⟨h1, fun j k hj hk => ?_⟩
  rw [h2 j k hj hk, z2, zero_add, sum_range_ite, if_pos hj]

/-- the table after the levels `L` (a suffix of the diagram's levels) -/
def codeTab (C diam : ℕ) (L : List (Level (AVal D))) : List (List Int) :=
  L.foldr (fun lv st => levelStep D C diam st lv) (Np.setColL2 (Np.zerosL2 (diam : Int) (D.domain.length : Int)) (0 : Int) (1 : Int))

theorem domain_pos : 0 < D.domain.length := by rw [Dom.domain_length]; omega

theorem codeTab_dim (C diam : ℕ) (L : List (Level (AVal D))) : Dim diam D.domain.length (codeTab D C diam L) := by
  cases L with
  | nil => exact (base_spec diam D.domain.length (domain_pos D)).1
  | cons lv rest => exact (levelStep_spec D C diam _ lv).1

end Code

/-- every path from node `j` through active nodes and candidates `< C` ends, below the last level, at an index `< diam`
(the row of the initial table the translated code reads there) -/
def ChildBound {V : Type} [Add V] [Zero V] (C diam : ℕ) : List (Level V) → ℕ → Prop
  | [], j => j < diam
  | lv :: rest, j => (nodeAt lv j).active = true → ∀ c, c < C → ChildBound C diam rest ((nodeAt lv j).ch c)

section Code
variable (D : Dom)

theorem cast_list_sum (l : List ℕ) : ((l.sum : ℕ) : Int) = (l.map (fun x : ℕ => (x : Int))).sum := by
  induction l with
  | nil => rfl
  | cons a t ih => simp [ih]

theorem nodeAt_oob {lv : Level (AVal D)} {j : ℕ} (h : lv.length ≤ j) : (nodeAt lv j).active = false := by
  unfold nodeAt
  simp only [List.getD_eq_getElem?_getD]
  rw [List.getElem?_eq_none h]; rfl

theorem codeTab_mc (C diam : ℕ) (L : List (Level (AVal D))) (hlen : ∀ lv ∈ L, lv.length = diam) (j : ℕ)
    (hb : ChildBound C diam L j) (r : AVal D) (hr : r ≠ none) :
    g (codeTab D C diam L) j (D.index r) = (mc C AVal.sub? L j r : Int) := by
  induction L generalizing j r with
  | nil =>
    have hj : j < diam := hb
    rw [codeTab, List.foldr_nil, (base_spec diam D.domain.length (domain_pos D)).2 j _ hj (Dom.index_lt r)]
    unfold mc
    have : D.index r = 0 ↔ r = 0 := by
      rw [← Dom.index_zero D]; exact Dom.index_inj r (AVal.zero D)
    by_cases h0 : r = 0
    · rw [if_pos (this.mpr h0), if_pos h0]; rfl
    · rw [if_neg (fun h => h0 (this.mp h)), if_neg h0]; rfl
  | cons lv rest ih =>
    have hlv : lv.length = diam := hlen lv (by simp)
    by_cases hj : j < diam
    · have hstep := (levelStep_spec D C diam (codeTab D C diam rest) lv).2 j _ hj (Dom.index_lt r)
      rw [codeTab, List.foldr_cons]
      rw [codeTab] at hstep
      rw [hstep]
      unfold mc
      by_cases ha : (nodeAt lv j).active = true
      · rw [if_pos ha, if_pos ha, List.getElem?_eq_getElem (Dom.index_lt r), Dom.domain_index r]
        simp only [Option.map_some, Option.getD_some]
        unfold cell
        have hrn : ¬ (r.isNone = true) := by
          cases r with
          | none => exact absurd rfl hr
          | some _ => simp
        rw [if_neg hrn, cast_list_sum, List.map_map]
        apply congrArg
        apply List.map_congr_left
        intro c hc
        have hcC : c < C := List.mem_range.mp hc
        unfold term
        simp only [Function.comp]
        cases hsub : AVal.sub r ((nodeAt lv j).ad c) with
        | none =>
          have : AVal.sub? r ((nodeAt lv j).ad c) = none := by unfold AVal.sub?; rw [hsub]
          rw [this]; rfl
        | some s =>
          have : AVal.sub? r ((nodeAt lv j).ad c) = some (some s) := by unfold AVal.sub?; rw [hsub]
          rw [this]
          simp only [Option.isNone_some, Bool.false_eq_true, if_false]
          exact ih (fun lv' h => hlen lv' (by simp [h])) _ (hb ha c hcC) (some s) (by simp)
      · rw [if_neg ha, if_neg ha]; rfl
    · rw [g_oob (codeTab_dim D C diam _) j _ (Or.inl (by omega))]
      unfold mc
      have : (nodeAt lv j).active = false := nodeAt_oob D (by omega)
      rw [this]; rfl

/-- the column of the invalid value stays zero -/
theorem codeTab_last (C diam : ℕ) (L : List (Level (AVal D))) (j : ℕ) (hj : j < diam) :
    g (codeTab D C diam L) j D.vecs.length = 0 := by
  have hk : D.vecs.length < D.domain.length := by rw [Dom.domain_length]; omega
  have hnone : D.domain[D.vecs.length]? = some none := by
    unfold Dom.domain
    rw [List.getElem?_append_right (by simp)]; simp
  cases L with
  | nil =>
    rw [codeTab, List.foldr_nil, (base_spec diam D.domain.length (domain_pos D)).2 j _ hj hk]
    obtain ⟨t, ht⟩ := Dom.vecs_head D
    rw [if_neg (by rw [ht]; simp)]
  | cons lv rest =>
    have hstep := (levelStep_spec D C diam (codeTab D C diam rest) lv).2 j _ hj hk
    rw [codeTab, List.foldr_cons]
    rw [codeTab] at hstep
    rw [hstep, hnone]
    simp [cell]

theorem sumI_eq_sum (l : List Int) : Np.sumI l = l.sum := by
  unfold Np.sumI
  have : ∀ (a : Int), l.foldl (· + ·) a = a + l.sum := by
    induction l with
    | nil => intro a; simp
    | cons x t ih => intro a; rw [List.foldl_cons, ih, List.sum_cons]; ring
  rw [this, zero_add]

theorem set1_last (l : List Int) (x v : Int) : Np.set1 (l ++ [x]) (-1) v = l ++ [v] := by
  unfold Np.set1 Np.pyIdx
  simp

/-- the root row of the final table: the model's counts, then 0 -/
theorem root_row (C diam root : ℕ) (L : List (Level (AVal D))) (hlen : ∀ lv ∈ L, lv.length = diam) (hroot : root < diam)
    (hb : ChildBound C diam L root) :
    (codeTab D C diam L).getD root [] = (D.vecs.map (AVal.clip D)).map (fun e => (mc C AVal.sub? L root e : Int)) ++ [0] := by
  have hdim := codeTab_dim D C diam L
  have hr : root < (codeTab D C diam L).length := by rw [hdim.1]; exact hroot
  have hrl := row_len hdim hr
  have hg : ∀ k, g (codeTab D C diam L) root k = (((codeTab D C diam L).getD root [])[k]?).getD 0 := by
    intro k; unfold g; simp only [List.getD_eq_getElem?_getD]
  simp only [List.getD_eq_getElem?_getD] at hg ⊢
  apply List.ext_getElem
  · rw [hrl, Dom.domain_length]; simp
  · intro k h1 h2
    have hgk := hg k
    rw [List.getElem?_eq_getElem h1, Option.getD_some] at hgk
    rw [← hgk]
    rw [hrl, Dom.domain_length] at h1
    by_cases hk : k < D.vecs.length
    · rw [List.getElem_append_left (by simpa using hk)]
      simp only [List.getElem_map]
      have hkd : k < D.domain.length := by rw [Dom.domain_length]; omega
      have hdk : D.domain[k] = AVal.clip D D.vecs[k] := by
        have : D.domain[k]? = some (AVal.clip D D.vecs[k]) := by
          unfold Dom.domain
          rw [List.getElem?_append_left (by simpa using hk)]; simp [hk]
        exact (List.getElem_eq_iff hkd).mpr this
      have hne : AVal.clip D D.vecs[k] ≠ none := by
        intro h
        exact Dom.none_notMem D (h ▸ List.mem_map_of_mem (List.getElem_mem hk))
      have := codeTab_mc D C diam L hlen root hb _ hne
      rw [← hdk, Dom.index_domain k hkd] at this
      rw [this, hdk]
    · have : k = D.vecs.length := by omega
      subst this
      rw [codeTab_last D C diam L root hroot, List.getElem_append_right (by simp)]
      simp
end Code

set_option linter.unusedVariables false in
/-- **The translated `ADD.modelcount` is the model's `modelcount`**: on a diagram over the clipped values of a domain `D`, of regular array shape,
with the root inside the table and `ChildBound` (see the header), the translated dynamic programme returns the model's `modelcount`
(the model's recurrence `mc` from the root for every valid value in `domain()` order, then `2^n − Σ`).
(`hw`, `hd` are kept from the intended statement; the proof does not use them: `Shape` already has one level per unit, inactive nodes count 0 on
both sides, and both sides use the same `AVal.sub`.) -/
theorem modelcount_eq (D : Dom) (d : Diagram (AVal D)) (hs : Shape d) (hw : d.WF) (hd : 0 < D.dim) (hroot : d.root < d.diameter)
    (hb : ChildBound d.C d.diameter d.levels d.root) :
    letI : Inhabited (AVal D) := ⟨0⟩
    GenD.add_modelcount (· + ·) AVal.sub (fun v => v.isNone) (fun v => ((D.index v : ℕ) : Int)) D.domain
        (unitsI d.units) (d.root : Int) (nodesOf d.levels) (childOf d.levels) (adderOf d.levels) (d.diameter : Int) (d.C : Int)
      = d.modelcount AVal.sub? (D.vecs.map (AVal.clip D)) := by
  show @GenD.add_modelcount (AVal D) ⟨0⟩ _ _ _ _ _ _ _ _ _ _ _ _ = _
  rw [modelcount_unfold]
  have hfold := foldl_levels (fun st lv => levelStep D d.C d.diameter st lv)
    (Np.setColL2 (Np.zerosL2 (d.diameter : Int) (D.domain.length : Int)) (0 : Int) (1 : Int)) d.levels
  rw [hs.1] at hfold
  simp only [hfold]
  have hrow := root_row D d.C d.diameter d.root d.levels (fun lv h => (hs.2 lv h).1) hroot hb
  unfold codeTab at hrow
  rw [hrow, set1_last, sumI_eq_sum]
  unfold Diagram.modelcount
  simp

instance ChildBound.dec {V : Type} [Add V] [Zero V] (C diam : ℕ) : (L : List (Level V)) → (j : ℕ) → Decidable (ChildBound C diam L j)
  | [], j => inferInstanceAs (Decidable (j < diam))
  | lv :: rest, j =>
    have : ∀ c, Decidable (ChildBound C diam rest ((nodeAt lv j).ch c)) := fun _ => ChildBound.dec C diam rest _
    inferInstanceAs (Decidable ((nodeAt lv j).active = true → ∀ c, c < C → ChildBound C diam rest ((nodeAt lv j).ch c)))

instance {V : Type} [Add V] [Zero V] (d : Diagram V) : Decidable (Shape d) := by unfold Shape; infer_instance

/-- sufficient: no child entry anywhere reaches the diameter -/
theorem ChildBound.of_forall {V : Type} [Add V] [Zero V] (C diam : ℕ) (L : List (Level V))
    (h : ∀ lv ∈ L, ∀ nd ∈ lv, ∀ c ∈ nd.child, c < diam) (j : ℕ) (hj : j < diam) : ChildBound C diam L j := by
  induction L generalizing j with
  | nil => exact hj
  | cons lv rest ih =>
    intro _ c _
    apply ih (fun lv' h' => h lv' (by simp [h']))
    have hpos : 0 < diam := by omega
    have hn : nodeAt lv j ∈ lv ∨ nodeAt lv j = ⟨false, [], []⟩ := by
      unfold nodeAt
      by_cases h1 : j < lv.length
      · left; rw [List.getD_eq_getElem?_getD, List.getElem?_eq_getElem h1]; exact List.getElem_mem h1
      · right; rw [List.getD_eq_getElem?_getD, List.getElem?_eq_none (by omega)]; rfl
    have hc : ∀ nd : Node V, (∀ c ∈ nd.child, c < diam) → nd.ch c < diam := by
      intro nd hnd
      unfold Node.ch
      by_cases h2 : c < nd.child.length
      · rw [List.getD_eq_getElem?_getD, List.getElem?_eq_getElem h2]; exact hnd _ (List.getElem_mem h2)
      · rw [List.getD_eq_getElem?_getD, List.getElem?_eq_none (by omega)]; exact hpos
    rcases hn with hn | hn
    · exact hc _ (h lv (by simp) _ hn)
    · rw [hn]; exact hc _ (by simp)

/-! ### concrete instances -/
namespace CountEx
abbrev B : Dom := .box [2, 2]
def dd : Diagram (AVal B) :=
  ((chain [0, 1] 2).update [(0, 0, 1)] (AVal.clip B [1, 0]) true).update [(1, 0, 1)] (AVal.clip B [0, 2]) true
def gen (D : Dom) (d : Diagram (AVal D)) : List Int :=
  @GenD.add_modelcount (AVal D) ⟨0⟩ (· + ·) AVal.sub (fun v => v.isNone) (fun v => ((D.index v : ℕ) : Int)) D.domain
        (unitsI d.units) (d.root : Int) (nodesOf d.levels) (childOf d.levels) (adderOf d.levels) (d.diameter : Int) (d.C : Int)
-- #eval gen B dd                                              -- [1, 0, 1, 1, 0, 1, 0, 0, 0, 0]
-- #eval dd.modelcount AVal.sub? (B.vecs.map (AVal.clip B))    -- [1, 0, 1, 1, 0, 1, 0, 0, 0, 0]
example : Shape dd ∧ dd.WF ∧ 0 < B.dim ∧ dd.root < dd.diameter ∧ ChildBound dd.C dd.diameter dd.levels dd.root := by decide
/-- non-vacuity: the translated function evaluated on a chain with two updated edges -/
example : gen B dd = [1, 0, 1, 1, 0, 1, 0, 0, 0, 0] := by decide +kernel
example : gen B dd = dd.modelcount AVal.sub? (B.vecs.map (AVal.clip B)) :=
  modelcount_eq B dd (by decide) (by decide) (by decide) (by decide) (by decide)

abbrev B1 : Dom := .box [1]
/-- `ChildBound` cannot be dropped: one level, one active node whose child entries are 1 = diameter.  All other hypotheses hold; the translated
code reads the missing row 1 of the initial table as 0 (Python: `IndexError`), the model counts both assignments at value 0. -/
def bad : Diagram (AVal B1) := { units := [7], C := 2, diameter := 1, root := 0, levels := [[⟨true, [1, 1], [0, 0]⟩]] }
example : Shape bad ∧ bad.WF ∧ 0 < B1.dim ∧ bad.root < bad.diameter ∧ ¬ ChildBound bad.C bad.diameter bad.levels bad.root ∧
    gen B1 bad = [0, 0, 2] ∧ bad.modelcount AVal.sub? (B1.vecs.map (AVal.clip B1)) = [2, 0, 0] := by decide +kernel
end CountEx
end DsProofs.TieD

#print axioms DsProofs.TieD.modelcount_eq
