import TieD.StackProofs
import TieD.LocProofs
import TieD.UpdateProofs
import DsProofs.OracleProofs
/-!
# TieD.CompileLemmas — list facts for `TieD.CompileProofs` (sortedness of the model's components, `Np.get1` at 0/1, `itertools.product`, `mapM` along a `Forall₂`)
-/
open Ds Ds.Dd Ds.GenCall Ds.GenOps Ds.Oracle

namespace DsProofs.TieD
set_option linter.unusedSectionVars false

/-! ### the model's components are sorted -/

theorem eraseDups_sublist {α : Type} [BEq α] [LawfulBEq α] (l : List α) : l.eraseDups.Sublist l := by
  induction hn : l.length using Nat.strong_induction_on generalizing l with
  | _ n ih =>
    cases l with
    | nil => simp
    | cons a t =>
      rw [List.eraseDups_cons]
      refine List.Sublist.cons_cons a ?_
      exact (ih _ (by rw [← hn]; exact Nat.lt_succ_of_le (List.length_filter_le _ _)) _ rfl).trans List.filter_sublist

theorem dedupSorted_pairwise (l : List ℕ) : (dedupSorted l).Pairwise (· ≤ ·) := by
  unfold dedupSorted
  refine List.Pairwise.sublist (eraseDups_sublist _) ?_
  have := List.pairwise_mergeSort (le := fun a b : ℕ => decide (a ≤ b))
    (fun a b c hab hbc => by simp only [decide_eq_true_eq] at *; omega)
    (fun a b => by simp only [Bool.or_eq_true, decide_eq_true_eq]; omega) l
  exact this.imp (fun h => by simpa using h)

theorem componentOf_pairwise (pairs : List (ℕ × ℕ)) (u : ℕ) (fuel : ℕ) (acc : List ℕ) (h : acc.Pairwise (· ≤ ·)) :
    (componentOf pairs u fuel acc).Pairwise (· ≤ ·) := by
  induction fuel generalizing acc with
  | zero => exact h
  | succ k ih =>
    unfold componentOf
    simp only
    split
    · exact h
    · exact ih _ (dedupSorted_pairwise _)

theorem components_pairwise (n : ℕ) (pairs : List (ℕ × ℕ)) : ∀ comp ∈ components n pairs, comp.Pairwise (· ≤ ·) := by
  unfold components
  generalize List.range n = l
  suffices H : ∀ (init : List (List ℕ)), (∀ comp ∈ init, comp.Pairwise (· ≤ ·)) →
      ∀ comp ∈ l.foldl (fun comps u => if comps.any (·.contains u) then comps else comps ++ [componentOf pairs u n [u]]) init,
        comp.Pairwise (· ≤ ·) from H [] (by simp)
  induction l with
  | nil => intro init hi; exact hi
  | cons a t ih =>
    intro init hi
    rw [List.foldl_cons]
    apply ih
    split
    · exact hi
    · intro comp hc
      rcases List.mem_append.mp hc with hc | hc
      · exact hi comp hc
      · rw [List.mem_singleton] at hc
        rw [hc]
        exact componentOf_pairwise pairs a n [a] (List.pairwise_singleton _ _)

/-! ### `unitsI` through `filter` and `sorted` -/

theorem unitsI_filter_contains (comp leaves : List ℕ) :
    (unitsI comp).filter (fun u => (unitsI leaves).contains u) = unitsI (comp.filter (fun u => leaves.contains u)) := by
  unfold unitsI
  rw [List.filter_map]
  congr 1
  apply List.filter_congr
  intro x _
  exact contains_unitsI leaves x

theorem unitsI_filter_not_contains (comp leaves : List ℕ) :
    (unitsI comp).filter (fun u => !(unitsI leaves).contains u) = unitsI (comp.filter (fun u => !leaves.contains u)) := by
  unfold unitsI
  rw [List.filter_map]
  congr 1
  apply List.filter_congr
  intro x _
  simp only [Function.comp_apply]
  rw [← contains_unitsI leaves x]; rfl

theorem mergeSort_unitsI (l : List ℕ) (h : l.Pairwise (· ≤ ·)) : (unitsI l).mergeSort (fun a b => decide (a ≤ b)) = unitsI l := by
  apply List.mergeSort_of_pairwise
  unfold unitsI
  rw [List.pairwise_map]
  exact h.imp (fun hab => by simpa using hab)

theorem range_unitsI (n : ℕ) : Np.range (0 : Int) (n : Int) (1 : Int) = unitsI (List.range n) := by
  unfold Np.range unitsI
  rw [if_pos (by omega)]
  have : (((n : Int) - 0 + 1 - 1) / 1).toNat = n := by simp
  rw [this]
  apply List.map_congr_left
  intro k _
  simp

/-! ### `Np.get1` at 0 and 1 -/

theorem get1_zero {β : Type} [Inhabited β] (l : List β) : Np.get1 l (0 : Int) = l.headD default := by
  cases l with
  | nil => rfl
  | cons a t =>
    unfold Np.get1 Np.pyIdx
    simp

theorem get1_pair_zero (a b : Int) : Np.get1 [a, b] (0 : Int) = a := rfl
theorem get1_pair_one (a b : Int) : Np.get1 [a, b] (1 : Int) = b := rfl

/-! ### `itertools.product` -/

theorem length_product {β : Type} (ls : List (List β)) : (Np.product ls).length = (ls.map List.length).prod := by
  induction ls with
  | nil => rfl
  | cons l t ih =>
    rw [Np.product, List.length_flatMap]
    simp only [List.length_map, ih, List.map_const', List.sum_replicate_nat, List.map_cons, List.prod_cons]

theorem length_product_replicate {β : Type} (k : ℕ) (l : List β) : (Np.product (List.replicate k l)).length = l.length ^ k := by
  rw [length_product, List.map_replicate, List.prod_replicate]

theorem map_const_replicate {α β : Type} (l : List α) (b : β) : l.map (fun _ => b) = List.replicate l.length b := by
  simp

/-! ### `mapM` along a `Forall₂` -/

theorem mapM_ok_of_forall₂ {ι κ γ δ : Type} (R : ι → δ → Prop) (f : κ → Except String γ) (c : ι → κ) (g : δ → γ) (l : List ι) (ys : List δ)
    (hR : List.Forall₂ R l ys) (h : ∀ x ∈ l, ∀ y, R x y → f (c x) = .ok (g y)) : (l.map c).mapM f = .ok (ys.map g) := by
  induction hR with
  | nil => rfl
  | @cons a b t bs hab _ ih =>
    rw [List.map_cons, List.mapM_cons, h a List.mem_cons_self b hab, ih (fun x hx => h x (List.mem_cons_of_mem _ hx))]
    rfl

end DsProofs.TieD
