import TieD.LocLemmas
/-!
# TieD.LocProofs — the translated `ADD.get_update_location` is the model's `getUpdateLocation`
-/
open Ds Ds.Dd Ds.GenCall Ds.GenOps

namespace DsProofs.TieD
set_option linter.unusedSectionVars false
variable {V : Type} [AddCommMonoid V]

/-- the location list with integer entries -/
def locI (loc : List (ℕ × ℕ × ℕ)) : List (Int × Int × Int) := loc.map (fun e => ((e.1 : Int), (e.2.1 : Int), (e.2.2 : Int)))

/-! ### the translated function, with its loop pieces named -/

def gCond (U : List Int) (unit : Int) : Int × List Int → Except String Bool := fun s => do
  let u ← Np.getE U s.1
  pure (u != unit)

def gBody (Ch : List (List (List Int))) : Int × List Int → Except String (Int × List Int) := fun s => do
  let nxt ← Np.rowsFlatE Ch s.1 s.2
  pure (s.1 + (1 : Int), Np.pySet nxt)

def gStep (U : List Int) (Ch : List (List (List Int))) (C : Int) :
    Int × List Int × List (Int × Int × Int) → Int × Int → Except String (Int × List Int × List (Int × Int × Int)) := fun st_ uv => do
  let w_ ← Np.whileFuel (U.length + 1) (st_.1, st_.2.1) (gCond U uv.1) (gBody Ch)
  let nxt ← Np.colsE Ch C w_.1 w_.2 uv.2
  pure (w_.1 + (1 : Int), Np.pySet nxt, w_.2.map (fun node => (w_.1, node, uv.2)))

theorem getloc_unfold (U : List Int) (root : Int) (N : List (List Int)) (Ch : List (List (List Int))) (C : Int) (units values : List Int) :
    GenD.add_get_update_location U root N Ch C units values = (do
      let keyed ← (List.zip units values).mapM (fun (uv : Int × Int) =>
        if U.contains uv.1 then (pure (Np.indexOf U uv.1, uv) : Except String (Int × Int × Int)) else throw "KeyError")
      let assignment : List (Int × Int) := (keyed.mergeSort (fun a b => decide (a.1 ≤ b.1))).map (fun kv => kv.2)
      if Np.len1 assignment == (0 : Int) then throw "ValueError"
      let start : Int × List Int ←
        (if Np.len1 assignment == (1 : Int) then do
          let row ← Np.getE N (Np.indexOf U (assignment.headD default).1)
          (pure (Np.indexOf U (assignment.headD default).1, Np.pySet (Np.nonzeroIdx row)) : Except String (Int × List Int))
        else pure ((0 : Int), Np.pySet [root]))
      let st_ ← assignment.foldlM (gStep U Ch C) (start.1, start.2, [])
      pure st_.2.2) := rfl

/-- pairs of naturals as pairs of integers -/
def castP (uv : ℕ × ℕ) : Int × Int := ((uv.1 : Int), (uv.2 : Int))
def castN (k : ℕ) : Int := (k : Int)

/-! ### the loop pieces at natural arguments -/

theorem gCond_eval (units : List ℕ) (u cur : ℕ) (ns : List Int) (h : cur < units.length) :
    gCond (unitsI units) (u : Int) ((cur : Int), ns) = .ok (units[cur] != u) := by
  unfold gCond
  simp only
  rw [getE_natCast _ _ (by unfold unitsI; rw [List.length_map]; exact h)]
  simp only [unitsI, List.getElem_map, bind, Except.bind, pure, Except.pure]
  congr 1
  rw [Bool.eq_iff_iff]
  simp only [bne_iff_ne, ne_eq, Nat.cast_inj]

theorem childOf_getElem (levels : List (Level V)) (cur : ℕ) (h : cur < levels.length) :
    (childOf levels)[cur]'(by unfold childOf; rw [List.length_map]; exact h)
      = levels[cur].map (fun nd => nd.child.map (fun (k : ℕ) => (k : Int))) := by
  unfold childOf
  rw [List.getElem_map]

theorem levels_getD (levels : List (Level V)) (cur : ℕ) (h : cur < levels.length) : levels.getD cur [] = levels[cur] := by
  simp [List.getD_eq_getElem?_getD, h]

theorem gBody_eval (levels : List (Level V)) (C cur : ℕ) (nodes : List ℕ) (h : cur < levels.length)
    (hn : ∀ j ∈ nodes, j < (levels.getD cur []).length) (hC : ∀ nd ∈ levels.getD cur [], nd.child.length = C) :
    gBody (childOf levels) ((cur : Int), nodes.map castN)
      = .ok (((cur + 1 : ℕ) : Int),
          (dedupSorted (nodes.flatMap (fun j => (List.range C).map (fun c => (nodeAt (levels.getD cur []) j).ch c)))).map castN) := by
  rw [levels_getD levels cur h] at hn hC ⊢
  unfold gBody Np.rowsFlatE
  simp only
  rw [getE_natCast _ _ (by unfold childOf; rw [List.length_map]; exact h), childOf_getElem levels cur h]
  simp only [bind, Except.bind]
  unfold castN
  rw [mapM_map_ok_of_forall _ _ (fun j => ((List.range C).map (fun c => (nodeAt levels[cur] j).ch c)).map (fun k : ℕ => (k : Int)))]
  · simp only [pure, Except.pure]
    rw [flatten_map_cast, pySet_cast]
    simp only [Nat.cast_add, Nat.cast_one]
  · intro j hj
    have hj' := hn j hj
    rw [getE_natCast _ _ (by rw [List.length_map]; exact hj'), List.getElem_map, nodeAt_getElem _ _ hj']
    congr 2
    have := hC _ (List.getElem_mem hj')
    unfold Node.ch
    rw [← this, map_getD_range]

theorem cols_eval (levels : List (Level V)) (C cur v : ℕ) (nodes : List ℕ) (h : cur < levels.length) (hv : v < C)
    (hn : ∀ j ∈ nodes, j < (levels.getD cur []).length) (hC : ∀ nd ∈ levels.getD cur [], nd.child.length = C) :
    Np.colsE (childOf levels) (C : Int) (cur : Int) (nodes.map castN) (v : Int)
      = .ok ((nodes.map (fun j => (nodeAt (levels.getD cur []) j).ch v)).map castN) := by
  rw [levels_getD levels cur h] at hn hC ⊢
  unfold Np.colsE
  rw [getE_natCast _ _ (by unfold childOf; rw [List.length_map]; exact h), childOf_getElem levels cur h]
  simp only [bind, Except.bind, Int.toNat_natCast, Np.pyIdx_natCast, if_pos hv]
  unfold castN
  rw [List.map_map]
  apply mapM_map_ok_of_forall
  intro j hj
  have hj' := hn j hj
  rw [getE_natCast _ _ (by rw [List.length_map]; exact hj'), List.getElem_map]
  simp only [Function.comp_apply]
  rw [nodeAt_getElem _ _ hj']
  have hl := hC _ (List.getElem_mem hj')
  simp only [List.getElem?_map]
  rw [List.getElem?_eq_getElem (by omega)]
  simp only [Option.map_some, Node.ch, List.getD_eq_getElem?_getD]
  rw [List.getElem?_eq_getElem (by omega)]
  rfl

theorem nodeAt_ch_lt' {d : Diagram V} (hc : ChildrenInRange d) {lv : Level V} (hlv : lv ∈ d.levels) (hpos : 0 < d.diameter) (j c : ℕ) :
    (nodeAt lv j).ch c < d.diameter := by
  rcases nodeAt_mem_or lv j with hm | he
  · exact NodeOK.ch_lt (hc lv hlv _ hm) hpos c
  · rw [he]; exact hpos

/-! ### the `while` loop is the model's `skip` -/

theorem whileFuel_succ {σ : Type} (n : ℕ) (s : σ) (cond : σ → Except String Bool) (body : σ → Except String σ) :
    Np.whileFuel (n + 1) s cond body = (do if (← cond s) then Np.whileFuel n (← body s) cond body else pure s) := rfl

theorem skip_eq (d : Diagram V) (hs : Shape d) (hc : ChildrenInRange d) (hpos : 0 < d.diameter) (u : ℕ) (fuel : ℕ) :
    ∀ (cur : ℕ) (nodes : List ℕ), (∀ j ∈ nodes, j < d.diameter) → ∀ (cur' : ℕ) (nodes' : List ℕ),
      Diagram.getUpdateLocation.skip d u cur nodes fuel = .ok (cur', nodes') →
      Np.whileFuel fuel ((cur : Int), nodes.map castN) (gCond (unitsI d.units) (u : Int)) (gBody (childOf d.levels))
          = .ok ((cur' : Int), nodes'.map castN)
        ∧ (∀ j ∈ nodes', j < d.diameter) ∧ cur' < d.units.length := by
  induction fuel with
  | zero =>
    intro cur nodes _ cur' nodes' h
    simp only [Diagram.getUpdateLocation.skip] at h
    cases h
  | succ n ih =>
    intro cur nodes hn cur' nodes' h
    rw [Diagram.getUpdateLocation.skip] at h
    cases hu : d.units[cur]? with
    | none => rw [hu] at h; cases h
    | some u' =>
      rw [hu] at h
      simp only at h
      have hcur : cur < d.units.length := by
        by_contra hh
        rw [List.getElem?_eq_none (by omega)] at hu
        cases hu
      have hu' : d.units[cur] = u' := by
        rw [List.getElem?_eq_getElem hcur] at hu
        exact Option.some.inj hu
      rw [whileFuel_succ, gCond_eval _ _ _ _ hcur, hu']
      by_cases he : u' = u
      · subst he
        simp only [beq_self_eq_true, if_true, pure, Except.pure, Except.ok.injEq, Prod.mk.injEq] at h
        obtain ⟨h1, h2⟩ := h
        subst h1; subst h2
        refine ⟨?_, hn, hcur⟩
        simp only [bind, Except.bind, bne_self_eq_false, Bool.false_eq_true, if_false]
        rfl
      · have hb : (u' == u) = false := by simpa using he
        rw [hb] at h
        simp only [Bool.false_eq_true, if_false] at h
        have hlv : cur < d.levels.length := by rw [hs.1]; exact hcur
        have hmem : d.levels.getD cur [] ∈ d.levels := by rw [levels_getD _ _ hlv]; exact List.getElem_mem hlv
        obtain ⟨hlen, hnd⟩ := hs.2 _ hmem
        have hbody := gBody_eval d.levels d.C cur nodes hlv (fun j hj => by rw [hlen]; exact hn j hj) (fun nd hnd' => (hnd nd hnd').1)
        have hne : (u' != u) = true := by simpa using he
        simp only [bind, Except.bind, hne, if_true]
        rw [hbody]
        simp only
        refine ih (cur + 1) _ ?_ cur' nodes' h
        intro j hj
        rw [mem_dedupSorted, List.mem_flatMap] at hj
        obtain ⟨i, _, hj⟩ := hj
        rw [List.mem_map] at hj
        obtain ⟨c, _, rfl⟩ := hj
        exact nodeAt_ch_lt' hc hmem hpos i c

/-! ### the `for` loop is the model's `walk` -/

theorem walk_eq (d : Diagram V) (hs : Shape d) (hc : ChildrenInRange d) (hpos : 0 < d.diameter) (l : List (ℕ × ℕ)) :
    ∀ (cur : ℕ) (nodes : List ℕ) (loc0 loc : List (ℕ × ℕ × ℕ)), (∀ uv ∈ l, uv.2 < d.C) → (∀ j ∈ nodes, j < d.diameter) →
      Diagram.getUpdateLocation.walk d l cur nodes loc0 = .ok loc →
      ((l.map castP).foldlM (gStep (unitsI d.units) (childOf d.levels) (d.C : Int)) ((cur : Int), nodes.map castN, locI loc0)
          >>= fun st_ => pure st_.2.2) = .ok (locI loc) := by
  induction l with
  | nil =>
    intro cur nodes loc0 loc _ _ h
    simp only [Diagram.getUpdateLocation.walk, pure, Except.pure, Except.ok.injEq] at h
    subst h
    rfl
  | cons uv rest ih =>
    intro cur nodes loc0 loc hv hn h
    obtain ⟨u, v⟩ := uv
    rw [Diagram.getUpdateLocation.walk] at h
    cases hsk : Diagram.getUpdateLocation.skip d u cur nodes (d.levels.length + 1) with
    | error e => rw [hsk] at h; cases h
    | ok p =>
      obtain ⟨cur', nodes'⟩ := p
      rw [hsk] at h
      simp only [bind, Except.bind] at h
      obtain ⟨hw, hn', hcur'⟩ := skip_eq d hs hc hpos u _ cur nodes hn cur' nodes' hsk
      have hlv : cur' < d.levels.length := by rw [hs.1]; exact hcur'
      have hmem : d.levels.getD cur' [] ∈ d.levels := by rw [levels_getD _ _ hlv]; exact List.getElem_mem hlv
      obtain ⟨hlen, hnd⟩ := hs.2 _ hmem
      have hvC : v < d.C := hv (u, v) List.mem_cons_self
      have hcols := cols_eval d.levels d.C cur' v nodes' hlv hvC (fun j hj => by rw [hlen]; exact hn' j hj) (fun nd hnd' => (hnd nd hnd').1)
      have hfuel : (unitsI d.units).length + 1 = d.levels.length + 1 := by unfold unitsI; rw [List.length_map, hs.1]
      rw [List.map_cons, List.foldlM_cons]
      have hstep : gStep (unitsI d.units) (childOf d.levels) (d.C : Int) ((cur : Int), nodes.map castN, locI loc0) (castP (u, v))
          = .ok (((cur' + 1 : ℕ) : Int), (dedupSorted (nodes'.map (fun j => (nodeAt (d.levels.getD cur' []) j).ch v))).map castN,
              locI (nodes'.map (fun j => (cur', j, v)))) := by
        unfold gStep castP
        simp only
        rw [hfuel, hw]
        simp only [bind, Except.bind]
        rw [hcols]
        simp only [pure, Except.pure]
        unfold castN locI
        rw [pySet_cast]
        simp only [Nat.cast_add, Nat.cast_one, List.map_map]
        rfl
      rw [hstep]
      simp only [bind, Except.bind] at ih ⊢
      refine ih (cur' + 1) _ _ loc (fun uv huv => hv uv (List.mem_cons_of_mem _ huv)) ?_ h
      intro j hj
      rw [mem_dedupSorted, List.mem_map] at hj
      obtain ⟨i, _, rfl⟩ := hj
      exact nodeAt_ch_lt' hc hmem hpos i v

/-! ### the sorted assignment -/

theorem contains_unitsI (units : List ℕ) (u : ℕ) : (unitsI units).contains (u : Int) = units.contains u := by
  rw [Bool.eq_iff_iff]
  simp only [List.contains_iff_mem, unitsI, List.mem_map, Nat.cast_inj, exists_eq_right]

/-- the key of an assignment entry in the translated code -/
def keyP (units : List ℕ) (uv : ℕ × ℕ) : Int × Int × Int := (((units.idxOf uv.1 : ℕ) : Int), castP uv)

theorem keyed_eq (units : List ℕ) (asg : List (ℕ × ℕ)) (h : asg.any (fun uv => !units.contains uv.1) = false) :
    (List.zip (asg.map (fun uv => (uv.1 : Int))) (asg.map (fun uv => (uv.2 : Int)))).mapM (fun (uv : Int × Int) =>
        if (unitsI units).contains uv.1 then (pure (Np.indexOf (unitsI units) uv.1, uv) : Except String (Int × Int × Int)) else throw "KeyError")
      = .ok (asg.map (keyP units)) := by
  rw [List.zip_map']
  apply mapM_map_ok_of_forall
  intro uv huv
  rw [List.any_eq_false] at h
  have := h uv huv
  simp only [Bool.not_eq_true, Bool.not_eq_false'] at this
  simp only [contains_unitsI, this, if_true, indexOf_unitsI]
  rfl

theorem sorted_eq (units : List ℕ) (asg : List (ℕ × ℕ)) :
    ((asg.map (keyP units)).mergeSort (fun a b => decide (a.1 ≤ b.1))).map (fun kv => kv.2)
      = (asg.mergeSort (fun a b => units.idxOf a.1 ≤ units.idxOf b.1)).map castP := by
  rw [← List.map_mergeSort (r := fun a b : ℕ × ℕ => decide (units.idxOf a.1 ≤ units.idxOf b.1)), List.map_map]
  · rfl
  · intro a _ b _
    simp only [keyP, Nat.cast_le]

/-! ### the start of a single-unit assignment -/

theorem nodeAt_cons_zero (nd : Node V) (t : Level V) : nodeAt (nd :: t) 0 = nd := rfl
theorem nodeAt_cons_succ (nd : Node V) (t : Level V) (j : ℕ) : nodeAt (nd :: t) (j + 1) = nodeAt t j := rfl

theorem nonzeroIdx_from (lv : Level V) (s : ℕ) :
    ((Np.enumerateFrom (s : Int) (lv.map (fun nd => if nd.active then (1 : Int) else 0))).filter (fun ix => ix.2 != 0)).map (fun ix => ix.1)
      = ((List.range lv.length).filter (fun j => (nodeAt lv j).active)).map (fun j => ((s + j : ℕ) : Int)) := by
  induction lv generalizing s with
  | nil => rfl
  | cons nd t ih =>
    have e : ((s : Int) + 1) = ((s + 1 : ℕ) : Int) := by push_cast; rfl
    rw [List.map_cons, Np.enumerateFrom, e, List.length_cons, List.range_succ_eq_map, List.filter_cons, List.filter_cons, nodeAt_cons_zero,
      List.filter_map]
    have e2 : ((fun j => (nodeAt (nd :: t) j).active) ∘ Nat.succ) = (fun j => (nodeAt t j).active) := by
      funext j; rfl
    rw [e2]
    cases hna : nd.active
    · simp only [Bool.false_eq_true, if_false, bne_self_eq_false, List.map_map]
      rw [ih (s + 1)]
      apply List.map_congr_left
      intro j _
      simp only [Function.comp_apply, Nat.succ_eq_add_one]
      congr 1; omega
    · have : (((1 : Int) != 0) = true) := by decide
      simp only [if_true, this, List.map_cons, List.map_map, Nat.add_zero]
      rw [ih (s + 1)]
      congr 1
      apply List.map_congr_left
      intro j _
      simp only [Function.comp_apply, Nat.succ_eq_add_one]
      congr 1; omega

theorem start_single (lv : Level V) :
    Np.pySet (Np.nonzeroIdx (lv.map (fun nd => if nd.active then (1 : Int) else 0)))
      = ((List.range lv.length).filter (fun j => (nodeAt lv j).active)).map castN := by
  unfold Np.nonzeroIdx
  have := nonzeroIdx_from lv 0
  simp only [Nat.cast_zero, Nat.zero_add] at this
  rw [this, pySet_cast, dedupSorted_of_sorted]
  · rfl
  · exact List.Pairwise.filter _ List.pairwise_lt_range

/-! ### assembling -/

theorem getloc_core (d : Diagram V) (hs : Shape d) (hc : ChildrenInRange d) (hroot : d.root < d.diameter) (sorted : List (ℕ × ℕ))
    (hv : ∀ uv ∈ sorted, uv.2 < d.C) (hu : ∀ uv ∈ sorted, uv.1 ∈ d.units) (loc : List (ℕ × ℕ × ℕ))
    (h : (match sorted with
          | [] => (throw Err.valueError : Except Err (List (ℕ × ℕ × ℕ)))
          | [(u, _)] =>
            Diagram.getUpdateLocation.walk d sorted (d.units.idxOf u)
              ((List.range (d.levels.getD (d.units.idxOf u) []).length).filter (fun j => (nodeAt (d.levels.getD (d.units.idxOf u) []) j).active)) []
          | _ => Diagram.getUpdateLocation.walk d sorted 0 [d.root] []) = .ok loc) :
    (do
      if Np.len1 (sorted.map castP) == (0 : Int) then throw "ValueError"
      let start : Int × List Int ←
        (if Np.len1 (sorted.map castP) == (1 : Int) then do
          let row ← Np.getE (nodesOf d.levels) (Np.indexOf (unitsI d.units) ((sorted.map castP).headD default).1)
          (pure (Np.indexOf (unitsI d.units) ((sorted.map castP).headD default).1, Np.pySet (Np.nonzeroIdx row)) : Except String (Int × List Int))
        else pure ((0 : Int), Np.pySet [(d.root : Int)]))
      let st_ ← (sorted.map castP).foldlM (gStep (unitsI d.units) (childOf d.levels) (d.C : Int)) (start.1, start.2, [])
      pure st_.2.2) = .ok (locI loc) := by
  have hpos : 0 < d.diameter := by omega
  match sorted, hv, hu, h with
  | [], _, _, h => cases h
  | [(u, v)], hv, hu, h =>
    simp only at h
    have hmemu : u ∈ d.units := hu (u, v) List.mem_cons_self
    have hi : d.units.idxOf u < d.levels.length := by rw [hs.1]; exact List.idxOf_lt_length_of_mem hmemu
    have hw := walk_eq d hs hc hpos [(u, v)] (d.units.idxOf u) _ [] loc hv ?_ h
    · have h0 : (Np.len1 ([(u, v)].map castP) == (0 : Int)) = false := rfl
      have h1 : (Np.len1 ([(u, v)].map castP) == (1 : Int)) = true := rfl
      rw [h0, h1]
      simp only [Bool.false_eq_true, if_false, if_true, List.map_cons, List.map_nil, List.headD_cons, castP, indexOf_unitsI]
      rw [getE_natCast _ _ (by unfold nodesOf; rw [List.length_map]; exact hi)]
      simp only [bind, Except.bind, pure, Except.pure, nodesOf, List.getElem_map]
      rw [start_single, ← levels_getD _ _ hi]
      exact hw
    · intro j hj
      rw [List.mem_filter, List.mem_range] at hj
      have hmem : d.levels.getD (d.units.idxOf u) [] ∈ d.levels := by rw [levels_getD _ _ hi]; exact List.getElem_mem hi
      rw [← (hs.2 _ hmem).1]
      exact hj.1
  | a :: b :: t, hv, hu, h =>
    simp only at h
    have hw := walk_eq d hs hc hpos (a :: b :: t) 0 [d.root] [] loc hv ?_ h
    · have h0 : (Np.len1 ((a :: b :: t).map castP) == (0 : Int)) = false := by
        unfold Np.len1; simp only [List.map_cons, List.length_cons, beq_eq_false_iff_ne]; omega
      have h1 : (Np.len1 ((a :: b :: t).map castP) == (1 : Int)) = false := by
        unfold Np.len1; simp only [List.map_cons, List.length_cons, beq_eq_false_iff_ne]; omega
      rw [h0, h1]
      simp only [Bool.false_eq_true, if_false]
      have hroot' : Np.pySet [(d.root : Int)] = [d.root].map castN := by
        have := pySet_cast [d.root]
        rw [dedupSorted_singleton] at this
        exact this
      rw [hroot']
      exact hw
    · intro j hj
      rw [List.mem_singleton] at hj
      rw [hj]; exact hroot

/-- whenever the model's `getUpdateLocation` succeeds on a reachable diagram for an assignment whose values are candidate indices, the translated
`ADD.get_update_location` succeeds and returns the same edges (sets as sorted lists on both sides) -/
theorem getloc_eq (d : Diagram V) (asg : List (ℕ × ℕ)) (loc : List (ℕ × ℕ × ℕ)) (hr : Reach d) (hv : ∀ uv ∈ asg, uv.2 < d.C)
    (h : d.getUpdateLocation asg = .ok loc) :
    GenD.add_get_update_location (unitsI d.units) (d.root : Int) (nodesOf d.levels) (childOf d.levels) (d.C : Int)
        (asg.map (fun uv => (uv.1 : Int))) (asg.map (fun uv => (uv.2 : Int)))
      = .ok (locI loc) := by
  obtain ⟨hs, hc, hroot⟩ := reach_shape d hr
  have hpos : 0 < d.diameter := by omega
  rw [getloc_unfold]
  unfold Diagram.getUpdateLocation at h
  by_cases hany : asg.any (fun uv => !d.units.contains uv.1) = true
  · rw [hany] at h; cases h
  rw [Bool.not_eq_true] at hany
  rw [hany] at h
  rw [keyed_eq _ _ hany]
  simp only [Bool.false_eq_true, if_false] at h
  have key := getloc_core d hs hc hroot (asg.mergeSort (fun a b => decide (d.units.idxOf a.1 ≤ d.units.idxOf b.1))) ?_ ?_ loc h
  · rw [← sorted_eq] at key
    exact key
  · intro uv huv
    rw [List.mem_mergeSort] at huv
    exact hv uv huv
  · intro uv huv
    rw [List.mem_mergeSort] at huv
    rw [List.any_eq_false] at hany
    have := hany uv huv
    simpa using this

end DsProofs.TieD

namespace DsProofs.TieD.LocExample
def agree (d : Diagram Int) (asg : List (ℕ × ℕ)) : Bool :=
  match GenD.add_get_update_location (unitsI d.units) (d.root : Int) (nodesOf d.levels) (childOf d.levels) (d.C : Int)
        (asg.map (fun uv => (uv.1 : Int))) (asg.map (fun uv => (uv.2 : Int))), d.getUpdateLocation asg with
  | .ok x, .ok loc => x == locI loc
  | _, _ => false
/-- (assignments of two and more units were evaluated with `#eval` — `List.mergeSort` does not reduce under `decide`) -/
def stacked : Diagram Int := match stack (V := Int) [5] [chain [1, 2] 2, chain [1, 2] 2] with | .ok d => d | .error _ => default
example : agree (chain [3, 1, 2] 2) [(1, 1)] = true := by decide +kernel
end DsProofs.TieD.LocExample

#print axioms DsProofs.TieD.getloc_eq
