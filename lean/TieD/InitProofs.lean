import TieD.Defs
import TieD.ListFold
import Tie.NpProofs
import DsProofs.OracleProofs
import DsProofs.ProvProofs
/-!
# TieD.InitProofs — the translated `ShapleyOracle.__init__` builds the model's boundary diagrams (`Oracle.build`)
-/
open Ds Ds.Dd Ds.Oracle

namespace DsProofs.TieD

/-- the keys of the two dictionaries, in insertion order: every row, then `None` -/
def boundaryKeys (R : ℕ) : List (Option Int) := (List.range R).map (fun t : ℕ => some (t : Int)) ++ [none]

/-! ### the translated constructor, cut into its three loops (definitionally) -/
section Generic
variable {δ ν ℓ α : Type} [Inhabited ℓ] [Inhabited α] [LE α] [DecidableRel (α := α) (· ≤ ·)]
  (update : δ → ℓ → ν → Bool → δ) (gul : δ → Int → ℓ) (mk_tally : Int → List Int → List Int → ν) (tally_inf : ν)
  (bu : Int → List Int) (self_add : δ) (locations : List ℓ) (n_rows numclasses : Int) (labels : List Int) (distances : List α)

/-- the guard of the inner loop -/
def codeCond (t : Option Int) (tt : Int) : Bool :=
  t.isNone || decide ((Np.get1 distances (t.getD 0)) ≥ (Np.get1 distances tt))

/-- the first inner loop (`for tt in range(n_rows)`) -/
def codeStage1 (t : Option Int) : δ × δ :=
  (Np.range (0 : Int) n_rows (1 : Int)).foldl (fun (st : δ × δ) (tt : Int) =>
      if codeCond distances t tt then
        (update st.1 (Np.get1 locations tt) (mk_tally (0 : Int) (Np.eyeRow numclasses (Np.get1 labels tt)) (Np.rep (0 : Int) numclasses)) true,
         update st.2 (Np.get1 locations tt) (mk_tally (0 : Int) (Np.rep (0 : Int) numclasses) (Np.eyeRow numclasses (Np.get1 labels tt))) true)
      else st) (self_add, self_add)

/-- the body of the outer loop: the pair of diagrams stored under the key `t` -/
def codeMk (t : Option Int) : δ × δ :=
  if t.isSome then
    (bu (t.getD 0)).foldl (fun (st : δ × δ) (unit : Int) =>
      (update st.1 (gul self_add unit) tally_inf false, update st.2 (gul self_add unit) tally_inf false))
      (codeStage1 update mk_tally self_add locations n_rows numclasses labels distances t)
  else codeStage1 update mk_tally self_add locations n_rows numclasses labels distances t

theorem oracle_init_unfold :
    GenD.oracle_init update gul mk_tally tally_inf bu self_add locations n_rows numclasses labels distances
      = (Np.chainNone (Np.range (0 : Int) n_rows (1 : Int))).foldl (fun (st : List (Option Int × δ) × List (Option Int × δ)) (t : Option Int) =>
          (st.1 ++ [(t, (codeMk update gul mk_tally tally_inf bu self_add locations n_rows numclasses labels distances t).1)],
           st.2 ++ [(t, (codeMk update gul mk_tally tally_inf bu self_add locations n_rows numclasses labels distances t).2)])) ([], []) := rfl

end Generic

/-! ### generic list facts -/

/-- a loop that appends one item per key -/
theorem foldl_append_pair {κ γ₁ γ₂ : Type} (f : κ → γ₁) (g : κ → γ₂) (l : List κ) (A : List γ₁) (B : List γ₂) :
    l.foldl (fun (st : List γ₁ × List γ₂) t => (st.1 ++ [f t], st.2 ++ [g t])) (A, B) = (A ++ l.map f, B ++ l.map g) := by
  induction l generalizing A B with
  | nil => simp
  | cons x t ih => simp only [List.foldl_cons, ih, List.map_cons, List.append_assoc, List.singleton_append]

/-- a guarded pair loop is the pair of the loops over the filtered list -/
theorem foldl_pair_filter {ι σ τ : Type} (cond : ι → Bool) (f : σ → ι → σ) (g : τ → ι → τ) (l : List ι) (a : σ) (b : τ) :
    l.foldl (fun (st : σ × τ) x => if cond x then (f st.1 x, g st.2 x) else st) (a, b)
      = ((l.filter cond).foldl f a, (l.filter cond).foldl g b) := by
  induction l generalizing a b with
  | nil => rfl
  | cons x t ih =>
    simp only [List.foldl_cons, List.filter_cons]
    cases hx : cond x
    · simp only [Bool.false_eq_true, if_false]; exact ih a b
    · simp only [if_true, List.foldl_cons]; exact ih _ _

/-- inversion of a successful `foldlM` whose step binds one partial value -/
theorem foldlM_ok_inv {ι σ γ : Type} (g : ι → Except Err γ) (ext : Except Err γ → γ) (hext : ∀ y, ext (.ok y) = y)
    (F : σ → γ → σ) (l : List ι) (init r : σ)
    (h : l.foldlM (fun s u => do let loc ← g u; pure (F s loc)) init = .ok r) :
    r = l.foldl (fun s u => F s (ext (g u))) init := by
  induction l generalizing init with
  | nil =>
    simp only [List.foldlM_nil, pure, Except.pure, Except.ok.injEq] at h
    exact h.symm
  | cons a l ih =>
    rw [List.foldlM_cons] at h
    cases hga : g a with
    | error e => rw [hga] at h; cases h
    | ok y =>
      rw [hga] at h
      simp only [bind, Except.bind, pure, Except.pure] at h
      rw [List.foldl_cons, hga, hext]
      exact ih _ h

theorem bind_ok_inv' {ι γ : Type} (x : Except Err ι) (f : ι → Except Err γ) (y : γ) (h : (x >>= f) = .ok y) :
    ∃ a, x = .ok a ∧ f a = .ok y := by
  cases x with
  | error e => cases h
  | ok a => exact ⟨a, rfl, h⟩

/-- a successful `mapM` against a total description of the successful values -/
theorem mapM_ok_eq_map {ι γ : Type} (f : ι → Except Err γ) (g : ι → γ) (l : List ι) (m : List γ)
    (h : l.mapM f = .ok m) (hg : ∀ x ∈ l, ∀ y, f x = .ok y → g x = y) : m = l.map g := by
  rw [Ds.Prov.mapM_ok_iff] at h
  apply Ds.Prov.map_ok_inj
  rw [← h, List.map_map]
  apply List.map_congr_left
  intro x hx
  have : f x ∈ m.map Except.ok := by rw [← h]; exact List.mem_map_of_mem hx
  obtain ⟨y, _, hy⟩ := List.mem_map.mp this
  rw [← hy, Function.comp_apply, hg x hx y hy.symm]

/-! ### the vocabulary at natural arguments -/

theorem eyeRow_toNat (c label : ℕ) :
    (Np.eyeRow (c : Int) (label : Int)).map Int.toNat = onehot c label := by
  unfold Np.eyeRow onehot
  rw [Np.range_up, List.map_map, List.map_map]
  apply List.map_congr_left
  intro k _
  simp only [Function.comp_apply]
  by_cases h : k = label
  · subst h; simp
  · have h' : ¬ ((k : Int) = (label : Int)) := by omega
    simp [h, h']

theorem rep_zero_toNat (c : ℕ) : (Np.rep (0 : Int) (c : Int)).map Int.toNat = List.replicate c 0 := by
  rw [Np.rep_natCast]; simp

theorem get1_labels (labels : List ℕ) (tt : ℕ) :
    Np.get1 (labels.map (fun k : ℕ => (k : Int))) (tt : Int) = ((labels.getD tt 0 : ℕ) : Int) := by
  rw [Np.get1_natCast]
  simp only [List.getD_eq_getElem?_getD, List.getElem?_map]
  cases labels[tt]? <;> rfl

theorem get1_dist (dist : List ℚ) (tt : ℕ) : Np.get1 dist (tt : Int) = dist.getD tt 0 := by
  rw [Np.get1_natCast]; rfl

theorem get1_locs {γ : Type} (locs : List (List γ)) (tt : ℕ) : Np.get1 locs (tt : Int) = locs.getD tt [] := by
  rw [Np.get1_natCast]; rfl

/-! ### the three loops against the model -/
section Main
variable (D : Dom) (c : ℕ) (p : Prov.P) (labels : List ℕ) (dist : List ℚ) (base : Compiled (AVal D))

theorem codeCond_none (tt : Int) : codeCond dist none tt = true := rfl

theorem codeCond_some (k tt : ℕ) :
    codeCond dist (some (k : Int)) (tt : Int) = decide (dist.getD k 0 ≥ dist.getD tt 0) := by
  unfold codeCond
  simp only [Option.isNone_some, Bool.false_or, Option.getD_some, get1_dist]

theorem tally_with (tt : ℕ) :
    tallyVal D (0 : Int).toNat ((Np.eyeRow (c : Int) (Np.get1 (labels.map (fun k : ℕ => (k : Int))) (tt : Int))).map Int.toNat)
        ((Np.rep (0 : Int) (c : Int)).map Int.toNat)
      = tallyVal D 0 (onehot c (labels.getD tt 0)) (List.replicate c 0) := by
  rw [get1_labels, eyeRow_toNat, rep_zero_toNat]; rfl

theorem tally_without (tt : ℕ) :
    tallyVal D (0 : Int).toNat ((Np.rep (0 : Int) (c : Int)).map Int.toNat)
        ((Np.eyeRow (c : Int) (Np.get1 (labels.map (fun k : ℕ => (k : Int))) (tt : Int))).map Int.toNat)
      = tallyVal D 0 (List.replicate c 0) (onehot c (labels.getD tt 0)) := by
  rw [get1_labels, eyeRow_toNat, rep_zero_toNat]; rfl

/-- the first inner loop builds the model's `with` / `without` diagrams of the rows within the boundary -/
theorem stage1_eq (t' : Option ℕ) :
    codeStage1 (fun (d : Diagram (AVal D)) (loc : List (ℕ × ℕ × ℕ)) (v : AVal D) (inc : Bool) => d.update loc v inc)
        (fun t w wo => tallyVal D t.toNat (w.map Int.toNat) (wo.map Int.toNat))
        base.add base.locs (p.data.length : Int) (c : Int) (labels.map (fun k : ℕ => (k : Int))) dist
        (t'.map (fun k : ℕ => (k : Int)))
      = (withDiag D c labels base (incRows p.data.length dist t'), withoutDiag D c labels base (incRows p.data.length dist t')) := by
  unfold codeStage1 withDiag withoutDiag incRows
  rw [Np.range_up, List.foldl_map]
  cases t' with
  | none =>
    refine Eq.trans (congrArg (fun F => List.foldl F (base.add, base.add) (List.range p.data.length)) ?_)
      (foldl_pair_filter (fun _ => true)
        (fun (d : Diagram (AVal D)) tt => d.update (base.locs.getD tt []) (tallyVal D 0 (onehot c (labels.getD tt 0)) (List.replicate c 0)) true)
        (fun (d : Diagram (AVal D)) tt => d.update (base.locs.getD tt []) (tallyVal D 0 (List.replicate c 0) (onehot c (labels.getD tt 0))) true)
        _ _ _)
    funext st tt
    simp only [tally_with, tally_without, get1_locs, Option.map_none, codeCond_none]
  | some k =>
    refine Eq.trans (congrArg (fun F => List.foldl F (base.add, base.add) (List.range p.data.length)) ?_)
      (foldl_pair_filter (fun tt => decide (dist.getD k 0 ≥ dist.getD tt 0))
        (fun (d : Diagram (AVal D)) tt => d.update (base.locs.getD tt []) (tallyVal D 0 (onehot c (labels.getD tt 0)) (List.replicate c 0)) true)
        (fun (d : Diagram (AVal D)) tt => d.update (base.locs.getD tt []) (tallyVal D 0 (List.replicate c 0) (onehot c (labels.getD tt 0))) true)
        _ _ _)
    funext st tt
    simp only [tally_with, tally_without, get1_locs, Option.map_some, codeCond_some]

/-- the value the code's `get_unit_location` parameter returns -/
def extLoc (e : Except Err (List (ℕ × ℕ × ℕ))) : List (ℕ × ℕ × ℕ) :=
  match e with | .ok loc => loc | .error _ => []

/-- the body of the outer loop against the model's `mk` -/
theorem codeMk_eq (t' : Option ℕ) (r : Diagram (AVal D) × Diagram (AVal D)) (h : mkPair D c p labels dist base t' = .ok r) :
    codeMk (fun (d : Diagram (AVal D)) (loc : List (ℕ × ℕ × ℕ)) (v : AVal D) (inc : Bool) => d.update loc v inc)
        (fun d u => match d.getUpdateLocation [(u.toNat, 0)] with | .ok loc => loc | .error _ => [])
        (fun t w wo => tallyVal D t.toNat (w.map Int.toNat) (wo.map Int.toNat)) (none : AVal D)
        (fun t => (rowUnits (p.data.getD t.toNat [])).map (fun u : ℕ => (u : Int)))
        base.add base.locs (p.data.length : Int) (c : Int) (labels.map (fun k : ℕ => (k : Int))) dist
        (t'.map (fun k : ℕ => (k : Int))) = r := by
  unfold codeMk
  rw [stage1_eq]
  cases t' with
  | none =>
    simp only [Option.map_none, Option.isSome_none, Bool.false_eq_true, if_false]
    simp only [mkPair, pure, Except.pure, Except.ok.injEq] at h
    exact h
  | some k =>
    simp only [Option.map_some, Option.isSome_some, if_true, Option.getD_some, Int.toNat_natCast, List.foldl_map]
    simp only [mkPair] at h
    have := foldlM_ok_inv (fun u => base.add.getUpdateLocation [(u, 0)]) extLoc (fun _ => rfl)
      (fun (ds : Diagram (AVal D) × Diagram (AVal D)) loc => (ds.1.update loc none false, ds.2.update loc none false)) _ _ _ h
    rw [this]
    rfl

end Main

/-- whenever the model's `build` succeeds, the translated constructor — run with the model's diagram methods (`update`; `get_update_location` of a single
`(unit, 0)` literal, which the model's `build` has shown to succeed for every boundary unit), on what the model's `compile` returned — fills the two
dictionaries with exactly the model's boundary diagrams, keyed by the boundary row in order, `None` last -/
theorem oracle_init_eq (D : Dom) (c : ℕ) (p : Prov.P) (labels : List ℕ) (dist : List ℚ) (b : Built D)
    (hb : build D c p labels dist = .ok b) :
    GenD.oracle_init (δ := Diagram (AVal D)) (ν := AVal D) (ℓ := List (ℕ × ℕ × ℕ)) (α := ℚ)
        (fun d loc v inc => d.update loc v inc)
        (fun d u => match d.getUpdateLocation [(u.toNat, 0)] with | .ok loc => loc | .error _ => [])
        (fun t w wo => tallyVal D t.toNat (w.map Int.toNat) (wo.map Int.toNat)) (none : AVal D)
        (fun t => (rowUnits (p.data.getD t.toNat [])).map (fun u : ℕ => (u : Int)))
        b.base.add b.base.locs (p.data.length : Int) (c : Int) (labels.map (fun k : ℕ => (k : Int))) dist
      = ((boundaryKeys p.data.length).zip b.withs, (boundaryKeys p.data.length).zip b.withouts) := by
  rw [build_eq] at hb
  cases hcomp : (compile p : Except Err (Compiled (AVal D))) with
  | error e => rw [hcomp] at hb; cases hb
  | ok base =>
    rw [hcomp] at hb
    simp only [bind, Except.bind] at hb
    cases hall : ((List.range p.data.length).map some ++ [none]).mapM (mkPair D c p labels dist base) with
    | error e => rw [hall] at hb; cases hb
    | ok all =>
      rw [hall] at hb
      simp only [pure, Except.pure, Except.ok.injEq] at hb
      subst hb
      have hmap := mapM_ok_eq_map _ _ _ _ hall (fun t' _ r hr => codeMk_eq D c p labels dist base t' r hr)
      rw [oracle_init_unfold, foldl_append_pair, Np.range_up]
      have hk : Np.chainNone ((List.range p.data.length).map (fun k : ℕ => (k : Int)))
          = ((List.range p.data.length).map some ++ [none]).map (fun t' : Option ℕ => t'.map (fun k : ℕ => (k : Int))) := by
        simp [Np.chainNone, Function.comp_def]
      have hk' : boundaryKeys p.data.length
          = ((List.range p.data.length).map some ++ [none]).map (fun t' : Option ℕ => t'.map (fun k : ℕ => (k : Int))) := by
        simp [boundaryKeys, Function.comp_def]
      rw [hk, hk']
      simp only [hmap, List.nil_append, List.map_map, List.zip_map', Function.comp_def]

/-- nothing is cut off by the `zip`s: a successful `build` returns one diagram per key -/
theorem build_lengths (D : Dom) (c : ℕ) (p : Prov.P) (labels : List ℕ) (dist : List ℚ) (b : Built D)
    (hb : build D c p labels dist = .ok b) :
    b.withs.length = (boundaryKeys p.data.length).length ∧ b.withouts.length = (boundaryKeys p.data.length).length := by
  rw [build_eq] at hb
  obtain ⟨base, _, hb⟩ := bind_ok_inv' _ _ _ hb
  obtain ⟨all, hall, hb⟩ := bind_ok_inv' _ _ _ hb
  simp only [pure, Except.pure, Except.ok.injEq] at hb
  subst hb
  have := (Ds.Oracle.mapM_ok _ _ _ hall).1
  simp only [List.length_map, boundaryKeys, List.length_append, List.length_range, List.length_singleton] at this ⊢
  exact ⟨this, this⟩

/-! ### the hypothesis is satisfiable: a map provenance with two units, two rows, one unit per row -/

def pEx : Prov.P := { data := [[[(0, 1)]], [[(1, 1)]]], nDisj := 1, nConj := 1, nUnits := 2 }

example : ∃ b : Built (Dom.tally 1 1 2), build (Dom.tally 1 1 2) 2 pEx [0, 1] [1, 2] = .ok b ∧
    GenD.oracle_init (δ := Diagram (AVal (Dom.tally 1 1 2))) (ν := AVal (Dom.tally 1 1 2)) (ℓ := List (ℕ × ℕ × ℕ)) (α := ℚ)
        (fun d loc v inc => d.update loc v inc)
        (fun d u => match d.getUpdateLocation [(u.toNat, 0)] with | .ok loc => loc | .error _ => [])
        (fun t w wo => tallyVal (Dom.tally 1 1 2) t.toNat (w.map Int.toNat) (wo.map Int.toNat)) (none : AVal (Dom.tally 1 1 2))
        (fun t => (rowUnits (pEx.data.getD t.toNat [])).map (fun u : ℕ => (u : Int)))
        b.base.add b.base.locs (2 : Int) (2 : Int) [0, 1] [1, 2]
      = ([some 0, some 1, none].zip b.withs, [some 0, some 1, none].zip b.withouts) ∧ b.withs.length = 3 ∧ b.withouts.length = 3 := by
  obtain ⟨b, hb, _⟩ := build_ok (D := Dom.tally 1 1 2) 2 pEx [0, 1] [1, 2] _
    (compile_chain pEx (by decide) (by decide)) (by decide) (List.Perm.refl _)
  exact ⟨b, hb, oracle_init_eq _ 2 pEx [0, 1] [1, 2] b hb, build_lengths _ 2 pEx [0, 1] [1, 2] b hb⟩

end DsProofs.TieD

#print axioms DsProofs.TieD.oracle_init_eq
