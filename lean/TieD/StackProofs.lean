import TieD.StackLemmas
/-!
# TieD.StackProofs — the translated `ADD.stack` is the model's `stack`, array for array
-/
open Ds Ds.Dd Ds.GenCall Ds.GenOps

namespace DsProofs.TieD
variable {V : Type} [AddCommMonoid V]

/-- whenever the model's `stack` succeeds on reachable elements with 2 candidates and equally many units (the side conditions of `Reach.stack`), the translated `ADD.stack`
succeeds and returns exactly the fields of the model's result -/
theorem stack_eq (factors : List ℕ) (els : List (Diagram V)) (d : Diagram V) (n : ℕ) (hr : ∀ e ∈ els, Reach e)
    (hside : ∀ e ∈ els, e.C = 2 ∧ e.units.length = n) (h : stack factors els = .ok d) :
    letI : Inhabited V := ⟨0⟩
    GenD.add_stack (0 : V) (unitsI factors) (els.map fld) (2 : Int) = .ok (fld d) := by
  let _ : Inhabited V := ⟨0⟩
  show GenD.add_stack (0 : V) (unitsI factors) (els.map fld) (2 : Int) = .ok (fld d)
  cases els with
  | nil => cases h
  | cons e0 rest =>
    rw [Ds.Dd.stack_eq] at h
    by_cases h1 : e0.C ≠ 2
    · rw [if_pos h1] at h; cases h
    rw [if_neg h1] at h
    by_cases h2 : (e0 :: rest).length ≠ 2 ^ factors.length
    · rw [if_pos h2] at h; cases h
    rw [if_neg h2] at h
    by_cases h3 : factors.length = 0
    · rw [if_pos h3] at h; cases h
    rw [if_neg h3] at h
    simp only [Except.ok.injEq] at h
    subst h
    have hlen : (e0 :: rest).length = 2 ^ factors.length := not_not.mp h2
    have hhd : (((e0 :: rest).map fld).headD default).1 = unitsI e0.units := rfl
    generalize hels : e0 :: rest = els at *
    generalize hk0 : factors.length = k at *
    have hk : 1 ≤ k := by omega
    have he0 : e0 ∈ els := by rw [← hels]; simp
    have hne : els ≠ [] := by rw [← hels]; simp
    have hsh : ∀ e ∈ els, Shape e := fun e he => (reach_shape e (hr e he)).1
    have hg : ∀ e ∈ els, Good e := fun e he => reach_good (hr e he)
    have hC : ∀ e ∈ els, e.C = 2 := fun e he => (hside e he).1
    have hdep : ∀ e ∈ els, e.levels.length = n := fun e he => by rw [(hsh e he).1]; exact (hside e he).2
    have hn : e0.levels.length = n := hdep e0 he0
    have hun : e0.units.length = n := (hside e0 he0).2
    set W := (els.map (·.diameter)).sum with hWdef
    have hW : 2 ^ k ≤ W := by
      rw [← hlen, ← List.length_map (f := fun x : Diagram V => x.diameter)]
      apply List.length_le_sum_of_one_le
      intro i hi
      simp only [List.mem_map] at hi
      obtain ⟨e, he, rfl⟩ := hi
      exact (hg e he).pos
    have hbl : ∀ i, i < n → (bodyLevel els i).length = W := fun i hi => (bodyLevel_ok els n i hi hg hC hdep).1
    -- the scalars
    have hF : Np.len1 (unitsI factors) = (k : Int) := by simp [Np.len1, unitsI, hk0]
    have hF1 : Np.len1 (unitsI factors) - (1 : Int) = ((k - 1 : ℕ) : Int) := by rw [hF]; omega
    have hE : Np.len1 (els.map fld) = ((2 ^ k : ℕ) : Int) := by simp [Np.len1, hlen]
    have hU : Np.len1 (unitsI factors ++ ((els.map fld).headD default).1) = ((k + n : ℕ) : Int) := by
      rw [hhd]; simp [Np.len1, unitsI, hk0, hun]
    have hD : Np.sumI ((els.map fld).map (fun x => x.2.2.2.2.2)) = (W : Int) := by
      have : (els.map fld).map (fun x => x.2.2.2.2.2) = (els.map (·.diameter)).map (fun k : ℕ => (k : Int)) := by
        rw [List.map_map, List.map_map]; rfl
      rw [this, sumI_cast]
    have hf2 : Np.full2L ((k + n : ℕ) : Int) (W : Int) (0 : Int) = List.replicate (k + n) (List.replicate W (0 : Int)) := by
      unfold Np.full2L; rw [Int.toNat_natCast, Int.toNat_natCast]
    have hf3 : Np.full3 ((k + n : ℕ) : Int) (W : Int) (2 : Int) (0 : Int) = List.replicate (k + n) (List.replicate W [(0 : Int), 0]) := by
      unfold Np.full3; rw [Int.toNat_natCast, Int.toNat_natCast]; rfl
    have hf3' : Np.full3 ((k + n : ℕ) : Int) (W : Int) (2 : Int) (0 : V)
        = List.replicate k (List.replicate W [(0 : V), 0]) ++ List.replicate n (List.replicate W [(0 : V), 0]) := by
      unfold Np.full3; rw [Int.toNat_natCast, Int.toNat_natCast, List.replicate_add]; rfl
    have hsub : k + n - (k - 1) = n + 1 := by omega
    have hsub' : k + n - k = n := by omega
    set R : ℕ → ℕ := fun m => (rootsOf els).getD m 0 with hR
    set last : ℕ → ℕ → ℕ := fun j c => R (2 * j + c) with hlast
    refine (add_stack_steps (0 : V) (unitsI factors) (els.map fld)
      ((List.range (k - 1)).map (fun i => flags (hdrLevel (V := V) k W last i)) ++ List.replicate (k + n - (k - 1)) (List.replicate W (0 : Int)))
      ((List.range k).map (fun i => flags (hdrLevel (V := V) k W last i)) ++ List.replicate (k + n - k) (List.replicate W (0 : Int)))
      ((List.range k).map (fun i => flags (hdrLevel (V := V) k W last i)) ++ (List.range n).map (fun i => flags (bodyLevel els i)))
      ((List.range (k - 1)).map (fun i => crow (hdrLevel (V := V) k W last i)) ++ List.replicate (k + n - (k - 1)) (List.replicate W [(0 : Int), 0]))
      ((List.range k).map (fun i => crow (hdrLevel (V := V) k W last i)) ++ List.replicate (k + n - k) (List.replicate W [(0 : Int), 0]))
      ((List.range k).map (fun i => crow (hdrLevel (V := V) k W last i)) ++ (List.range n).map (fun i => crow (bodyLevel els i)))
      (List.replicate k (List.replicate W [(0 : V), 0]) ++ (List.range n).map (fun i => arow (bodyLevel els i)))
      ((2 ^ (k - 1) : ℕ) : Int) ?_ ?_ ?_ ?_ ?_ ?_ ?_ ?_).trans ?_
    · -- the length test
      rw [hE, hF, ipow_two_cast]; simp
    · -- the header loop
      rw [hF1, hU, hD, Np.range_up, hf2, hf3]
      exact hdr_loop k W (k + n) last hW (k - 1) (by omega) (by omega)
    · -- the slice bound
      rw [hF1]
      unfold Np.powBound
      rw [if_neg (by omega)]
      simp
    · -- the last header level: nodes
      rw [hF1]
      exact last_nodes k W (k + n) last hk hW (by omega)
    · -- the last header level: children
      rw [hF1, hE, offsets_eq els hne, roots_eq]
      exact last_level k W (k + n) R _ hk hW (by omega) (fun m _ => roots_get els m)
    · -- nodes of the body
      rw [hF, hsub']
      rw [concat_ok (fun _ => true) _ (List.replicate n (List.replicate W (0 : Int))) _ k (by simp) (by simpa using hne)]
      · simp only [List.length_replicate, body_nodes_row]
      · intro b hb
        simp only [List.mem_map] at hb
        obtain ⟨x, ⟨e, he, rfl⟩, rfl⟩ := hb
        simp [fld, nodesOf, hdep e he]
      · intros; rfl
      · intro i hi
        simp only [List.length_replicate] at hi
        have := congrArg List.length (body_nodes_row els i)
        rw [List.length_flatten, List.map_map] at this
        simp only [Function.comp_def] at this
        rw [this]
        simp [flags, hbl i hi, List.getD_eq_getElem?_getD, hi]
    · -- children of the body
      rw [hF, hsub', offsets_eq els hne, child_blocks]
      rw [concat_ok _ _ (List.replicate n (List.replicate W [(0 : Int), 0])) _ k (by simp)
        (by
          intro hh
          have := congrArg List.length hh
          simp [length_offsetsOf] at this
          exact hne this)]
      · simp only [List.length_replicate, body_child_row]
      · intro b hb
        simp only [List.mem_map] at hb
        obtain ⟨eo, heo, rfl⟩ := hb
        simp [Np.addAll3, childOf, hdep eo.1 (List.of_mem_zip heo).1]
      · intro b hb r hr x hx
        simp only [List.mem_map] at hb
        obtain ⟨eo, heo, rfl⟩ := hb
        have he := (List.of_mem_zip heo).1
        simp only [Np.addAll3, childOf, List.map_map, List.mem_map, Function.comp] at hr
        obtain ⟨lv, hlv, rfl⟩ := hr
        simp only [List.mem_map] at hx
        obtain ⟨nd, hnd, rfl⟩ := hx
        have := (((hsh eo.1 he).2 lv hlv).2 nd hnd).1
        simp [this, hC eo.1 he]
      · intro i hi
        simp only [List.length_replicate] at hi
        have := congrArg List.length (body_child_row els i)
        rw [List.length_flatten, List.map_map] at this
        simp only [Function.comp_def] at this
        rw [this]
        simp [crow, hbl i hi, List.getD_eq_getElem?_getD, hi]
    · -- edge values of the body
      rw [hF, hU, hD, hf3']
      rw [concat_ok _ _ (List.replicate n (List.replicate W [(0 : V), 0])) _ k (by simp) (by simpa using hne)]
      · simp only [List.length_replicate, body_adder_row]
      · intro b hb
        simp only [List.mem_map] at hb
        obtain ⟨x, ⟨e, he, rfl⟩, rfl⟩ := hb
        simp [fld, adderOf, hdep e he]
      · intro b hb r hr x hx
        simp only [List.mem_map] at hb
        obtain ⟨y, ⟨e, he, rfl⟩, rfl⟩ := hb
        simp only [fld, adderOf, List.mem_map] at hr
        obtain ⟨lv, hlv, rfl⟩ := hr
        simp only [List.mem_map] at hx
        obtain ⟨nd, hnd, rfl⟩ := hx
        have := (((hsh e he).2 lv hlv).2 nd hnd).2
        simp [this, hC e he]
      · intro i hi
        simp only [List.length_replicate] at hi
        have := congrArg List.length (body_adder_row els i)
        rw [List.length_flatten, List.map_map] at this
        simp only [Function.comp_def] at this
        rw [this]
        simp [arow, hbl i hi, List.getD_eq_getElem?_getD, hi]
    · -- the result
      congr 1
      rw [hhd, hD]
      unfold fld
      simp only [nodesOf_append, childOf_append, adderOf_append, nodesOf_map, childOf_map, adderOf_map, hn, arow_hdr]
      refine Prod.ext ?_ (Prod.ext ?_ (Prod.ext ?_ (Prod.ext ?_ (Prod.ext ?_ ?_))))
      · simp [unitsI]
      · simp
      · rfl
      · rfl
      · simp
      · rfl

end DsProofs.TieD

namespace DsProofs.TieD.StackExample
/-- translated and model results agree (as a Boolean test) -/
def agree (factors : List Nat) (els : List (Diagram Int)) : Bool :=
  match GenD.add_stack (0 : Int) (unitsI factors) (els.map fld) (2 : Int), stack factors els with
  | .ok x, .ok d => x == fld d
  | _, _ => false
/-- non-vacuity: concrete stacks (one factor over two chains; three factors over eight chains) on which the model succeeds and the translation returns its fields -/
example : agree [5] [chain [1, 2] 2, chain [1, 2] 2] = true := by decide +kernel
example : agree [5, 6, 7] (List.replicate 8 (chain [1, 2] 2)) = true := by decide +kernel
end DsProofs.TieD.StackExample

#print axioms DsProofs.TieD.stack_eq
