import Ds.Np
import Tie.NpProofs
import Mathlib.Data.List.Basic
import Mathlib.Data.List.Range
/-!
# TieD.ListFold — folds of point updates over `range n` as `modify` / `mapIdx`; `Np.set3` at natural indices
Helper lemmas only (generic lists, no diagram vocabulary).
-/
namespace DsProofs.TieD
variable {α β : Type}

/-- a fold whose state is a pair updated componentwise is the pair of the folds -/
theorem foldl_pair {ι : Type} (f : α → ι → α) (g : β → ι → β) (l : List ι) (a : α) (b : β) :
    l.foldl (fun (st : α × β) x => (f st.1 x, g st.2 x)) (a, b) = (l.foldl f a, l.foldl g b) := by
  induction l generalizing a b with
  | nil => rfl
  | cons x t ih => simp only [List.foldl_cons, ih]

/-- the same for two nested loops with a guard on the outer index -/
theorem foldl_pair_cond {ι κ : Type} (cond : ι → Bool) (f : α → ι → κ → α) (g : β → ι → κ → β) (l : List ι) (m : List κ) (a : α) (b : β) :
    l.foldl (fun (st : α × β) i => if cond i then m.foldl (fun (st : α × β) c => (f st.1 i c, g st.2 i c)) st else st) (a, b)
      = (l.foldl (fun a i => if cond i then m.foldl (fun a c => f a i c) a else a) a,
         l.foldl (fun b i => if cond i then m.foldl (fun b c => g b i c) b else b) b) := by
  induction l generalizing a b with
  | nil => rfl
  | cons x t ih =>
    simp only [List.foldl_cons]
    cases hx : cond x
    · simp only [Bool.false_eq_true, if_false]; exact ih a b
    · simp only [if_true]
      rw [foldl_pair (fun a c => f a x c) (fun b c => g b x c) m a b]
      exact ih _ _

/-- a fold of `modify p` steps is one `modify p` of the fold -/
theorem foldl_modify_lens {ι : Type} (p : ℕ) (F : ι → α → α) (l : List ι) (A : List α) :
    l.foldl (fun A x => A.modify p (F x)) A = A.modify p (fun a => l.foldl (fun a x => F x a) a) := by
  induction l generalizing A with
  | nil => simp only [List.foldl_nil]; exact (List.modify_id p A).symm
  | cons x t ih =>
    simp only [List.foldl_cons, ih, List.modify_modify_eq]
    rfl

/-- updating position `i` with `G i` for every `i < n` -/
theorem foldl_modify_range (G : ℕ → α → α) (n : ℕ) (L : List α) :
    (List.range n).foldl (fun L i => L.modify i (G i)) L = L.mapIdx (fun i r => if i < n then G i r else r) := by
  induction n with
  | zero =>
    apply List.ext_getElem?
    intro j
    simp only [List.range_zero, List.foldl_nil, List.getElem?_mapIdx, Nat.not_lt_zero, if_false]
    cases L[j]? <;> rfl
  | succ n ih =>
    rw [List.range_succ, List.foldl_append, ih]
    simp only [List.foldl_cons, List.foldl_nil]
    apply List.ext_getElem?
    intro j
    rw [List.getElem?_modify, List.getElem?_mapIdx, List.getElem?_mapIdx]
    cases L[j]? with
    | none => rfl
    | some r =>
      simp only [Option.map_some, Option.map_eq_map]
      by_cases h1 : n = j
      · subst h1; simp
      · by_cases h2 : j < n
        · have : j < n + 1 := by omega
          simp [h1, h2, this]
        · have : ¬ j < n + 1 := by omega
          simp [h1, h2, this]

theorem foldl_modify_range_full (G : ℕ → α → α) (n : ℕ) (L : List α) (h : L.length ≤ n) :
    (List.range n).foldl (fun L i => L.modify i (G i)) L = L.mapIdx G := by
  rw [foldl_modify_range]
  apply List.ext_getElem (by simp)
  intro i h1 h2
  simp only [List.length_mapIdx] at h1
  simp only [List.getElem_mapIdx]
  rw [if_pos (by omega)]

/-- `(if b then A.modify … else A)` as one `modify` -/
theorem ite_modify (b : Prop) [Decidable b] (p : ℕ) (f : α → α) (A : List α) :
    (if b then A.modify p f else A) = A.modify p (fun a => if b then f a else a) := by
  by_cases h : b
  · simp only [h, if_true]
  · simp only [h, if_false]; exact (List.modify_id p A).symm

/-- the three-dimensional point update at natural indices -/
def modify3 (A : List (List (List β))) (p i c : ℕ) (h : β → β) : List (List (List β)) :=
  A.modify p (fun L => L.modify i (fun r => r.modify c h))

theorem set1_get1_modify [Inhabited β] (r : List β) (c : ℕ) (h : β → β) :
    Np.set1 r (c : Int) (h (Np.get1 r (c : Int))) = r.modify c h := by
  rw [Np.set1_natCast, Np.get1_natCast, List.modify_eq_set, List.getD_eq_getElem?_getD]

theorem set3_modify3 [Inhabited β] (A : List (List (List β))) (p i c : ℕ) (h : β → β) :
    Np.set3 A (p : Int) (i : Int) (c : Int) (h (Np.get3 A (p : Int) (i : Int) (c : Int))) = modify3 A p i c h := by
  have hd : (default : List (List β)) = [] := rfl
  have hd' : (default : List β) = [] := rfl
  unfold Np.set3 Np.get3 modify3 Np.setL2
  simp only [Np.pyIdx_natCast, Np.get1_natCast, Np.set1_natCast, List.getD_eq_getElem?_getD, hd, hd']
  by_cases hp : p < A.length
  · rw [if_pos hp]
    simp only []
    rw [List.modify_eq_set (α := List (List β))]
    congr 1
    rw [hd]
    by_cases hi : i < (A[p]?.getD []).length
    · rw [if_pos hi]
      simp only []
      rw [List.modify_eq_set (α := List β)]
      congr 1
      rw [hd', List.modify_eq_set]
    · rw [if_neg hi]
      simp only []
      rw [List.modify_eq_self (by omega)]
  · rw [if_neg hp]
    simp only []
    rw [List.modify_eq_self (by omega)]

theorem set3_const_modify3 (A : List (List (List β))) (p i c : ℕ) (x : β) :
    Np.set3 A (p : Int) (i : Int) (c : Int) x = modify3 A p i c (fun _ => x) := by
  let _ : Inhabited β := ⟨x⟩
  exact set3_modify3 A p i c (fun _ => x)

/-- one loop over the entries `c < C` of row `(p, i)` -/
theorem foldl_modify3 (A : List (List (List β))) (p i C : ℕ) (g : ℕ → β → β) :
    (List.range C).foldl (fun A c => modify3 A p i c (g c)) A
      = A.modify p (fun L => L.modify i (fun r => r.mapIdx (fun c x => if c < C then g c x else x))) := by
  unfold modify3
  refine (foldl_modify_lens p (fun (c : ℕ) (L : List (List β)) => L.modify i (fun r => r.modify c (g c))) _ _).trans ?_
  congr 1; funext L
  refine (foldl_modify_lens i (fun (c : ℕ) (r : List β) => r.modify c (g c)) _ _).trans ?_
  congr 1; funext r
  exact foldl_modify_range g C r

/-- a `modify` invisible through `g` -/
theorem map_modify_of_eq {γ : Type} (g : α → γ) (F : α → α) (hF : ∀ x, g (F x) = g x) (l : List α) (r : ℕ) :
    (l.modify r F).map g = l.map g := by
  apply List.ext_getElem?
  intro j
  rw [List.getElem?_map, List.getElem?_map, List.getElem?_modify]
  cases l[j]? with
  | none => rfl
  | some x =>
    simp only [Option.map_eq_map, Option.map_some]
    split
    · rw [hF]
    · rfl

/-- the two nested loops of `restrict` on one array: for every `i < n` with `cond i`, every entry `c < C` of row `(p, i)` is updated by `g i c` -/
theorem fold3 (A : List (List (List β))) (p n C : ℕ) (cond : ℕ → Prop) [DecidablePred cond] (g : ℕ → ℕ → β → β) :
    (List.range n).foldl (fun A i => if cond i then (List.range C).foldl (fun A c => modify3 A p i c (g i c)) A else A) A
      = A.modify p (fun L => L.mapIdx (fun i r => if i < n then (if cond i then r.mapIdx (fun c x => if c < C then g i c x else x) else r) else r)) := by
  have inner : ∀ (A : List (List (List β))) (i : ℕ),
      (List.range C).foldl (fun A c => modify3 A p i c (g i c)) A
        = A.modify p (fun L => L.modify i (fun r => r.mapIdx (fun c x => if c < C then g i c x else x))) := by
    intro A i
    unfold modify3
    refine (foldl_modify_lens p (fun (c : ℕ) (L : List (List β)) => L.modify i (fun r => r.modify c (g i c))) _ _).trans ?_
    congr 1; funext L
    refine (foldl_modify_lens i (fun (c : ℕ) (r : List β) => r.modify c (g i c)) _ _).trans ?_
    congr 1; funext r
    exact foldl_modify_range (g i) C r
  simp only [inner, ite_modify]
  refine (foldl_modify_lens p (fun (i : ℕ) (L : List (List β)) => L.modify i (fun r => if cond i then r.mapIdx (fun c x => if c < C then g i c x else x) else r)) _ _).trans ?_
  congr 1; funext L
  exact foldl_modify_range (fun i r => if cond i then r.mapIdx (fun c x => if c < C then g i c x else x) else r) n L

end DsProofs.TieD
