import TieD.Defs
import TieD.ListFold
import DsProofs.AddProofs
/-!
# TieD.UpdateProofs — the translated `ADD.update` / `ADD.construct_chain` are the model's `Diagram.update` / `chain`
-/
set_option linter.unusedSectionVars false
open Ds Ds.Dd Ds.GenCall Ds.GenOps

namespace DsProofs.TieD

/-! ### generic helpers: reading a 3-D nested list at natural indices, before / after a point update -/
section generic
variable {β : Type}

/-- the entry `(p, i, c)` of a nested list, if it exists -/
def at3 (A : List (List (List β))) (p i c : ℕ) : Option β := ((A[p]?.getD [])[i]?.getD [])[c]?

theorem get3_eq_at3 [Inhabited β] (A : List (List (List β))) (p i c : ℕ) :
    Np.get3 A (p : Int) (i : Int) (c : Int) = (at3 A p i c).getD default := by
  have hd : (default : List (List β)) = [] := rfl
  have hd' : (default : List β) = [] := rfl
  unfold Np.get3 at3
  simp only [Np.get1_natCast, List.getD_eq_getElem?_getD, hd, hd']

/-- a point update is invisible at every other triple (in range or not) -/
theorem at3_modify3_ne (A : List (List (List β))) (p i c p' i' c' : ℕ) (h : β → β) (hne : (p, i, c) ≠ (p', i', c')) :
    at3 (modify3 A p i c h) p' i' c' = at3 A p' i' c' := by
  unfold at3 modify3
  rw [List.getElem?_modify]
  cases hA : A[p']? with
  | none => rfl
  | some L =>
    simp only [Option.map_eq_map, Option.map_some, Option.getD_some]
    by_cases hp : p = p'
    · rw [if_pos hp, List.getElem?_modify]
      cases hL : L[i']? with
      | none => rfl
      | some r =>
        simp only [Option.map_eq_map, Option.map_some, Option.getD_some]
        by_cases hi : i = i'
        · rw [if_pos hi, List.getElem?_modify]
          have hc : c ≠ c' := by
            intro hc; exact hne (by rw [hp, hi, hc])
          cases r[c']? with
          | none => rfl
          | some x => simp only [Option.map_eq_map, Option.map_some, if_neg hc]
        · rw [if_neg hi]
    · rw [if_neg hp]

/-- folding point updates at triples different from `e` leaves the entry `e` alone -/
theorem at3_foldl_modify3 (A : List (List (List β))) (t : List (ℕ × ℕ × ℕ)) (e : ℕ × ℕ × ℕ) (h : (ℕ × ℕ × ℕ) → β → β) (he : e ∉ t) :
    at3 (t.foldl (fun acc x => modify3 acc x.1 x.2.1 x.2.2 (h x)) A) e.1 e.2.1 e.2.2 = at3 A e.1 e.2.1 e.2.2 := by
  induction t generalizing A with
  | nil => rfl
  | cons x t ih =>
    rw [List.foldl_cons, ih _ (fun hm => he (List.mem_cons_of_mem _ hm))]
    apply at3_modify3_ne
    intro hx
    apply he
    have : x = e := hx
    rw [this]; exact List.mem_cons_self

/-- `a[loc] += v` (every listed entry becomes ORIGINAL entry `+ v`) on a list of distinct natural triples: a fold of in-place increments -/
theorem fancyAdd3_nodup [Inhabited β] (vadd : β → β → β) (a : List (List (List β))) (loc : List (ℕ × ℕ × ℕ)) (v : β) (hnd : loc.Nodup) :
    Np.fancyAdd3 vadd a (loc.map (fun e => ((e.1 : Int), (e.2.1 : Int), (e.2.2 : Int)))) v
      = loc.foldl (fun acc e => modify3 acc e.1 e.2.1 e.2.2 (fun x => vadd x v)) a := by
  unfold Np.fancyAdd3
  rw [List.foldl_map]
  induction loc using List.reverseRecOn with
  | nil => rfl
  | append_singleton t e ih =>
    have hnd' := List.nodup_append.mp hnd
    have het : e ∉ t := fun hm => hnd'.2.2 e hm e (List.mem_singleton_self e) rfl
    rw [List.foldl_append, List.foldl_append, ih hnd'.1]
    simp only [List.foldl_cons, List.foldl_nil]
    rw [← set3_modify3 _ e.1 e.2.1 e.2.2 (fun x => vadd x v)]
    congr 2
    rw [get3_eq_at3, get3_eq_at3, at3_foldl_modify3 a t e (fun _ x => vadd x v) het]

/-- `a[loc] = v` on natural triples: a fold of in-place assignments (repetitions are harmless) -/
theorem fancySet3_nat (a : List (List (List β))) (loc : List (ℕ × ℕ × ℕ)) (v : β) :
    Np.fancySet3 a (loc.map (fun e => ((e.1 : Int), (e.2.1 : Int), (e.2.2 : Int)))) v
      = loc.foldl (fun acc e => modify3 acc e.1 e.2.1 e.2.2 (fun _ => v)) a := by
  unfold Np.fancySet3
  rw [List.foldl_map]
  simp only [set3_const_modify3]

end generic

variable {V : Type} [Add V] [Zero V]

omit [Add V] [Zero V] in
/-- the `adder` array after one point update of a node's edge values -/
theorem adderOf_modify (L : List (Level V)) (p i c : ℕ) (h : V → V) :
    adderOf (L.modify p (fun lv => lv.modify i (fun nd => { nd with adder := nd.adder.modify c h })))
      = modify3 (adderOf L) p i c h := by
  unfold adderOf modify3
  apply List.ext_getElem?
  intro p'
  rw [List.getElem?_map, List.getElem?_modify, List.getElem?_modify, List.getElem?_map]
  cases L[p']? with
  | none => rfl
  | some lv =>
    simp only [Option.map_eq_map, Option.map_some]
    by_cases hp : p = p'
    · simp only [if_pos hp]
      congr 1
      apply List.ext_getElem?
      intro i'
      rw [List.getElem?_map, List.getElem?_modify, List.getElem?_modify, List.getElem?_map]
      cases lv[i']? with
      | none => rfl
      | some nd =>
        simp only [Option.map_eq_map, Option.map_some]
        by_cases hi : i = i'
        · simp only [if_pos hi]
        · simp only [if_neg hi]
    · simp only [if_neg hp]

/-- the `adder` array of the model's `update`: the fold of point updates -/
theorem adderOf_update (d : Diagram V) (loc : List (ℕ × ℕ × ℕ)) (v : V) (inc : Bool) :
    adderOf (d.update loc v inc).levels
      = loc.foldl (fun acc e => modify3 acc e.1 e.2.1 e.2.2 (fun old => if inc then old + v else v)) (adderOf d.levels) := by
  unfold Diagram.update
  simp only []
  generalize d.levels = L
  induction loc generalizing L with
  | nil => rfl
  | cons e t ih =>
    rw [List.foldl_cons, List.foldl_cons, ih, adderOf_modify]

/-- `update(location, avalue, increment)` on a location list without repetitions (what `get_update_location` and `compile` produce: `LocSpec`): the model's `update` -/
theorem update_eq (d : Diagram V) (loc : List (ℕ × ℕ × ℕ)) (v : V) (inc : Bool) (hnd : loc.Nodup) :
    letI : Inhabited V := ⟨0⟩
    GenD.add_update (· + ·) (adderOf d.levels) (loc.map (fun e => ((e.1 : Int), (e.2.1 : Int), (e.2.2 : Int)))) v inc
      = adderOf (d.update loc v inc).levels := by
  let _ : Inhabited V := ⟨0⟩
  show GenD.add_update (· + ·) (adderOf d.levels) (loc.map (fun e => ((e.1 : Int), (e.2.1 : Int), (e.2.2 : Int)))) v inc
      = adderOf (d.update loc v inc).levels
  rw [adderOf_update]
  unfold GenD.add_update
  cases inc with
  | true =>
    simp only [if_true]
    exact fancyAdd3_nodup (· + ·) (adderOf d.levels) loc v hnd
  | false =>
    simp only [Bool.false_eq_true, if_false]
    exact fancySet3_nat (adderOf d.levels) loc v

/-- without increment the hypothesis `Nodup` is not needed -/
theorem update_eq_set (d : Diagram V) (loc : List (ℕ × ℕ × ℕ)) (v : V) :
    letI : Inhabited V := ⟨0⟩
    GenD.add_update (· + ·) (adderOf d.levels) (loc.map (fun e => ((e.1 : Int), (e.2.1 : Int), (e.2.2 : Int)))) v false
      = adderOf (d.update loc v false).levels := by
  let _ : Inhabited V := ⟨0⟩
  show GenD.add_update (· + ·) (adderOf d.levels) (loc.map (fun e => ((e.1 : Int), (e.2.1 : Int), (e.2.2 : Int)))) v false
      = adderOf (d.update loc v false).levels
  rw [adderOf_update]
  unfold GenD.add_update
  simp only [Bool.false_eq_true, if_false]
  exact fancySet3_nat (adderOf d.levels) loc v

/-- `construct_chain(units, num_candidates)`: the model's `chain` -/
theorem chain_eq (units : List ℕ) (C : ℕ) :
    GenD.construct_chain (0 : V) (unitsI units) (C : Int)
      = (unitsI (chain (V := V) units C).units, ((chain (V := V) units C).root : Int), nodesOf (chain (V := V) units C).levels, childOf (chain (V := V) units C).levels,
         adderOf (chain (V := V) units C).levels, ((chain (V := V) units C).diameter : Int)) := by
  have hlen : (Np.len1 (unitsI units)).toNat = units.length := by
    simp only [Np.len1, unitsI, List.length_map, Int.toNat_natCast]
  have h1 : ((1 : Int)).toNat = 1 := rfl
  unfold GenD.construct_chain chain
  simp only [Np.full2L, Np.full3, hlen, h1, Int.toNat_natCast, nodesOf, childOf, adderOf, liveZero, List.map_map]
  refine Prod.ext rfl (Prod.ext rfl (Prod.ext ?_ (Prod.ext ?_ (Prod.ext ?_ rfl))))
  · simp only [Function.comp_def, List.map_cons, List.map_nil, if_true, List.map_const', List.replicate_one]
  · simp only [Function.comp_def, List.map_cons, List.map_nil, List.map_replicate, Nat.cast_zero, List.map_const', List.replicate_one]
  · simp only [Function.comp_def, List.map_cons, List.map_nil, List.map_const', List.replicate_one]

/-! ### non-vacuity, and why `Nodup` is there -/

/-- a one-level, one-node ℕ diagram with two edge values -/
def exU : Diagram ℕ := { units := [0], C := 2, diameter := 1, root := 0, levels := [[⟨true, [0, 0], [5, 7]⟩]] }

/-- the generated code on a concrete array: increment two distinct entries, one location out of range (a no-op) -/
example :
    GenD.add_update (· + ·) ([[[5, 7]]] : List (List (List ℕ))) [((0 : Int), (0 : Int), (1 : Int)), (0, 0, 0), (3, 0, 0), (0, 2, 0), (0, 0, 9)] 10 true
      = [[[15, 17]]] := by decide

example :
    GenD.add_update (· + ·) ([[[5, 7]]] : List (List (List ℕ))) [((0 : Int), (0 : Int), (1 : Int)), (3, 0, 0)] 10 false
      = [[[5, 10]]] := by decide

/-- the same through the model, out-of-range triples included -/
example : adderOf (exU.update [(0, 0, 1), (0, 0, 0), (3, 0, 0), (0, 2, 0), (0, 0, 9)] 10 true).levels = [[[15, 17]]] := by decide

/-- a repeated triple: the code (NumPy reads all entries before writing) increments once, the model twice — `update_eq` needs `loc.Nodup` -/
example :
    GenD.add_update (· + ·) (adderOf exU.levels) ([(0, 0, 1), (0, 0, 1)].map (fun e : ℕ × ℕ × ℕ => ((e.1 : Int), (e.2.1 : Int), (e.2.2 : Int)))) 10 true
        = [[[5, 17]]]
      ∧ adderOf (exU.update [(0, 0, 1), (0, 0, 1)] 10 true).levels = [[[5, 27]]] := by decide

end DsProofs.TieD

#print axioms DsProofs.TieD.update_eq
#print axioms DsProofs.TieD.chain_eq
