import TieD.Defs
import TieD.ListFold
import DsProofs.AddProofs
/-!
# TieD.RestrictProofs — the translated `ADD.restrict` is the model's `Diagram.restrict`, array for array
-/
open Ds Ds.Dd Ds.GenCall Ds.GenOps

namespace DsProofs.TieD
variable {V : Type} [Add V] [Zero V]

/-! ### small facts about the array views -/

theorem map_eraseIdx_ {α β : Type} (f : α → β) (l : List α) (k : ℕ) : (l.eraseIdx k).map f = (l.map f).eraseIdx k := by
  induction l generalizing k with
  | nil => rfl
  | cons a t ih => cases k with
    | zero => rfl
    | succ k => simp only [List.eraseIdx_cons_succ, List.map_cons, ih]

theorem indexOf_unitsI (units : List ℕ) (u : ℕ) : Np.indexOf (unitsI units) (u : Int) = ((units.idxOf u : ℕ) : Int) := by
  unfold Np.indexOf unitsI
  congr 1
  induction units with
  | nil => rfl
  | cons a t ih =>
    simp only [List.map_cons, List.idxOf_cons, ih]
    have e : ((a : Int) == (u : Int)) = (a == u) := by
      rw [Bool.eq_iff_iff]; simp only [beq_iff_eq]; exact Int.ofNat_inj
    rw [e]

omit [Add V] [Zero V] in
theorem getL2_nodes (levels : List (Level V)) (i j : ℕ) :
    Np.getL2 (nodesOf levels) (i : Int) (j : Int) = if (nodeAt (levels.getD i []) j).active then 1 else 0 := by
  unfold Np.getL2 nodesOf nodeAt
  simp only [Np.get1_natCast, List.getD_eq_getElem?_getD, List.getElem?_map]
  cases levels[i]? with
  | none => rfl
  | some lv =>
    simp only [Option.map_some, Option.getD_some, List.getElem?_map]
    have key : ∀ x : Option (Node V), (Option.map (fun nd : Node V => if nd.active = true then (1 : Int) else 0) x).getD default
        = if (x.getD ⟨false, [], []⟩).active = true then 1 else 0 := by
      intro x; cases x <;> rfl
    exact key _

omit [Add V] [Zero V] in
theorem nodeAt_getElem (lv : Level V) (i : ℕ) (h : i < lv.length) : nodeAt lv i = lv[i] := by
  unfold nodeAt
  simp [List.getD_eq_getElem?_getD, h]

/-! ### the model's `restrictPos` as list surgery -/

theorem restrictPos_eq (C v : ℕ) (p : ℕ) (levels : List (Level V)) (h : p + 1 < levels.length) :
    restrictPos C p v levels
      = (levels.set p (foldInto C (levels.getD p []) (levels.getD (p + 1) []) v)).eraseIdx (p + 1) := by
  induction p generalizing levels with
  | zero =>
    match levels, h with
    | lv :: next :: rest, _ => rfl
  | succ p ih =>
    match levels, h with
    | lv :: rest, h =>
      simp only [List.length_cons] at h
      rw [restrictPos, ih rest (by omega)]
      rfl

/-! ### one level after the two loops -/

theorem level_adder (lv next : Level V) (C n v : ℕ) (hn : lv.length = n) (hC : ∀ nd ∈ lv, nd.adder.length = C) :
    (lv.map (fun nd => nd.adder)).mapIdx (fun i r =>
        if i < n then (if (nodeAt lv i).active then
          r.mapIdx (fun c x => if c < C then x + (nodeAt next ((nodeAt lv i).ch c)).ad v else x) else r) else r)
      = (foldInto C lv next v).map (fun nd => nd.adder) := by
  apply List.ext_getElem
  · simp [foldInto]
  · intro i h1 h2
    have hi : i < lv.length := by simpa using h1
    simp only [List.getElem_mapIdx, List.getElem_map, foldInto]
    rw [if_pos (by omega), nodeAt_getElem lv i hi]
    by_cases ha : lv[i].active
    · simp only [ha, if_true]
      have hl := hC lv[i] (List.getElem_mem hi)
      apply List.ext_getElem
      · simp [hl]
      · intro c hc1 hc2
        have hc : c < C := by simpa using hc2
        simp only [List.getElem_mapIdx, List.getElem_map, List.getElem_range, if_pos hc]
        congr 1
        unfold Node.ad
        simp [List.getD_eq_getElem?_getD, hl, hc]
    · simp only [ha]
      rfl

theorem level_child (lv next : Level V) (C n v : ℕ) (hn : lv.length = n) (hC : ∀ nd ∈ lv, nd.child.length = C) :
    (lv.map (fun nd => nd.child.map (fun (k : ℕ) => (k : Int)))).mapIdx (fun i r =>
        if i < n then (if (nodeAt lv i).active then
          r.mapIdx (fun c x => if c < C then (((nodeAt next ((nodeAt lv i).ch c)).ch v : ℕ) : Int) else x) else r) else r)
      = (foldInto C lv next v).map (fun nd => nd.child.map (fun (k : ℕ) => (k : Int))) := by
  apply List.ext_getElem
  · simp [foldInto]
  · intro i h1 h2
    have hi : i < lv.length := by simpa using h1
    simp only [List.getElem_mapIdx, List.getElem_map, foldInto]
    rw [if_pos (by omega), nodeAt_getElem lv i hi]
    by_cases ha : lv[i].active
    · simp only [ha, if_true]
      have hl := hC lv[i] (List.getElem_mem hi)
      apply List.ext_getElem
      · simp [hl]
      · intro c hc1 hc2
        have hc : c < C := by simpa using hc2
        simp only [List.getElem_mapIdx, List.getElem_map, List.getElem_range, if_pos hc]
    · simp only [ha]
      rfl

/-! ### the translated function with its loops named -/

section clean
variable {ν : Type} [Inhabited ν]

/-- body of the inner loop, `result.adder[pidx, i, c] += self.adder[idx, self.child[pidx, i, c], value]` -/
def addStep (vadd : ν → ν → ν) (child : List (List (List Int))) (adder : List (List (List ν))) (value pidx idx : Int)
    (A : List (List (List ν))) (i c : Int) : List (List (List ν)) :=
  Np.set3 A pidx i c (vadd (Np.get3 A pidx i c) (Np.get3 adder idx (Np.get3 child pidx i c) value))

/-- body of the inner loop, `result.child[pidx, i, c] = self.child[idx, self.child[pidx, i, c], value]` -/
def chStep (child : List (List (List Int))) (value pidx idx : Int)
    (B : List (List (List Int))) (i c : Int) : List (List (List Int)) :=
  Np.set3 B pidx i c (Np.get3 child idx (Np.get3 child pidx i c) value)

/-- the two nested loops of the branch `idx > 0` -/
def posLoop (vadd : ν → ν → ν) (nodes : List (List Int)) (child : List (List (List Int))) (adder : List (List (List ν)))
    (diam C value pidx idx : Int) : List (List (List ν)) × List (List (List Int)) :=
  (Np.range 0 diam 1).foldl (fun st i =>
    if decide (Np.getL2 nodes pidx i = 1) then
      (Np.range 0 C 1).foldl (fun st c => (addStep vadd child adder value pidx idx st.1 i c, chStep child value pidx idx st.2 i c)) st
    else st) (adder, child)

/-- the loop of the branch `idx = 0` -/
def rootLoop (vadd : ν → ν → ν) (adder : List (List (List ν))) (C lvl r : Int) (a : ν) : List (List (List ν)) :=
  (Np.range 0 C 1).foldl (fun A c => Np.set3 A lvl r c (vadd (Np.get3 A lvl r c) a)) adder

theorem add_restrict_clean (vadd vsub : ν → ν → ν) (is_inf : ν → Bool) (vindex : ν → Int) (units : List Int) (root : Int)
    (nodes : List (List Int)) (child : List (List (List Int))) (adder : List (List (List ν))) (diam C unit value : Int) :
    GenD.add_restrict vadd vsub is_inf vindex units root nodes child adder diam C unit value
      = if Np.indexOf units unit > 0 then
          (Np.deleteAt units (Np.indexOf units unit), root, Np.deleteAt nodes (Np.indexOf units unit),
            Np.deleteAt (posLoop vadd nodes child adder diam C value (Np.indexOf units unit - 1) (Np.indexOf units unit)).2 (Np.indexOf units unit),
            Np.deleteAt (posLoop vadd nodes child adder diam C value (Np.indexOf units unit - 1) (Np.indexOf units unit)).1 (Np.indexOf units unit))
        else
          (Np.deleteAt units (Np.indexOf units unit), Np.get3 child (Np.indexOf units unit) root value,
            Np.deleteAt nodes (Np.indexOf units unit), Np.deleteAt child (Np.indexOf units unit),
            Np.deleteAt (rootLoop vadd adder C (Np.indexOf units unit + 1) (Np.get3 child (Np.indexOf units unit) root value)
              (Np.get3 adder (Np.indexOf units unit) root value)) (Np.indexOf units unit)) := by
  unfold GenD.add_restrict posLoop rootLoop addStep chStep
  by_cases h : Np.indexOf units unit > 0
  · simp only [h, decide_true, if_true]
  · simp only [h, decide_false, if_false]; rfl

end clean

/-! ### the loops at natural indices -/

omit [Add V] [Zero V] in
theorem nodes_cond (levels : List (Level V)) (p i : ℕ) :
    (decide (Np.getL2 (nodesOf levels) (p : Int) (i : Int) = 1) = true) = ((nodeAt (levels.getD p []) i).active = true) := by
  rw [getL2_nodes]
  cases (nodeAt (levels.getD p []) i).active <;> simp

theorem addStep_nat (levels : List (Level V)) (p q v i c : ℕ) (A : List (List (List V))) :
    letI : Inhabited V := ⟨0⟩
    addStep (fun x1 x2 => x1 + x2) (childOf levels) (adderOf levels) (v : Int) (p : Int) (q : Int) A (i : Int) (c : Int)
      = modify3 A p i c (fun x => x + (nodeAt (levels.getD q []) ((nodeAt (levels.getD p []) i).ch c)).ad v) := by
  unfold addStep
  rw [get3_child, get3_adder]
  exact @set3_modify3 V ⟨0⟩ A p i c (fun x => x + (nodeAt (levels.getD q []) ((nodeAt (levels.getD p []) i).ch c)).ad v)

theorem chStep_nat (levels : List (Level V)) (p q v i c : ℕ) (B : List (List (List Int))) :
    chStep (childOf levels) (v : Int) (p : Int) (q : Int) B (i : Int) (c : Int)
      = modify3 B p i c (fun _ => (((nodeAt (levels.getD q []) ((nodeAt (levels.getD p []) i).ch c)).ch v : ℕ) : Int)) := by
  unfold chStep
  rw [get3_child, get3_child]
  exact set3_const_modify3 B p i c _

theorem posLoop_adder (levels : List (Level V)) (p diam C v : ℕ) (hp : p < levels.length)
    (hsh : ∀ lv ∈ levels, lv.length = diam ∧ ∀ nd ∈ lv, nd.child.length = C ∧ nd.adder.length = C) :
    letI : Inhabited V := ⟨0⟩
    List.foldl (fun a i =>
        if decide (Np.getL2 (nodesOf levels) (p : Int) i = 1) = true then
          List.foldl (fun a c => addStep (fun x1 x2 => x1 + x2) (childOf levels) (adderOf levels) (v : Int) (p : Int) ((p + 1 : ℕ) : Int) a i c)
            a (Np.range 0 (C : Int) 1)
        else a) (adderOf levels) (Np.range 0 (diam : Int) 1)
      = adderOf (levels.set p (foldInto C (levels.getD p []) (levels.getD (p + 1) []) v)) := by
  simp only [Np.range_up, List.foldl_map, addStep_nat, nodes_cond]
  rw [fold3]
  have hlv : levels.getD p [] = levels[p] := by simp [List.getD_eq_getElem?_getD, hp]
  have hmem : levels[p] ∈ levels := List.getElem_mem hp
  unfold adderOf
  rw [List.map_set, List.modify_eq_set (α := List (List V))]
  congr 1
  rw [List.getElem?_map, List.getElem?_eq_getElem hp, Option.map_some, Option.getD_some, hlv]
  exact level_adder levels[p] (levels.getD (p + 1) []) C diam v (hsh _ hmem).1 (fun nd hnd => ((hsh _ hmem).2 nd hnd).2)

theorem posLoop_child (levels : List (Level V)) (p diam C v : ℕ) (hp : p < levels.length)
    (hsh : ∀ lv ∈ levels, lv.length = diam ∧ ∀ nd ∈ lv, nd.child.length = C ∧ nd.adder.length = C) :
    List.foldl (fun b i =>
        if decide (Np.getL2 (nodesOf levels) (p : Int) i = 1) = true then
          List.foldl (fun b c => chStep (childOf levels) (v : Int) (p : Int) ((p + 1 : ℕ) : Int) b i c) b (Np.range 0 (C : Int) 1)
        else b) (childOf levels) (Np.range 0 (diam : Int) 1)
      = childOf (levels.set p (foldInto C (levels.getD p []) (levels.getD (p + 1) []) v)) := by
  simp only [Np.range_up, List.foldl_map, chStep_nat, nodes_cond]
  rw [fold3]
  have hlv : levels.getD p [] = levels[p] := by simp [List.getD_eq_getElem?_getD, hp]
  have hmem : levels[p] ∈ levels := List.getElem_mem hp
  unfold childOf
  rw [List.map_set, List.modify_eq_set (α := List (List Int))]
  congr 1
  rw [List.getElem?_map, List.getElem?_eq_getElem hp, Option.map_some, Option.getD_some, hlv]
  exact level_child levels[p] (levels.getD (p + 1) []) C diam v (hsh _ hmem).1 (fun nd hnd => ((hsh _ hmem).2 nd hnd).1)

theorem foldInto_active (C v : ℕ) (lv next : Level V) :
    (foldInto C lv next v).map (fun nd => if nd.active then (1 : Int) else 0) = lv.map (fun nd => if nd.active then (1 : Int) else 0) := by
  unfold foldInto
  rw [List.map_map]
  apply List.map_congr_left
  intro nd _
  simp only [Function.comp]
  by_cases h : nd.active <;> simp [h]

theorem nodesOf_set (C v p : ℕ) (levels : List (Level V)) (next : Level V) :
    nodesOf (levels.set p (foldInto C (levels.getD p []) next v)) = nodesOf levels := by
  unfold nodesOf
  rw [List.map_set, foldInto_active]
  apply List.ext_getElem?
  intro j
  rw [List.getElem?_set]
  split
  · rename_i h; subst h
    simp only [List.length_map, List.getElem?_map, List.getD_eq_getElem?_getD]
    split
    · rename_i h; rw [List.getElem?_eq_getElem h]; rfl
    · rename_i h; rw [List.getElem?_eq_none (by omega)]; rfl
  · rfl

theorem deleteAt_nat {β : Type} (l : List β) (k : ℕ) : Np.deleteAt l (k : Int) = l.eraseIdx k := by
  unfold Np.deleteAt; simp

/-! ### the two branches of the translated function -/

theorem restrict_pos (units : List ℕ) (root diam C u v p : ℕ) (levels : List (Level V)) (vsub : V → V → V) (is_inf : V → Bool) (vindex : V → Int)
    (hidx : units.idxOf u = p + 1) (hp : p + 1 < levels.length)
    (hsh : ∀ lv ∈ levels, lv.length = diam ∧ ∀ nd ∈ lv, nd.child.length = C ∧ nd.adder.length = C) :
    letI : Inhabited V := ⟨0⟩
    GenD.add_restrict (· + ·) vsub is_inf vindex (unitsI units) (root : Int) (nodesOf levels) (childOf levels) (adderOf levels)
        (diam : Int) (C : Int) (u : Int) (v : Int)
      = (unitsI (units.eraseIdx (p + 1)), (root : Int), nodesOf (restrictPos C p v levels), childOf (restrictPos C p v levels),
          adderOf (restrictPos C p v levels)) := by
  have hgt : ((p + 1 : ℕ) : Int) > 0 := by omega
  have hsub : ((p + 1 : ℕ) : Int) - 1 = (p : Int) := by omega
  rw [@add_restrict_clean V ⟨0⟩]
  simp only [indexOf_unitsI, hidx, hgt, if_true, hsub]
  unfold posLoop
  rw [foldl_pair_cond, posLoop_adder levels p diam C v (by omega) hsh, posLoop_child levels p diam C v (by omega) hsh,
    restrictPos_eq C v p levels hp]
  simp only [deleteAt_nat]
  refine Prod.ext ?_ (Prod.ext rfl (Prod.ext ?_ (Prod.ext ?_ ?_)))
  · simp only [unitsI, map_eraseIdx_]
  · simp only []
    rw [← nodesOf_set C v p levels (levels.getD (p + 1) [])]
    simp only [nodesOf, map_eraseIdx_]
  · simp only [childOf, map_eraseIdx_]
  · simp only [adderOf, map_eraseIdx_]

theorem set3_add_modify3 (A : List (List (List V))) (p i c : ℕ) (a : V) :
    letI : Inhabited V := ⟨0⟩
    Np.set3 A (p : Int) (i : Int) (c : Int) (Np.get3 A (p : Int) (i : Int) (c : Int) + a) = modify3 A p i c (fun x => x + a) :=
  @set3_modify3 V ⟨0⟩ A p i c (fun x => x + a)

theorem root_level_adder (next : Level V) (C r : ℕ) (a : V) (hsh : ∀ nd ∈ next, nd.adder.length = C) :
    (next.map (fun nd => nd.adder)).modify r (fun row => row.mapIdx (fun c x => if c < C then x + a else x))
      = (next.modify r (fun nd => { nd with adder := (List.range C).map (fun c => nd.ad c + a) })).map (fun nd => nd.adder) := by
  apply List.ext_getElem
  · simp
  · intro j h1 h2
    have hj : j < next.length := by simpa using h1
    simp only [List.getElem_modify, List.getElem_map]
    by_cases hrj : r = j
    · simp only [hrj, if_true]
      have hl := hsh next[j] (List.getElem_mem hj)
      apply List.ext_getElem
      · simp [hl]
      · intro c hc1 hc2
        have hc : c < C := by simpa using hc2
        simp only [List.getElem_mapIdx, List.getElem_map, List.getElem_range, if_pos hc]
        congr 1
        unfold Node.ad
        simp [List.getD_eq_getElem?_getD, hl, hc]
    · simp only [hrj, if_false]

theorem restrict_root (units : List ℕ) (root diam C u v : ℕ) (lv next : Level V) (rest : List (Level V)) (vsub : V → V → V) (is_inf : V → Bool) (vindex : V → Int)
    (hidx : units.idxOf u = 0)
    (hsh : ∀ nd ∈ next, nd.adder.length = C) :
    letI : Inhabited V := ⟨0⟩
    GenD.add_restrict (· + ·) vsub is_inf vindex (unitsI units) (root : Int) (nodesOf (lv :: next :: rest)) (childOf (lv :: next :: rest))
        (adderOf (lv :: next :: rest)) (diam : Int) (C : Int) (u : Int) (v : Int)
      = (unitsI (units.eraseIdx 0), (((nodeAt lv root).ch v : ℕ) : Int),
          nodesOf (next.modify ((nodeAt lv root).ch v) (fun nd => { nd with adder := (List.range C).map (fun c => nd.ad c + (nodeAt lv root).ad v) }) :: rest),
          childOf (next.modify ((nodeAt lv root).ch v) (fun nd => { nd with adder := (List.range C).map (fun c => nd.ad c + (nodeAt lv root).ad v) }) :: rest),
          adderOf (next.modify ((nodeAt lv root).ch v) (fun nd => { nd with adder := (List.range C).map (fun c => nd.ad c + (nodeAt lv root).ad v) }) :: rest)) := by
  have h0 : ¬ (((0 : ℕ) : Int) > 0) := by omega
  have h1 : ((0 : ℕ) : Int) + 1 = ((1 : ℕ) : Int) := by omega
  rw [@add_restrict_clean V ⟨0⟩]
  simp only [indexOf_unitsI, hidx, h0, if_false, h1, get3_child, get3_adder, deleteAt_nat]
  unfold rootLoop
  simp only [List.getD_cons_zero, Np.range_up, List.foldl_map, set3_add_modify3]
  rw [foldl_modify3]
  refine Prod.ext ?_ (Prod.ext rfl (Prod.ext ?_ (Prod.ext ?_ ?_)))
  · simp only [unitsI, map_eraseIdx_]
  · simp only [nodesOf, List.map_cons, List.eraseIdx_zero, List.tail_cons]
    congr 1
    symm; apply map_modify_of_eq; intro _; rfl
  · simp only [childOf, List.map_cons, List.eraseIdx_zero, List.tail_cons]
    congr 1
    symm; apply map_modify_of_eq; intro _; rfl
  · simp only [adderOf, List.map_cons, List.modify_succ_cons, List.modify_zero_cons, List.eraseIdx_zero, List.tail_cons]
    rw [root_level_adder next C _ _ hsh]

set_option linter.unusedVariables false in
/-- whenever the model's `restrict` succeeds on a diagram of regular array shape, the translated `ADD.restrict` returns exactly the fields of the model's result
(`vsub`, `is_inf`, `vindex` are not used by `restrict`) -/
theorem restrict_eq (d d' : Diagram V) (u c : ℕ) (vsub : V → V → V) (is_inf : V → Bool) (vindex : V → Int)
    (hs : Shape d) (hu : u ∈ d.units) (hnd : d.units.Nodup) (hc : c < d.C) (h : d.restrict u c = .ok d') :
    letI : Inhabited V := ⟨0⟩
    GenD.add_restrict (· + ·) vsub is_inf vindex (unitsI d.units) (d.root : Int) (nodesOf d.levels) (childOf d.levels) (adderOf d.levels)
        (d.diameter : Int) (d.C : Int) (u : Int) (c : Int)
      = fieldsOf d' := by
  obtain ⟨hlen, hlv⟩ := hs
  have hidx_lt : d.units.idxOf u < d.units.length := List.idxOf_lt_length_of_mem hu
  unfold Diagram.restrict at h
  have h1 : (!d.units.contains u) = false := by simp [hu]
  have h2 : ¬ (c ≥ d.C) := by omega
  simp only [h1, h2, Bool.false_eq_true, if_false] at h
  cases hi : d.units.idxOf u with
  | zero =>
    simp only [hi, beq_self_eq_true, if_true] at h
    match hL : d.levels with
    | [] => rw [hL] at h; exact absurd h (by simp [restrictRoot, bind, Except.bind, throw, throwThe, MonadExceptOf.throw])
    | [_] => rw [hL] at h; exact absurd h (by simp [restrictRoot, bind, Except.bind, throw, throwThe, MonadExceptOf.throw])
    | lv :: next :: rest =>
      rw [hL] at h hlv
      unfold restrictRoot at h
      by_cases hr : (nodeAt lv d.root).ch c < next.length
      · simp only [hr, if_true, bind, Except.bind, pure, Except.pure] at h
        have hd' := (Except.ok.inj h).symm
        subst hd'
        have hnext : ∀ nd ∈ next, nd.adder.length = d.C := fun nd hn =>
          ((hlv next (by simp)).2 nd hn).2
        exact restrict_root d.units d.root d.diameter d.C u c lv next rest vsub is_inf vindex hi hnext
      · simp only [hr, if_false, bind, Except.bind, throw, throwThe, MonadExceptOf.throw] at h
        exact absurd h (by simp)
  | succ p =>
    have hne : (p + 1 == 0) = false := by simp
    simp only [hi, hne, Bool.false_eq_true, if_false, Nat.add_sub_cancel, pure, Except.pure] at h
    have hd' := (Except.ok.inj h).symm
    subst hd'
    exact restrict_pos d.units d.root d.diameter d.C u c p d.levels vsub is_inf vindex hi (by omega) hlv

/-! ### non-vacuity: a three-level diagram over `ℕ`, two nodes per level, two candidates -/

/-- units 4, 5, 6; the second node of the first level is inactive -/
def exD : Diagram ℕ :=
  { units := [4, 5, 6], C := 2, diameter := 2, root := 0,
    levels := [[⟨true, [0, 1], [1, 2]⟩, ⟨false, [0, 0], [0, 0]⟩],
               [⟨true, [0, 1], [10, 20]⟩, ⟨true, [1, 1], [30, 40]⟩],
               [⟨true, [0, 0], [100, 200]⟩, ⟨true, [0, 0], [300, 400]⟩]] }

/-- `exD.restrict 5 1`: level 1 (fixed to value 1) folded into the active node of level 0 -/
def exPos : Diagram ℕ :=
  { units := [4, 6], C := 2, diameter := 2, root := 0,
    levels := [[⟨true, [1, 1], [21, 42]⟩, ⟨false, [0, 0], [0, 0]⟩],
               [⟨true, [0, 0], [100, 200]⟩, ⟨true, [0, 0], [300, 400]⟩]] }

/-- `exD.restrict 4 1`: the root moves to node 1 of the next level, whose edges take the root edge's value 2 -/
def exRoot : Diagram ℕ :=
  { units := [5, 6], C := 2, diameter := 2, root := 1,
    levels := [[⟨true, [0, 1], [10, 20]⟩, ⟨true, [1, 1], [32, 42]⟩],
               [⟨true, [0, 0], [100, 200]⟩, ⟨true, [0, 0], [300, 400]⟩]] }

theorem exD_shape : Shape exD := by
  unfold Shape exD
  decide

example : exD.restrict 5 1 = .ok exPos := by rfl
example : exD.restrict 4 1 = .ok exRoot := by rfl
example : (exD.restrict 4 0).toOption.map (·.root) = some 0 := by decide

example : GenD.add_restrict (ν := ℕ) (· + ·) (· - ·) (fun _ => false) (fun k => (k : Int)) (unitsI exD.units) (exD.root : Int)
    (nodesOf exD.levels) (childOf exD.levels) (adderOf exD.levels) (exD.diameter : Int) (exD.C : Int) 5 1 = fieldsOf exPos := by
  refine Prod.ext ?_ (Prod.ext ?_ (Prod.ext ?_ (Prod.ext ?_ ?_))) <;> decide
example : GenD.add_restrict (ν := ℕ) (· + ·) (· - ·) (fun _ => false) (fun k => (k : Int)) (unitsI exD.units) (exD.root : Int)
    (nodesOf exD.levels) (childOf exD.levels) (adderOf exD.levels) (exD.diameter : Int) (exD.C : Int) 4 1 = fieldsOf exRoot := by
  refine Prod.ext ?_ (Prod.ext ?_ (Prod.ext ?_ (Prod.ext ?_ ?_))) <;> decide

/-- the hypotheses of `restrict_eq` are satisfiable (branch `idx > 0`) -/
example : GenD.add_restrict (ν := ℕ) (· + ·) (· - ·) (fun _ => false) (fun k => (k : Int)) (unitsI exD.units) (exD.root : Int)
    (nodesOf exD.levels) (childOf exD.levels) (adderOf exD.levels) (exD.diameter : Int) (exD.C : Int) ((5 : ℕ) : Int) ((1 : ℕ) : Int) = fieldsOf exPos :=
  restrict_eq exD exPos 5 1 (· - ·) (fun _ => false) (fun k => (k : Int)) exD_shape (by decide) (by decide) (by decide) (by rfl)

/-- the hypotheses of `restrict_eq` are satisfiable (root branch, `idx = 0`) -/
example : GenD.add_restrict (ν := ℕ) (· + ·) (· - ·) (fun _ => false) (fun k => (k : Int)) (unitsI exD.units) (exD.root : Int)
    (nodesOf exD.levels) (childOf exD.levels) (adderOf exD.levels) (exD.diameter : Int) (exD.C : Int) ((4 : ℕ) : Int) ((1 : ℕ) : Int) = fieldsOf exRoot :=
  restrict_eq exD exRoot 4 1 (· - ·) (fun _ => false) (fun k => (k : Int)) exD_shape (by decide) (by decide) (by decide) (by rfl)

end DsProofs.TieD

#print axioms DsProofs.TieD.restrict_eq
