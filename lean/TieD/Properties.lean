import TieD.RestrictProofs
import TieD.CountProofs
import TieD.InitProofs
import DsProofs.Properties.C10
/-!
# TIED — the array code of the decision diagrams AS IT IS WRITTEN NOW
(`GenD/Ops.lean`, regenerated from `/repo/datascope/utility/add.py` and `/repo/datascope/importance/oracle.py` on every run by `harness/translate_addops.py`)

* `TIED_restrict`: whenever the model's `Diagram.restrict` succeeds on a diagram of regular array shape, the translated `ADD.restrict` returns exactly the arrays
  `(units, root, nodes, child, adder)` of the model's result — both the non-root case (the fixed level folded into its parent level: `adder[pidx,i,c] += adder[idx,
  child[pidx,i,c], value]`, `child[pidx,i,c] = child[idx, child[pidx,i,c], value]` for the active nodes) and the root case (root moved, root edge pushed onto the
  new root node), followed by the deletion of the level and the removal of the unit.  `C10_restrict` (the result evaluates like the original with the variable
  fixed) then speaks about the source as written.  The translator requires `result._units_index` to be rebuilt after `result.units.pop(idx)` (defect F16).
  Not covered: the error paths (a one-variable diagram, F3b: the model raises, the translated code is total).
* `TIED_modelcount`: on a diagram over the clipped values of a domain `D`, of regular shape, whose last-level children (reachable through active nodes) are
  `< diameter` (`ChildBound`: NumPy would raise IndexError otherwise; a proved counterexample shows the hypothesis is needed), the translated dynamic programme of
  `ADD.modelcount` returns the model's `Diagram.modelcount` — to which `C10_modelcount_aval` (histogram of the evaluated value over all assignments) applies.
* `TIED_init`: whenever the model's `Oracle.build` succeeds, the translated `ShapleyOracle.__init__` (boundary rows then `None`; for each, the rows `tt` with
  `distances[t] >= distances[tt]` — ties included, all rows for `None` — add their one-hot label tally at `locations[tt]` to the `with` / `without` copy of the compiled
  diagram; for a real boundary row the `(unit, 0)` edges of its units are overwritten with the invalid value) fills the two dictionaries with exactly the model's
  boundary diagrams, keyed in order.  The diagram methods `update` / `get_update_location` are the model's (parameters of the translated code).
* `TIED_query`: `ShapleyOracle.query` is the composition restrict(with, 1), restrict(without, 0), sum, `adder[:, :, 1] += atype(1, 0…, 0…)`, modelcount, zipped
  with the domain — exactly the model's `Oracle.query` (for any implementation of the four diagram methods that agrees with the model's where the model succeeds).
-/
open Ds Ds.Dd Ds.GenCall Ds.GenOps Ds.Oracle

namespace DsProofs.TieD

theorem TIED_restrict {V : Type} [Add V] [Zero V] (d d' : Diagram V) (u c : ℕ) (vsub : V → V → V) (is_inf : V → Bool) (vindex : V → Int)
    (hs : Shape d) (hu : u ∈ d.units) (hnd : d.units.Nodup) (hc : c < d.C) (h : d.restrict u c = .ok d') :
    letI : Inhabited V := ⟨0⟩
    GenD.add_restrict (· + ·) vsub is_inf vindex (unitsI d.units) (d.root : Int) (nodesOf d.levels) (childOf d.levels) (adderOf d.levels)
        (d.diameter : Int) (d.C : Int) (u : Int) (c : Int)
      = fieldsOf d' :=
  restrict_eq d d' u c vsub is_inf vindex hs hu hnd hc h

theorem TIED_modelcount (D : Dom) (d : Diagram (AVal D)) (hs : Shape d) (hw : d.WF) (hd : 0 < D.dim) (hroot : d.root < d.diameter)
    (hb : ChildBound d.C d.diameter d.levels d.root) :
    letI : Inhabited (AVal D) := ⟨0⟩
    GenD.add_modelcount (· + ·) AVal.sub (fun v => v.isNone) (fun v => ((D.index v : ℕ) : Int)) D.domain
        (unitsI d.units) (d.root : Int) (nodesOf d.levels) (childOf d.levels) (adderOf d.levels) (d.diameter : Int) (d.C : Int)
      = d.modelcount AVal.sub? (D.vecs.map (AVal.clip D)) :=
  modelcount_eq D d hs hw hd hroot hb

theorem TIED_init (D : Dom) (c : ℕ) (p : Prov.P) (labels : List ℕ) (dist : List ℚ) (b : Built D)
    (hb : build D c p labels dist = .ok b) :
    GenD.oracle_init (δ := Diagram (AVal D)) (ν := AVal D) (ℓ := List (ℕ × ℕ × ℕ)) (α := ℚ)
        (fun d loc v inc => d.update loc v inc)
        (fun d u => match d.getUpdateLocation [(u.toNat, 0)] with | .ok loc => loc | .error _ => [])
        (fun t w wo => tallyVal D t.toNat (w.map Int.toNat) (wo.map Int.toNat)) (none : AVal D)
        (fun t => (rowUnits (p.data.getD t.toNat [])).map (fun u : ℕ => (u : Int)))
        b.base.add b.base.locs (p.data.length : Int) (c : Int) (labels.map (fun k : ℕ => (k : Int))) dist
      = ((boundaryKeys p.data.length).zip b.withs, (boundaryKeys p.data.length).zip b.withouts) :=
  oracle_init_eq D c p labels dist b hb

/-- `ShapleyOracle.query` as written = the model's `Oracle.query` (boundary `None` is the last cached diagram) -/
theorem TIED_query (D : Dom) (c R unit : ℕ) (b : Built D) (bw bwo : Option ℕ) (counts : List Int)
    (restrict' : Diagram (AVal D) → Int → Int → Diagram (AVal D)) (dsum' : Diagram (AVal D) → Diagram (AVal D) → Diagram (AVal D))
    (hr : ∀ d d' (u v : ℕ), d.restrict u v = .ok d' → restrict' d (u : Int) (v : Int) = d')
    (hsum : ∀ a b' s, Diagram.sum a b' = .ok s → dsum' a b' = s)
    (h : Oracle.query c b R unit bw bwo = .ok counts) :
    GenD.oracle_query restrict' dsum' (fun d (k : Int) v => d.addOnCandidate k.toNat v)
        (fun d => d.modelcount AVal.sub? (D.vecs.map (AVal.clip D)))
        (fun t => b.withs.getD (bIdx R (t.map Int.toNat)) default) (fun t => b.withouts.getD (bIdx R (t.map Int.toNat)) default)
        (tallyVal D 1 (List.replicate c 0) (List.replicate c 0)) D.domain (unit : Int) (bw.map (fun k : ℕ => (k : Int))) (bwo.map (fun k : ℕ => (k : Int)))
      = List.zip D.domain counts := by
  unfold Oracle.query at h
  unfold GenD.oracle_query
  have hm : ∀ t : Option ℕ, (t.map (fun k : ℕ => (k : Int))).map Int.toNat = t := by
    intro t; cases t <;> simp
  simp only [hm]
  cases h1 : (b.withs.getD (bIdx R bw) default).restrict unit 1 with
  | error e => rw [h1] at h; cases h
  | ok aw =>
    cases h2 : (b.withouts.getD (bIdx R bwo) default).restrict unit 0 with
    | error e => rw [h1, h2] at h; cases h
    | ok awo =>
      cases h3 : aw.sum awo with
      | error e => rw [h1, h2] at h; simp only [bind, Except.bind] at h; rw [h3] at h; cases h
      | ok s =>
        rw [h1, h2] at h
        simp only [bind, Except.bind] at h
        rw [h3] at h
        simp only [pure, Except.pure] at h
        have hc : counts = (s.addOnCandidate 1 (tallyVal D 1 (List.replicate c 0) (List.replicate c 0))).modelcount AVal.sub? (D.vecs.map (AVal.clip D)) := by
          injection h with h; exact h.symm
        have e1 := hr _ _ unit 1 h1
        have e2 := hr _ _ unit 0 h2
        simp only [Nat.cast_one, Nat.cast_zero] at e1 e2
        rw [e1, e2, hsum _ _ _ h3, hc]
        rfl

end DsProofs.TieD
