import Ds.Np
import Tie.NpProofs
import Mathlib.Algebra.BigOperators.Group.List.Basic
import Mathlib.Data.List.Basic
import Mathlib.Data.List.Range
import Mathlib.Tactic.Ring
import Mathlib.Tactic.Linarith
/-!
# TieD.CountTable — integer tables (`List (List Int)`) read and written through `Np.getL2` / `Np.setL2`:
pointwise description of folds whose steps add a number to one entry.  Helper lemmas for `TieD.CountProofs`.
-/
namespace DsProofs.TieD

/-- entry `(j, k)` of a table, `0` outside -/
def g (t : List (List Int)) (j k : ℕ) : Int := (t.getD j []).getD k 0

/-- `r` rows of `m` entries -/
def Dim (r m : ℕ) (t : List (List Int)) : Prop := t.length = r ∧ ∀ row ∈ t, row.length = m

theorem getL2_nat (t : List (List Int)) (j k : ℕ) : Np.getL2 t (j : Int) (k : Int) = g t j k := by
  unfold Np.getL2 g
  rw [Np.get1_natCast, Np.get1_natCast]; rfl

theorem row_len {r m : ℕ} {t : List (List Int)} (hd : Dim r m t) {j : ℕ} (hj : j < t.length) : (t[j]?.getD []).length = m := by
  rw [List.getElem?_eq_getElem hj]; exact hd.2 _ (List.getElem_mem hj)

theorem g_oob {r m : ℕ} {t : List (List Int)} (hd : Dim r m t) (j k : ℕ) (h : r ≤ j ∨ m ≤ k) : g t j k = 0 := by
  unfold g
  by_cases hj : j < t.length
  · have hrow := row_len hd hj
    rcases h with h | h
    · rw [hd.1] at hj; omega
    · simp only [List.getD_eq_getElem?_getD]
      rw [List.getElem?_eq_none (by omega)]; rfl
  · simp only [List.getD_eq_getElem?_getD]
    have : t[j]? = none := List.getElem?_eq_none (by omega)
    rw [this]; rfl

/-- `a[j, k] = x` -/
theorem setL2_spec {r m : ℕ} {t : List (List Int)} (hd : Dim r m t) (j k : ℕ) (x : Int) :
    Dim r m (Np.setL2 t (j : Int) (k : Int) x) ∧
      ∀ j' k', j' < r → k' < m → g (Np.setL2 t (j : Int) (k : Int) x) j' k' = if j' = j ∧ k' = k then x else g t j' k' := by
  unfold Np.setL2
  rw [Np.pyIdx_natCast]
  by_cases hj : j < t.length
  · rw [if_pos hj]
    simp only [Np.set1_natCast, List.getD_eq_getElem?_getD]
    have hrow := row_len hd hj
    refine ⟨⟨by rw [List.length_set]; exact hd.1, ?_⟩, ?_⟩
    · intro row hrow'
      rcases List.mem_or_eq_of_mem_set hrow' with h | h
      · exact hd.2 _ h
      · rw [h, List.length_set]; exact hrow
    · intro j' k' hj' hk'
      unfold g
      simp only [List.getD_eq_getElem?_getD, List.getElem?_set]
      by_cases e1 : j = j'
      · subst e1
        rw [if_pos rfl, if_pos hj]
        simp only [Option.getD_some, List.getElem?_set]
        by_cases e2 : k = k'
        · subst e2
          rw [if_pos rfl, if_pos (by omega)]; simp
        · rw [if_neg e2, if_neg (by intro h; exact e2 h.2.symm)]
      · rw [if_neg e1, if_neg (by intro h; exact e1 h.1.symm)]
  · rw [if_neg hj]
    refine ⟨hd, ?_⟩
    intro j' k' hj' hk'
    rw [if_neg]
    intro h
    rw [hd.1] at hj; omega

/-- `a[j, k] += y` -/
theorem addL2_spec {r m : ℕ} {t : List (List Int)} (hd : Dim r m t) (j k : ℕ) (y : Int) :
    Dim r m (Np.setL2 t (j : Int) (k : Int) (Np.getL2 t (j : Int) (k : Int) + y)) ∧
      ∀ j' k', j' < r → k' < m →
        g (Np.setL2 t (j : Int) (k : Int) (Np.getL2 t (j : Int) (k : Int) + y)) j' k' = g t j' k' + if j' = j ∧ k' = k then y else 0 := by
  obtain ⟨h1, h2⟩ := setL2_spec hd j k (Np.getL2 t (j : Int) (k : Int) + y)
  refine ⟨h1, ?_⟩
  intro j' k' hj' hk'
  rw [h2 j' k' hj' hk', getL2_nat]
  by_cases h : j' = j ∧ k' = k
  · rw [if_pos h, if_pos h, h.1, h.2]
  · rw [if_neg h, if_neg h, add_zero]

/-- a fold whose steps keep the shape and add `δ x j k` to entry `(j, k)` adds the sum of the `δ`s -/
theorem foldl_delta {β : Type} (r m : ℕ) (xs : List β) (step : List (List Int) → β → List (List Int)) (δ : β → ℕ → ℕ → Int)
    (h : ∀ cur x, x ∈ xs → Dim r m cur →
      Dim r m (step cur x) ∧ ∀ j k, j < r → k < m → g (step cur x) j k = g cur j k + δ x j k)
    (cur : List (List Int)) (hc : Dim r m cur) :
    Dim r m (xs.foldl step cur) ∧
      ∀ j k, j < r → k < m → g (xs.foldl step cur) j k = g cur j k + (xs.map (fun x => δ x j k)).sum := by
  induction xs generalizing cur with
  | nil => exact ⟨hc, fun j k _ _ => by simp⟩
  | cons x xs ih =>
    obtain ⟨d1, e1⟩ := h cur x (by simp) hc
    obtain ⟨d2, e2⟩ := ih (fun cur y hy hcur => h cur y (by simp [hy]) hcur) (step cur x) d1
    refine ⟨d2, ?_⟩
    intro j k hj hk
    rw [List.foldl_cons, e2 j k hj hk, e1 j k hj hk, List.map_cons, List.sum_cons]; ring

/-! ### sums of indicators -/

theorem sum_map_const_ite {β : Type} (xs : List β) (p : Prop) [Decidable p] (f : β → Int) :
    (xs.map (fun x => if p then f x else 0)).sum = if p then (xs.map f).sum else 0 := by
  by_cases h : p
  · simp only [if_pos h]
  · simp only [if_neg h]
    induction xs with
    | nil => rfl
    | cons x xs ih => rw [List.map_cons, List.sum_cons, ih]; rfl

theorem sum_range_ite (n j' : ℕ) (F : ℕ → Int) :
    ((List.range n).map (fun j => if j' = j then F j else 0)).sum = if j' < n then F j' else 0 := by
  induction n with
  | zero => simp
  | succ n ih =>
    rw [List.range_succ, List.map_append, List.sum_append, ih]
    simp only [List.map_cons, List.map_nil, List.sum_cons, List.sum_nil, add_zero]
    by_cases h1 : j' < n
    · rw [if_pos h1, if_neg (by omega), if_pos (by omega), add_zero]
    · rw [if_neg h1, zero_add]
      by_cases h2 : j' = n
      · subst h2; rw [if_pos rfl, if_pos (by omega)]
      · rw [if_neg h2, if_neg (by omega)]

theorem sum_zipIdx_ite {α : Type} (l : List α) (s k' : ℕ) (A : α → Int) :
    ((l.zipIdx s).map (fun p => if k' = p.2 then A p.1 else 0)).sum = if s ≤ k' then (l[k' - s]?.map A).getD 0 else 0 := by
  induction l generalizing s with
  | nil => simp
  | cons a l ih =>
    rw [List.zipIdx_cons, List.map_cons, List.sum_cons, ih]
    by_cases h1 : k' = s
    · subst h1
      simp
    · simp only [if_neg h1, zero_add]
      by_cases h2 : s ≤ k'
      · rw [if_pos (by omega), if_pos h2]
        have : k' - s = (k' - (s + 1)) + 1 := by omega
        rw [this, List.getElem?_cons_succ]
      · rw [if_neg (by omega), if_neg h2]

/-! ### the loops -/

theorem foldl_range_up {σ : Type} (n : ℕ) (f : σ → Int → σ) (init : σ) :
    (Np.range 0 (n : Int) 1).foldl f init = (List.range n).foldl (fun s (k : ℕ) => f s (k : Int)) init := by
  rw [Np.range_up, List.foldl_map]

theorem enumerateFrom_eq {β : Type} (l : List β) (s : ℕ) :
    Np.enumerateFrom (s : Int) l = (l.zipIdx s).map (fun p => ((p.2 : Int), p.1)) := by
  induction l generalizing s with
  | nil => rfl
  | cons a l ih =>
    rw [Np.enumerateFrom, List.zipIdx_cons, List.map_cons]
    have : ((s : Int) + 1) = ((s + 1 : ℕ) : Int) := by push_cast; ring
    rw [this, ih]

theorem foldl_enumerate {σ β : Type} (l : List β) (f : σ → Int × β → σ) (init : σ) :
    (Np.enumerateFrom (0 : Int) l).foldl f init = (l.zipIdx 0).foldl (fun s p => f s ((p.2 : Int), p.1)) init := by
  have := enumerateFrom_eq l 0
  rw [Nat.cast_zero] at this
  rw [this, List.foldl_map]

/-- a loop over the levels in reversed order builds the table of the whole list from the table of the empty one -/
theorem foldl_levels {σ α : Type} (step : σ → List α → σ) (base : σ) (L : List (List α)) :
    (List.range L.length).reverse.foldl (fun st i => step st (L.getD i [])) base = L.foldr (fun lv st => step st lv) base := by
  induction L with
  | nil => rfl
  | cons lv rest ih =>
    rw [List.length_cons, List.range_succ_eq_map, List.reverse_cons, List.foldl_append, ← List.map_reverse, List.foldl_map]
    simp only [List.getD_cons_succ, List.foldl_cons, List.foldl_nil, List.getD_cons_zero, List.foldr_cons]
    rw [ih]

/-- the zero table -/
theorem zerosL2_spec (r m : ℕ) : Dim r m (Np.zerosL2 (r : Int) (m : Int)) ∧ ∀ j k, g (Np.zerosL2 (r : Int) (m : Int)) j k = 0 := by
  unfold Np.zerosL2
  simp only [Int.toNat_natCast]
  refine ⟨⟨List.length_replicate, fun row h => ?_⟩, fun j k => ?_⟩
  · rw [List.eq_of_mem_replicate h, List.length_replicate]
  · unfold g
    simp only [List.getD_eq_getElem?_getD, List.getElem?_replicate]
    by_cases hj : j < r
    · rw [if_pos hj]
      simp only [Option.getD_some, List.getElem?_replicate]
      by_cases hk : k < m
      · rw [if_pos hk]; rfl
      · rw [if_neg hk]; rfl
    · rw [if_neg hj]; rfl

/-- the table of the empty level list: column 0 holds 1 -/
theorem base_spec (r m : ℕ) (hm : 0 < m) :
    Dim r m (Np.setColL2 (Np.zerosL2 (r : Int) (m : Int)) (0 : Int) (1 : Int)) ∧
      ∀ j k, j < r → k < m → g (Np.setColL2 (Np.zerosL2 (r : Int) (m : Int)) (0 : Int) (1 : Int)) j k = if k = 0 then 1 else 0 := by
  unfold Np.zerosL2 Np.setColL2
  have h0 : ((0 : Int)) = ((0 : ℕ) : Int) := rfl
  simp only [Int.toNat_natCast, List.map_replicate]
  rw [h0, Np.set1_natCast]
  refine ⟨⟨List.length_replicate, fun row h => ?_⟩, fun j k hj hk => ?_⟩
  · rw [List.eq_of_mem_replicate h, List.length_set, List.length_replicate]
  · unfold g
    simp only [List.getD_eq_getElem?_getD, List.getElem?_replicate, if_pos hj, Option.getD_some, List.getElem?_set,
      List.length_replicate]
    by_cases hk0 : k = 0
    · subst hk0; rw [if_pos rfl, if_pos hm, if_pos rfl]; rfl
    · rw [if_neg (by omega), if_neg hk0, if_pos hk]; rfl

end DsProofs.TieD
